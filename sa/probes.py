"""Thorough tier: in-memory probes. For each registered probe the source text of one module is transformed in memory
(never on disk), the same rules are re-run on the transformed tree, and

  * a BREAK probe must make the property's check report at least one violation it did not report before
    (otherwise the rule has gone vacuous for that construct), and
  * a BENIGN probe (behaviour-preserving edit) must not add any violation (otherwise the rule is brittle).

Probes are static (text -> AST -> same rules); nothing is executed. A probe whose pattern no longer occurs in the
current tree is reported as skipped. Outcomes go into the evidence file; they never turn a clean run into a
VIOLATION (only the analysis of the real tree does), but unexpected outcomes are printed as PROBE-UNEXPECTED lines.
The thorough tier also widens the who-may-write scans to bin/, demos/ and tests/ (informational)."""
import ast
import os
from concurrent.futures import ProcessPoolExecutor

P = "rpyc/core/protocol.py"
B = "rpyc/core/brine.py"
S = "rpyc/core/stream.py"
CH = "rpyc/core/channel.py"
N = "rpyc/core/netref.py"
VG = "rpyc/core/vinegar.py"
AS = "rpyc/core/async_.py"
CO = "rpyc/lib/colls.py"
LI = "rpyc/lib/__init__.py"
SV = "rpyc/utils/server.py"
RG = "rpyc/utils/registry.py"
HL = "rpyc/utils/helpers.py"
CL = "rpyc/utils/classic.py"
SE = "rpyc/core/service.py"
CN = "rpyc/core/consts.py"

# (property, kind, name, file, old, new)
PROBES = [
    # ---- C01
    ("C01", "break", "kwargs dropped in _handle_call", P, "return obj(*args, **dict(kwargs))", "return obj(*args)"),
    ("C01", "break", "forwarder omits kwargs", N, "return syncreq(_self, consts.HANDLE_CALLATTR, name, args, kwargs)",
     "return syncreq(_self, consts.HANDLE_CALLATTR, name, args)"),
    ("C01", "break", "reply boxes None", P, "reply = brine.dump((consts.MSG_REPLY, seq, self._box(res)))",
     "reply = brine.dump((consts.MSG_REPLY, seq, self._box(None)))"),
    ("C01", "break", "value returns the exception", AS, "        if self._is_exc:\n            raise self._obj\n        else:\n            return self._obj",
     "        return self._obj"),
    ("C01", "break", "handler gains a parameter", P, "def _handle_buffiter(self, obj, count):", "def _handle_buffiter(self, obj, count, step):"),
    ("C01", "benign", "rename local in _handle_callattr", P, "        obj = self._handle_getattr(obj, name)\n        return self._handle_call(obj, args, kwargs)",
     "        target = self._handle_getattr(obj, name)\n        return self._handle_call(target, args, kwargs)"),
    # ---- C02
    ("C02", "break", "__lt__ sends __gt__", N, "return syncreq(self, consts.HANDLE_CMP, other, '__lt__')", "return syncreq(self, consts.HANDLE_CMP, other, '__gt__')"),
    ("C02", "break", "__str__ wired to REPR", N, "return syncreq(self, consts.HANDLE_STR)", "return syncreq(self, consts.HANDLE_REPR)"),
    ("C02", "break", "hash handler returns id", P, "        return hash(obj)", "        return id(obj)"),
    ("C02", "break", "__exit__ dropped from LOCAL_ATTRS", N, "'__weakref__', '__dict__', '__methods__', '__exit__',", "'__weakref__', '__dict__', '__methods__',"),
    ("C02", "break", "buffiter stops on short chunk", HL, "        if not items:\n            break", "        if len(items) < count:\n            break"),
    ("C02", "break", "cmp operands swapped", P, '"_rpyc_getattr", "allow_getattr", getattr)(obj, other)', '"_rpyc_getattr", "allow_getattr", getattr)(other, obj)'),
    # ---- C03
    ("C03", "break", "isinstance tuple in _box", P, "if type(obj) is tuple:", "if isinstance(obj, tuple):"),
    ("C03", "break", "LOCAL_REF without connection guard", P, "elif isinstance(obj, netref.BaseNetref) and obj.____conn__ is self:", "elif isinstance(obj, netref.BaseNetref):"),
    ("C03", "break", "fresh proxy not cached", P, "                self._proxy_cache[id_pack] = proxy\n", ""),
    ("C03", "break", "cached proxy tested by truthiness", P, "            if id_pack in self._proxy_cache:\n                proxy = self._proxy_cache[id_pack]\n",
     "            proxy = self._proxy_cache.get(id_pack)\n            if proxy:\n"),
    ("C03", "benign", "cache lookup via get / is not None", P, "            if id_pack in self._proxy_cache:\n                proxy = self._proxy_cache[id_pack]\n",
     "            proxy = self._proxy_cache.get(id_pack)\n            if proxy is not None:\n"),
    ("C03", "break", "unbound name in get_id_pack", LI, "name_pack = '{0}.{1}'.format(obj.__module__, obj.__name__)\n                print", "name_pack = '{0}.{1}'.format(obj__module__, obj.__name__)\n                print"),
    # ---- C04
    ("C04", "break", "L1 guard <= 256", B, "    elif lenobj < 256:\n        stream.append(TAG_STR_L1", "    elif lenobj <= 256:\n        stream.append(TAG_STR_L1"),
    ("C04", "benign", "L1 guard <= 255", B, "    elif lenobj < 256:\n        stream.append(TAG_STR_L1", "    elif lenobj <= 255:\n        stream.append(TAG_STR_L1"),
    ("C04", "break", "loader reads I4 for L1", B, "    l, = I1.unpack(stream.read(1))\n    return stream.read(l)", "    l, = I4.unpack(stream.read(4))\n    return stream.read(l)"),
    ("C04", "break", "frozenset loader returns set", B, "return frozenset(_load(stream))", "return set(_load(stream))"),
    ("C04", "break", "two tags share a byte", B, 'TAG_SLICE = b"\\x19"', 'TAG_SLICE = b"\\x18"'),
    ("C04", "break", "dumpable lacks complex", B, "bytes, str, complex, type", "bytes, str, type"),
    ("C04", "break", "tuple2 loader swaps", B, "    return (_load(stream), _load(stream))", "    a = _load(stream)\n    b = _load(stream)\n    return (b, a)"),
    ("C04", "break", "slice field order", B, "_dump((obj.start, obj.stop, obj.step), stream)", "_dump((obj.start, obj.step, obj.stop), stream)"),
    ("C04", "break", "pickle tag in decoder", B, "def _load(stream):\n    tag = stream.read(1)", "def _load(stream):\n    tag = stream.read(1)\n    if tag == b'\\x7f':\n        import pickle\n        return pickle.loads(stream.read())"),
    ("C04", "break", "strict text codec", B, 'obj.encode("utf8", "surrogatepass")', 'obj.encode("utf8")'),
    # ---- C05
    ("C05", "break", "recv without min", S, "buf = self.sock.recv(min(self.MAX_IO_CHUNK, count))", "buf = self.sock.recv(self.MAX_IO_CHUNK)"),
    ("C05", "break", "break on timeout", S, "            except socket.timeout:\n                continue", "            except socket.timeout:\n                break"),
    ("C05", "break", "send return ignored", S, "                count = self.sock.send(data[:self.MAX_IO_CHUNK])\n                data = data[count:]",
     "                self.sock.send(data[:self.MAX_IO_CHUNK])\n                data = data[self.MAX_IO_CHUNK:]"),
    ("C05", "break", "EOF without close", S, '            if not buf:\n                self.close()\n                raise EOFError("connection closed by peer")',
     '            if not buf:\n                raise EOFError("connection closed by peer")'),
    ("C05", "break", "split slices overlap", CH, "self.stream.write(data[part1:])", "self.stream.write(data[part1 + 1:])"),
    ("C05", "break", "flusher stripped from the front", CH, "[:-len(self.FLUSHER)]", "[len(self.FLUSHER):]"),
    ("C05", "benign", "hoisted temporaries in recv", CH, "        data = self.stream.read(length + len(self.FLUSHER))[:-len(self.FLUSHER)]",
     "        n = len(self.FLUSHER)\n        raw = self.stream.read(length + n)\n        data = raw[:-n]"),
    # ---- C06
    ("C06", "break", "CVE-2019-16328 shape", P, 'return self._access_attr(type(obj), op, (), "_rpyc_getattr", "allow_getattr", getattr)(obj, other)', "return getattr(type(obj), op)(obj, other)"),
    ("C06", "break", "setattr checked against allow_getattr", P, '(value,), "_rpyc_setattr", "allow_setattr", setattr)', '(value,), "_rpyc_setattr", "allow_getattr", setattr)'),
    ("C06", "break", "safe switch dropped", P, 'plain |= config["allow_safe_attrs"] and name in config["safe_attrs"]', 'plain |= name in config["safe_attrs"]'),
    ("C06", "break", "twin consulted when exposed attrs disabled", P, 'prefix = config["allow_exposed_attrs"] and config["exposed_prefix"]', 'prefix = config["exposed_prefix"]'),
    ("C06", "break", "config shared", P, "self._config = DEFAULT_CONFIG.copy()", "self._config = DEFAULT_CONFIG"),
    ("C06", "break", "public means no double underscore", P, 'not name.startswith("_")', 'not name.startswith("__")'),
    ("C06", "benign", "early-return rewrite of _check_attr", P,
     '        if plain and (not has_exposed or hasattr(obj, name)):\n            return name\n        if has_exposed:\n            return prefix + name\n        if plain:\n            return name  # chance for better traceback\n        raise AttributeError("cannot access %r" % (name,))',
     '        if has_exposed and not (plain and hasattr(obj, name)):\n            return prefix + name\n        if not plain:\n            raise AttributeError("cannot access %r" % (name,))\n        return name'),
    ("C06", "break", "restricted write list falls back when empty", HL, "    if wattrs is None:\n        wattrs = attrs", "    wattrs = wattrs or attrs"),
    # ---- C07
    ("C07", "break", "pickle guard removed", P, '        if not self._config["allow_pickle"]:\n            raise ValueError("pickling is disabled")\n', ""),
    ("C07", "break", "pickle on by default", P, "    allow_pickle=False,", "    allow_pickle=True,"),
    ("C07", "break", "exception class called", VG, "        exc = cls.__new__(cls)", "        exc = cls(*args)"),
    ("C07", "break", "issubclass vetting dropped", VG, "    if not isinstance(cls, type) or not issubclass(cls, BaseException):", "    if not isinstance(cls, type):"),
    ("C07", "break", "import before the guard", VG, "    if import_custom_exceptions and modname not in sys.modules:", "    if modname not in sys.modules:"),
    ("C07", "break", "getattr on peer-named module", N, "_class = getattr(_module, '__dict__', {}).get(_class_name)", "_class = getattr(_module, _class_name, None)"),
    # ---- C08
    ("C08", "break", "bare except narrowed", P, "        except:  # TODO: revist", "        except Exception:  # TODO: revist"),
    ("C08", "break", "exception reply under a fresh seq", P, "self._send(consts.MSG_EXCEPTION, seq, self._box_exc(t, v, tb))", "self._send(consts.MSG_EXCEPTION, self._get_seq_id(), self._box_exc(t, v, tb))"),
    ("C08", "break", "callback registered after sending", P, "        self._request_callbacks[seq] = callback\n        try:\n            self._send(consts.MSG_REQUEST, seq, (handler, self._box(args)))",
     "        try:\n            self._send(consts.MSG_REQUEST, seq, (handler, self._box(args)))\n            self._request_callbacks[seq] = callback"),
    ("C08", "break", "reply encoded outside the try", P, "            reply = brine.dump((consts.MSG_REPLY, seq, self._box(res)))\n        except:", "        except:"),
    ("C08", "break", "stale callback on send failure", P, "            self._request_callbacks.pop(seq, None)\n            raise", "            raise"),
    ("C08", "break", "reply flag swapped", P, "self._seq_request_callback(msg, seq, False, obj)", "self._seq_request_callback(msg, seq, True, obj)"),
    # ---- C09
    ("C09", "break", "traceback unconditional", VG, '    if include_local_traceback:\n        tbtext = "".join(traceback.format_exception(typ, val, tb))\n    else:\n        tbtext = "<traceback denied>"',
     '    tbtext = "".join(traceback.format_exception(typ, val, tb))'),
    ("C09", "break", "non-dumpable argument passes", VG, "                if brine.dumpable(a):\n                    args.append(a)\n                else:\n                    args.append(repr(a))", "                args.append(a)"),
    ("C09", "break", "__module__ not copied", VG, "Derived.__module__ = cls.__module__", "Derived.__qualname__ = cls.__qualname__"),
    ("C09", "break", "attribute repr dropped", VG, "            if not brine.dumpable(attrval):\n                attrval = repr(attrval)\n", ""),
    # ---- C10
    ("C10", "break", "decref removes on <=", CO, "if slot[1] < count:", "if slot[1] <= count:"),
    ("C10", "break", "initial count 1", CO, "slot = [obj, 0]", "slot = [obj, 1]"),
    ("C10", "break", "proxy count reset", P, "proxy.____refcount__ += 1", "proxy.____refcount__ = 1"),
    ("C10", "break", "finalizer without count", N, "asyncreq(self, consts.HANDLE_DEL, self.____refcount__)", "asyncreq(self, consts.HANDLE_DEL)"),
    # ---- C11
    ("C11", "break", "_cleanup out of finally", P, "        finally:\n            self._cleanup(_anyway=True)", "        self._cleanup(_anyway=True)"),
    ("C11", "break", "no close on EOF in serve", P, "        except EOFError:\n            self.close()\n            raise\n        finally:\n            self._recvlock", "        except EOFError:\n            raise\n        finally:\n            self._recvlock"),
    ("C11", "break", "dispatch EOF not closing", P, "        except EOFError:\n            # the transport failed while answering (e.g. writing the reply)\n            self.close()\n            raise", "        except EOFError:\n            raise"),
    ("C11", "break", "hook also called from close", P, "            self._async_request(consts.HANDLE_CLOSE)\n        except EOFError:", "            self._async_request(consts.HANDLE_CLOSE)\n            self._local_root.on_disconnect(self)\n        except EOFError:"),
    ("C11", "break", "local objects not cleared", P, "        self._local_objects.clear()\n", ""),
    ("C11", "break", "poll ignores hang-up", S, "        return bool(rl)", '        return any("r" in mode for _fd, mode in rl)'),
    # ---- C12
    ("C12", "break", "while -> if in the send loop", P, "        while self._send_queue:", "        if self._send_queue:"),
    ("C12", "break", "pop() instead of pop(0)", P, "self._send_queue.pop(0)", "self._send_queue.pop()"),
    ("C12", "break", "blocking acquire", P, "self._sendlock.acquire(False)", "self._sendlock.acquire()"),
    ("C12", "break", "return instead of continue", P, "                    continue\n                data = self._send_queue.pop(0)", "                    return\n                data = self._send_queue.pop(0)"),
    # ---- C13
    ("C13", "break", "notify before release", P, "            self._recvlock.release()\n            with self._recv_event:\n                self._recv_event.notify_all()", "            with self._recv_event:\n                self._recv_event.notify_all()\n            self._recvlock.release()"),
    ("C13", "break", "try-acquire outside the condition", P, "        with self._recv_event:\n            if not self._recvlock.acquire(False):\n                return wait_for_lock and self._recv_event.wait(timeout.timeleft())",
     "        if not self._recvlock.acquire(False):\n            with self._recv_event:\n                return wait_for_lock and self._recv_event.wait(timeout.timeleft())"),
    ("C13", "break", "ready flag first", AS, "        self._is_exc = is_exc\n        self._obj = obj\n        self._is_ready = True", "        self._is_ready = True\n        self._is_exc = is_exc\n        self._obj = obj"),
    ("C13", "break", "notify outside finally", P, "            self._recvlock.release()\n            with self._recv_event:\n                self._recv_event.notify_all()\n        try:", "            self._recvlock.release()\n        with self._recv_event:\n            self._recv_event.notify_all()\n        try:"),
    # ---- C14
    ("C14", "break", "wait serves with a restarted timeout", AS, "self._conn.serve(self._ttl)", "self._conn.serve(self._ttl.timeleft())"),
    # ---- C15
    ("C15", "break", "Timeout.expired uses >", LI, "return self.finite and time.time() >= self.tmax", "return self.finite and time.time() > self.tmax"),
    ("C15", "benign", "Timeout.expired operands reordered", LI, "return self.finite and time.time() >= self.tmax", "return self.finite and self.tmax <= time.time()"),
    ("C15", "break", "expired guard removed", AS, "        if self.expired:\n            return\n        self._is_exc", "        self._is_exc"),
    ("C15", "break", "callbacks not cleared", AS, "        del self._callbacks[:]\n", ""),
    ("C15", "break", "callback inserted at the front", AS, "self._callbacks.append(func)", "self._callbacks.insert(0, func)"),
    ("C15", "break", "sync_request ignores the timeout", P, "return self.async_request(handler, *args, timeout=timeout).value", "return self.async_request(handler, *args).value"),
    # ---- C16
    ("C16", "break", "threaded server serves inline", SV, "        spawn(self._authenticate_and_serve_client, sock)", "        self._authenticate_and_serve_client(sock)"),
    ("C16", "break", "service class not instantiated", SE, "        if isinstance(self, type):  # autovivify if accessed as class method\n            self = self()\n", ""),
    ("C16", "break", "auth failure still served", SV, '                    self.logger.info("%s failed to authenticate, rejecting connection", addrinfo)\n                    return',
     '                    self.logger.info("%s failed to authenticate, rejecting connection", addrinfo)\n                    sock2, credentials = sock, None'),
    # ---- C17
    ("C17", "break", "pool close does not drain fd_to_conn", SV, "        for fd in list(self.fd_to_conn.keys()):\n            self._drop_connection(fd)\n", ""),
    ("C17", "break", "one-shot without finally", SV, "        try:\n            self._authenticate_and_serve_client(sock)\n        finally:\n            self.close()", "        self._authenticate_and_serve_client(sock)\n        self.close()"),
    ("C17", "break", "close flag set late", SV, "        if self._closed:\n            return\n        self._closed = True\n        self.active = False", "        if self._closed:\n            return\n        self.active = False"),
    # ---- C18
    ("C18", "break", "command type check removed", RG, '            if not isinstance(cmd, str):\n                self.logger.warn("invalid command: %r", cmd)\n                continue\n', ""),
    ("C18", "break", "accepted socket without timeout", RG, "            sock2.settimeout(self.TIMEOUT)\n", ""),
    ("C18", "break", "removal notified unconditionally", RG, "        if addrinfo not in self.services[name]:\n            return\n        del self.services[name][addrinfo]", "        self.services[name].pop(addrinfo, None)"),
    ("C18", "break", "query without upper()", RG, "        name = name.upper()\n        self.logger.debug(\"querying for %r\", name)", "        self.logger.debug(\"querying for %r\", name)"),
    ("C18", "break", "leftover sockets not released", RG, "        while self._connected_sockets:\n            self._connected_sockets.popitem()[1].close()\n", ""),
    # ---- C19
    ("C19", "break", "tag renumbered consistently", B, 'TAG_SLICE = b"\\x19"', 'TAG_SLICE = b"\\x1c"'),
    ("C19", "break", "64-bit frame length", CH, 'Struct("!LB")', 'Struct("!QB")'),
    ("C19", "break", "compress at the threshold", CH, "len(data) > self.COMPRESSION_THRESHOLD", "len(data) >= self.COMPRESSION_THRESHOLD"),
    ("C19", "break", "handler ids swapped", CN, "HANDLE_REPR = 9\nHANDLE_STR = 10", "HANDLE_REPR = 10\nHANDLE_STR = 9"),
    ("C19", "break", "kind and seq swapped in the message", P, "self._send_raw(brine.dump((msg, seq, args)))", "self._send_raw(brine.dump((seq, msg, args)))"),
    ("C19", "benign", "private tag identifier renamed", B, "TAG_FSET", "TAG_FROZENSET"),
    # ---- C20
    ("C20", "break", "text mode on the remote side", CL, 'with conn.builtin.open(remotepath, "wb") as rf:', 'with conn.builtin.open(remotepath, "w") as rf:'),
    ("C20", "break", "filter not passed down", CL, "upload(conn, lfn, rfn, filter=filter, ignore_invalid=True, chunk_size=chunk_size)", "upload(conn, lfn, rfn, ignore_invalid=True, chunk_size=chunk_size)"),
    ("C20", "break", "short last chunk dropped", CL, "                buf = rf.read(chunk_size)\n                if not buf:\n                    break\n                lf.write(buf)",
     "                buf = rf.read(chunk_size)\n                if len(buf) < chunk_size:\n                    break\n                lf.write(buf)"),
    ("C20", "break", "filter inverted", CL, "    for fn in os.listdir(localpath):\n        if not filter or filter(fn):", "    for fn in os.listdir(localpath):\n        if filter and filter(fn):"),
]


def _run_probe(args):
    pid, root, rel, old, new, replace_all = args
    import sys
    here = os.path.dirname(os.path.dirname(os.path.abspath(__file__)))
    if here not in sys.path:
        sys.path.insert(0, here)
    from sa.main import run_property
    from sa import report as R
    path = os.path.join(root, rel)
    try:
        text = open(path, encoding="utf8").read()
    except OSError:
        return ("skipped", "file missing", [])
    if old not in text:
        return ("skipped", "pattern not present in the current tree", [])
    mutated = text.replace(old, new) if replace_all else text.replace(old, new, 1)
    try:
        ast.parse(mutated)
    except SyntaxError as e:
        return ("skipped", "transformed text does not parse: %s" % e, [])
    rep, ctx, err = run_property(pid, "quick", root, {rel: mutated})
    failed = sorted({(o.rule, o.key) for o in rep.failed()})
    return ("ran", err, failed)


def run(pid, ctx, rep, root):
    mine = [p for p in PROBES if p[0] == pid]
    base = {(o.rule, o.key) for o in rep.failed()}
    jobs = [(pid, root, p[3], p[4], p[5], p[2].startswith("private tag identifier")) for p in mine]
    results = []
    if jobs:
        with ProcessPoolExecutor(max_workers=min(16, len(jobs))) as ex:
            results = list(ex.map(_run_probe, jobs))
    n_ok = n_bad = n_skip = 0
    for p, (status, err, failed) in zip(mine, results):
        _, kind, name, rel, old, new = p
        new_v = [f for f in failed if tuple(f) not in base]
        entry = {"probe": name, "kind": kind, "file": rel, "status": status}
        if status == "skipped":
            n_skip += 1
            entry["note"] = err
        else:
            if kind == "break":
                ok = bool(new_v)
                entry["killed_by"] = ["%s %s" % (r, k) for r, k in new_v[:3]]
            else:
                ok = not new_v and not err
                if new_v:
                    entry["unexpected"] = ["%s %s" % (r, k) for r, k in new_v[:3]]
            entry["as_expected"] = ok
            if err and not new_v:
                entry["analysis_error"] = err.splitlines()[0][:200]
            if ok:
                n_ok += 1
            else:
                n_bad += 1
                print("PROBE-UNEXPECTED property=%s %s probe `%s`: %s" % (
                    pid, kind, name, "not detected" if kind == "break" else "raised %s" % entry.get("unexpected") or err))
        rep.probes.append(entry)
    rep.extra["probe_summary"] = {"registered": len(mine), "as_expected": n_ok, "unexpected": n_bad, "skipped": n_skip}
    print("  thorough: %d probes (%d as expected, %d unexpected, %d skipped)" % (len(mine), n_ok, n_bad, n_skip))
    wide_scope(ctx, rep, root)


def wide_scope(ctx, rep, root):
    """informational: writers of the shared defaults / of a connection's config outside the package (bin, demos, tests)"""
    hits = []
    for sub in ("bin", "demos", "tests"):
        d = os.path.join(root, sub)
        if not os.path.isdir(d):
            continue
        for dirpath, _, files in os.walk(d):
            for fn in sorted(files):
                if not fn.endswith(".py"):
                    continue
                p = os.path.join(dirpath, fn)
                try:
                    tree = ast.parse(open(p, encoding="utf8", errors="replace").read())
                except SyntaxError:
                    continue
                for n in ast.walk(tree):
                    if isinstance(n, ast.Subscript) and isinstance(n.ctx, ast.Store):
                        s = ast.unparse(n.value)
                        if s.endswith("DEFAULT_CONFIG") or s.endswith("._config"):
                            hits.append("%s:%d %s" % (os.path.relpath(p, root), n.lineno, ast.unparse(n)))
    rep.extra["wide_scope_config_writers_outside_package"] = hits[:40]

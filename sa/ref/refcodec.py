"""Reference decoder written from wire_5x.json only (no repository code): used once per setup to
cross-validate the frozen table against the hex example printed in the brine documentation."""
import json
import os
import struct


def load_ref():
    with open(os.path.join(os.path.dirname(os.path.abspath(__file__)), "wire_5x.json")) as f:
        return json.load(f)


def decode(data, ref):
    b = ref["brine"]
    pos = [0]

    def rd(n):
        s = data[pos[0]:pos[0] + n]
        if len(s) != n:
            raise EOFError
        pos[0] += n
        return s

    def rows(kind):
        return {bytes.fromhex(r[2]): r for r in b[kind]}

    def one():
        tag = rd(1)
        v = tag[0]
        imm = b["int_immediate"]
        if imm["lo"] + imm["offset"] <= v <= imm["hi"] + imm["offset"]:
            return v - imm["offset"]
        h = tag.hex()
        for name, val in (("NoneType", None), ("NotImplementedType", NotImplemented), ("ellipsis", Ellipsis)):
            if b["singletons"][name] == h:
                return val
        if h == b["bool"]["true"]:
            return True
        if h == b["bool"]["false"]:
            return False
        for kind in ("bytes", "tuple", "int_text"):
            r = rows(kind).get(tag)
            if r is not None:
                lo, hi, _, fmt = r
                n = lo if fmt is None else struct.unpack(fmt, rd(struct.calcsize(fmt)))[0]
                if kind == "bytes":
                    return rd(n)
                if kind == "int_text":
                    return int(rd(n))
                return tuple(one() for _ in range(n))
        if h == b["str"]["tag"]:
            return one().decode("utf-8")
        if h == b["float"]["tag"]:
            return struct.unpack(b["float"]["fmt"], rd(8))[0]
        if h == b["complex"]["tag"]:
            return complex(*struct.unpack(b["complex"]["fmt"], rd(16)))
        if h == b["slice"]["tag"]:
            return slice(*one())
        if h == b["frozenset"]["tag"]:
            return frozenset(one())
        raise ValueError("unknown tag %s" % h)
    v = one()
    if pos[0] != len(data):
        raise ValueError("trailing bytes")
    return v


def selftest():
    ref = load_ref()
    got = decode(bytes.fromhex(ref["doc_example_hex"]), ref)
    # the value documented next to the hex string (py2 `str` is bytes)
    want = (b"he", 7, "llo", 8, (), 900, None, True, Ellipsis, 18.2, 18.2j + 13, slice(1, 2, 3),
            frozenset([5, 6, 7]), NotImplemented)
    assert got == want, (got, want)
    return True


if __name__ == "__main__":
    selftest()
    print("reference table decodes the documented example")

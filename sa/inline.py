"""Source-level inlining of *new* private helpers.

A refactoring that extracts a few statements of an anchor function into a new private helper (or a local closure) must
not change any verdict. The rules are phrased over the anchor functions of the reference tree (sa/ref/known_functions.json
lists the functions that existed when the rules were written). Any private function that is not in that list and has
a simple shape (straight-line body, compound statements allowed, at most one `return` and only as the last statement,
no yield/global/nonlocal) is inlined into its callers before the analyses run; when every call site could be inlined
the helper is dissolved (removed from the function index). Helpers with early returns are left alone (rules that
need them follow calls through summaries or report that they cannot decide)."""
import ast
import copy
import json
import os

from . import astutil as A

REF = os.path.join(os.path.dirname(os.path.abspath(__file__)), "ref", "known_functions.json")


def load_known():
    try:
        with open(REF) as f:
            return set(json.load(f))
    except OSError:
        return None


class _PartialReturn(Exception):
    pass


def simple_shape(fn):
    """body statements of an inlinable helper, with guard-clause returns restructured into if/else nesting so that the
    only `return` left is the last statement; None when the helper is too complex"""
    body = [s for s in fn.body if not (isinstance(s, ast.Expr) and isinstance(s.value, ast.Constant))]
    if not body:
        return None
    for n in ast.walk(fn):
        if isinstance(n, (ast.Yield, ast.YieldFrom, ast.Global, ast.Nonlocal, ast.Await)):
            return None
        if isinstance(n, (ast.FunctionDef, ast.Lambda, ast.ClassDef)) and n is not fn:
            return None
    if fn.args.kwarg or fn.args.kwonlyargs or fn.decorator_list:
        return None
    if fn.args.vararg and any(isinstance(n, ast.Name) and n.id == fn.args.vararg.arg and not isinstance(
            getattr(n, "_parent", None), ast.Starred) for n in ast.walk(fn)):
        return None          # *args used other than by being passed on as *args
    rets = [n for n in ast.walk(fn) if isinstance(n, ast.Return)]
    if len(rets) <= 1 and (not rets or rets[0] is body[-1]):
        return body
    # guard clauses: returns that end a branch of a top-level if/else chain (not inside loops/try/with)
    for r in rets:
        p = getattr(r, "_parent", None)
        while p is not None and p is not fn:
            if not isinstance(p, ast.If):
                return wrapped_shape(fn, body, rets)
            p = getattr(p, "_parent", None)
    valued = any(r.value is not None for r in rets)
    res = "_ret_%s" % fn.name.strip("_")

    def ends_with_return(stmts):
        return bool(stmts) and isinstance(stmts[-1], ast.Return)

    def norm(stmts):
        """rewrite so that control never leaves by `return` except at the very end (as assignment to `res`)"""
        out = []
        for i, st in enumerate(stmts):
            rest = stmts[i + 1:]
            if isinstance(st, ast.Return):
                if st.value is not None:
                    out.append(ast.copy_location(ast.Assign(targets=[ast.Name(id=res, ctx=ast.Store())], value=st.value), st))
                elif valued:
                    out.append(ast.copy_location(ast.Assign(targets=[ast.Name(id=res, ctx=ast.Store())],
                                                            value=ast.Constant(value=None)), st))
                return out, True
            if isinstance(st, ast.If) and any(isinstance(x, ast.Return) for x in ast.walk(st)):
                b, bret = norm(st.body)
                o, oret = norm(st.orelse)
                tail, tret = norm(rest)
                if bret and oret:
                    new_if = ast.copy_location(ast.If(test=st.test, body=b or [ast.Pass()], orelse=o), st)
                    out.append(new_if)
                    return out, True
                if bret:
                    new_if = ast.copy_location(ast.If(test=st.test, body=b or [ast.Pass()], orelse=(o + tail)), st)
                    out.append(new_if)
                    return out, tret
                if oret:
                    new_if = ast.copy_location(ast.If(test=st.test, body=(b + tail) or [ast.Pass()], orelse=o), st)
                    out.append(new_if)
                    return out, tret
                # neither branch always returns, yet a return sits somewhere inside (a guard nested one level down): the
                # statements after this `if` must not run on those paths - re-nesting cannot express that without duplicating
                # code, so the jump form (InlineBlock / InlineExit) is used for the whole helper
                raise _PartialReturn()
            out.append(st)
        return out, False
    try:
        nb, always = norm([A.clone(x) for x in body])
    except RecursionError:
        return None
    except _PartialReturn:
        return wrapped_shape(fn, body, rets)
    if valued:
        if not always:
            # falling off the end returns None
            nb = [ast.Assign(targets=[ast.Name(id=res, ctx=ast.Store())], value=ast.Constant(value=None), lineno=fn.lineno,
                             col_offset=0)] + nb
        nb.append(ast.Return(value=ast.Name(id=res, ctx=ast.Load()), lineno=fn.lineno, col_offset=0))
    for st in nb:
        ast.fix_missing_locations(st)
        for n in ast.walk(st):
            if not hasattr(n, "_module") and hasattr(fn, "_module"):
                n._module = fn._module
    return nb


_block_counter = [0]


def wrapped_shape(fn, body, rets):
    """helpers whose returns sit inside try/with (but not inside one of their own loops): the body becomes an InlineBlock
    in which every `return v` is `<res> = v; InlineExit`"""
    # returns inside the helper's own loops are fine: InlineExit is a jump to the end of the block, which the CFG builder and
    # the interpreters implement directly (it is not a `break`)
    valued = any(r.value is not None for r in rets)
    res = "_ret_%s" % fn.name.strip("_")
    _block_counter[0] += 1
    bid = _block_counter[0]

    class Rw(ast.NodeTransformer):
        def visit_Return(self, node):
            out = []
            if valued:
                val = node.value if node.value is not None else ast.Constant(value=None)
                out.append(ast.copy_location(ast.Assign(targets=[ast.Name(id=res, ctx=ast.Store())], value=val), node))
            ex = ast.copy_location(A.InlineExit(), node)
            ex.block_id = bid
            out.append(ex)
            return out
    blk = A.InlineBlock(body=[Rw().visit(A.clone(x)) for x in body])
    flat = []
    for x in blk.body:
        flat.extend(x if isinstance(x, list) else [x])
    blk.body = flat
    blk.block_id = bid
    ast.copy_location(blk, fn)
    nb = []
    if valued:
        nb.append(ast.Assign(targets=[ast.Name(id=res, ctx=ast.Store())], value=ast.Constant(value=None), lineno=fn.lineno,
                             col_offset=0))
    nb.append(blk)
    if valued:
        nb.append(ast.Return(value=ast.Name(id=res, ctx=ast.Load()), lineno=fn.lineno, col_offset=0))
    for st in nb:
        ast.fix_missing_locations(st)
        for n in ast.walk(st):
            if not hasattr(n, "_module") and hasattr(fn, "_module"):
                n._module = fn._module
    return nb


class _Subst(ast.NodeTransformer):
    def __init__(self, mapping):
        self.m = mapping

    def visit_Name(self, n):
        if n.id in self.m:
            rep = self.m[n.id]
            if isinstance(rep, str):
                return ast.copy_location(ast.Name(id=rep, ctx=n.ctx), n)
            if isinstance(n.ctx, ast.Load):
                return ast.copy_location(A.clone(rep), n)
        return n

    def visit_ExceptHandler(self, n):
        if n.name in self.m and isinstance(self.m[n.name], str):
            n.name = self.m[n.name]
        self.generic_visit(n)
        return n


class _SpliceStarred(ast.NodeTransformer):
    """f(a, *(x, y)) -> f(a, x, y)"""
    def visit_Call(self, n):
        self.generic_visit(n)
        args = []
        for a in n.args:
            if isinstance(a, ast.Starred) and isinstance(a.value, ast.Tuple):
                args.extend(a.value.elts)
            else:
                args.append(a)
        n.args = args
        return n


def _stored(fn_or_stmts):
    out = set()
    nodes = fn_or_stmts if isinstance(fn_or_stmts, list) else [fn_or_stmts]
    for s in nodes:
        for n in ast.walk(s):
            if isinstance(n, ast.Name) and isinstance(n.ctx, (ast.Store, ast.Del)):
                out.add(n.id)
            elif isinstance(n, ast.ExceptHandler) and n.name:
                out.add(n.name)
            elif isinstance(n, ast.arg):
                out.add(n.arg)
    return out


class Inliner:
    def __init__(self, repo, known):
        self.repo = repo
        self.known = known
        self.counter = 0
        self.inlined_sites = {}    # helper qual -> count
        self.remaining_sites = {}  # helper qual -> count
        self.candidates = {}
        self.opaque = {}           # caller qual -> set of new helper quals it calls without inlining
        self.new_complex = set()   # new private functions that could not be given a simple shape
        for q, f in repo.funcs.items():
            if q in known:
                continue
            if not f.name.startswith("_") or f.name.startswith("__"):
                continue
            if any(isinstance(d, ast.Call) and A.call_name(d) == "register" for d in f.node.decorator_list):
                continue          # a registry entry (dispatch-table member), judged by the rules as such - not a helper
            body = simple_shape(f.node)
            if body is not None:
                self.candidates[q] = (f, body)
            else:
                self.new_complex.add(q)

    # -- resolution of a call to a new private function
    def _resolve_func(self, caller, call):
        fn = call.func
        if isinstance(fn, ast.Name):
            g = caller
            while g is not None:
                for nf in g.nested:
                    if nf.name == fn.id:
                        return nf, False
                g = g.parent
            # lexically enclosing functions (a method of a class defined inside a function sees that function's closures)
            p = getattr(caller.node, "_parent", None)
            while p is not None:
                if isinstance(p, ast.FunctionDef):
                    for st in p.body:
                        if isinstance(st, ast.FunctionDef) and st.name == fn.id and hasattr(st, "_func"):
                            return st._func, False
                p = getattr(p, "_parent", None)
            q = caller.module.name + "." + fn.id
            if q in self.repo.funcs:
                return self.repo.funcs[q], False
        if isinstance(fn, ast.Attribute) and isinstance(fn.value, ast.Name) and fn.value.id in ("self", "cls"):
            owner = caller
            while owner is not None and owner.cls is None:
                owner = owner.parent
            if owner is not None:
                for c in self.repo.mro(owner.cls):
                    m = c.methods.get(fn.attr)
                    if m is not None:
                        # dynamic dispatch: a subclass of the caller's class that overrides the method makes the callee unknown here
                        if any(fn.attr in sc.methods for sc in self.repo.subclasses(owner.cls) if sc is not owner.cls):
                            if m.qual not in self.known:
                                self.opaque.setdefault(caller.qual, set()).add(m.qual)
                            return None, False
                        return m, True
        return None, False

    def resolve(self, caller, call):
        f, is_method = self._resolve_func(caller, call)
        if f is None or f.qual in self.known:
            return None, False
        if f.qual in self.candidates:
            return self.candidates[f.qual], is_method
        if f.qual in self.new_complex:
            self.opaque.setdefault(caller.qual, set()).add(f.qual)
        return None, False

    def run(self):
        if not self.candidates and not self.new_complex:
            return []
        # helpers first (a helper may call another new helper), then everything else
        order = [f for f, _ in self.candidates.values()] + [f for q, f in self.repo.funcs.items() if q not in self.candidates]
        for f in order:
            f.node.body = self.block(f, f.node.body)
            ast.fix_missing_locations(f.node)
            A.set_parents(f.node) if False else None
        dissolved = []
        for q, (f, _) in self.candidates.items():
            if self.inlined_sites.get(q) and not self.remaining_sites.get(q):
                dissolved.append(q)
        return dissolved

    def block(self, caller, stmts):
        out = []
        for st in stmts:
            out.extend(self.stmt(caller, st))
        return out

    def stmt(self, caller, st):
        # recurse into compound statements
        for fld in ("body", "orelse", "finalbody"):
            if isinstance(getattr(st, fld, None), list) and not isinstance(st, (ast.FunctionDef, ast.ClassDef, ast.Lambda)):
                setattr(st, fld, self.block(caller, getattr(st, fld)))
        if isinstance(st, ast.Try):
            for h in st.handlers:
                h.body = self.block(caller, h.body)
        if isinstance(st, (ast.FunctionDef, ast.ClassDef)):
            return [st]
        # candidate calls directly in this statement's own expressions
        exprs = []
        if isinstance(st, (ast.Expr, ast.Return)) and st.value is not None:
            exprs = [st.value]
        elif isinstance(st, (ast.Assign, ast.AugAssign, ast.AnnAssign)) and st.value is not None:
            exprs = [st.value]
        elif isinstance(st, (ast.If, ast.While)):
            exprs = []      # calls in conditions are not hoisted (evaluation per iteration / short-circuit)
            for c in [x for x in ast.walk(st.test) if isinstance(x, ast.Call)]:
                # a new PREDICATE helper (`if C1: return True` ... `return False`, no effects) called with plain arguments is the
                # boolean expression it computes: substituted in place, evaluation points unchanged
                f0, is_m0 = self._resolve_func(caller, c)
                if f0 is not None and f0.qual not in self.known:
                    pe = predicate_expr(f0.node, is_m0, c)
                    if pe is not None:
                        if c is st.test:
                            st.test = pe
                        else:
                            _replace_expr(st.test, c, pe)
                        ast.fix_missing_locations(st)
                        for n_ in ast.walk(st.test):
                            if not hasattr(n_, "_module"):
                                n_._module = caller.module
                        self.inlined_sites[f0.qual] = self.inlined_sites.get(f0.qual, 0) + 1
                        self.predicate_sites = getattr(self, "predicate_sites", 0) + 1
                        continue
                self.resolve(caller, c)      # records opaque callers
        pre = []
        for e in exprs:
            calls = [c for c in ast.walk(e) if isinstance(c, ast.Call)]
            for c in calls:
                cand, is_method = self.resolve(caller, c)
                if cand is None:
                    continue
                f, body = cand
                # the call must be evaluated unconditionally and before any other call of the statement
                others = [x for x in calls if x is not c and not _contains(c, x)]
                if _in_shortcircuit(e, c) or (others and not all(_contains(x, c) for x in others)):
                    self.remaining_sites[f.qual] = self.remaining_sites.get(f.qual, 0) + 1
                    self.opaque.setdefault(caller.qual, set()).add(f.qual)
                    continue
                res = self.expand(caller, st, c, f, body, is_method)
                if res is None:
                    self.remaining_sites[f.qual] = self.remaining_sites.get(f.qual, 0) + 1
                    self.opaque.setdefault(caller.qual, set()).add(f.qual)
                    continue
                stmts, repl = res
                pre.extend(stmts)
                self.inlined_sites[f.qual] = self.inlined_sites.get(f.qual, 0) + 1
                if repl is None:
                    # call value unused: drop an expression statement made only of the call
                    if isinstance(st, ast.Expr) and st.value is c:
                        return pre
                    repl = ast.Constant(value=None)
                _replace(st, c, repl)
        return pre + [st]

    def expand(self, caller, st, call, f, body, is_method):
        fn = f.node
        params = [a.arg for a in fn.args.posonlyargs + fn.args.args]
        if is_method:
            params = params[1:]
            selfname = (fn.args.posonlyargs + fn.args.args)[0].arg
        if any(isinstance(a, ast.Starred) for a in call.args) or any(k.arg is None for k in call.keywords):
            return None
        bound = {}
        for p, a in zip(params, call.args):
            bound[p] = a
        for k in call.keywords:
            if k.arg in params and k.arg not in bound:
                bound[k.arg] = k.value
        defaults = fn.args.defaults
        for i, p in enumerate(params):
            if p not in bound:
                j = i - (len(params) - len(defaults))
                if j < 0:
                    return None
                bound[p] = defaults[j]
        extra_pos = None
        if len(call.args) > len(params):
            if fn.args.vararg is None:
                return None
            extra_pos = list(call.args[len(params):])
        elif fn.args.vararg is not None:
            extra_pos = []
        self.counter += 1
        k = self.counter
        stored_in_callee = _stored(body)
        caller_names = _stored(caller.node) | {n.id for n in ast.walk(caller.node) if isinstance(n, ast.Name)}
        mapping = {}
        pre = []
        for p in params:
            a = bound[p]
            simple = isinstance(a, (ast.Name, ast.Constant)) or (A.dotted(a) is not None)
            if simple and p not in stored_in_callee:
                mapping[p] = a
            else:
                newp = p if p not in caller_names else "%s_inl%d" % (p, k)
                mapping[p] = newp
                asg = ast.Assign(targets=[ast.Name(id=newp, ctx=ast.Store())], value=A.clone(a))
                pre.append(ast.copy_location(asg, st))
        if is_method:
            mapping[selfname] = A.clone(call.func.value)
        for v in sorted(stored_in_callee - set(params)):
            mapping[v] = v if v not in caller_names else "%s_inl%d" % (v, k)
        if extra_pos is not None:
            # `*args` of the helper: the surplus positional arguments of this call site, spliced wherever the helper passes *args on
            if not all(isinstance(a, (ast.Name, ast.Constant)) or A.dotted(a) is not None for a in extra_pos):
                return None
            mapping[fn.args.vararg.arg] = ast.Tuple(elts=[A.clone(a) for a in extra_pos], ctx=ast.Load())
        new_body = [_SpliceStarred().visit(_Subst(mapping).visit(A.clone(s))) for s in body]
        repl = None
        if new_body and isinstance(new_body[-1], ast.Return):
            ret = new_body.pop()
            if ret.value is not None:
                if isinstance(ret.value, (ast.Name, ast.Constant)):
                    repl = ret.value
                else:
                    tmp = "_inl%d" % k
                    asg = ast.Assign(targets=[ast.Name(id=tmp, ctx=ast.Store())], value=ret.value)
                    new_body.append(ast.copy_location(asg, ret))
                    repl = ast.Name(id=tmp, ctx=ast.Load())
        out = pre + new_body
        for s in out:
            for n in ast.walk(s):
                n._module = f.module
        return out, repl


def _pure_expr(e):
    """names, constants, attribute chains, subscripts with such parts, comparisons / boolean operators / not over them, and
    calls of isinstance/issubclass/type/len on them"""
    if isinstance(e, (ast.Name, ast.Constant)):
        return True
    if isinstance(e, ast.Attribute):
        return _pure_expr(e.value)
    if isinstance(e, ast.Subscript):
        return _pure_expr(e.value) and _pure_expr(e.slice)
    if isinstance(e, ast.Compare):
        return _pure_expr(e.left) and all(_pure_expr(c) for c in e.comparators)
    if isinstance(e, ast.BoolOp):
        return all(_pure_expr(v) for v in e.values)
    if isinstance(e, ast.UnaryOp) and isinstance(e.op, ast.Not):
        return _pure_expr(e.operand)
    if isinstance(e, ast.Tuple):
        return all(_pure_expr(v) for v in e.elts)
    if isinstance(e, ast.Call) and isinstance(e.func, ast.Name) and e.func.id in ("isinstance", "issubclass", "type", "len") and \
            not e.keywords:
        return all(_pure_expr(a) for a in e.args)
    return False


def predicate_expr(fn, is_method, call):
    """the boolean expression a predicate helper computes for this call, or None. Shape: a chain of `if C: return <bool const>`
    statements ended by `return <bool const or pure expression>`; every C pure; arguments plain names / constants / attributes."""
    body = [st for st in fn.body if not (isinstance(st, ast.Expr) and isinstance(st.value, ast.Constant))]
    if not body or fn.decorator_list and not all(isinstance(d, ast.Name) and d.id == "staticmethod" for d in fn.decorator_list):
        return None
    a = fn.args
    if a.vararg or a.kwarg or a.kwonlyargs or a.defaults or call.keywords or any(isinstance(x, ast.Starred) for x in call.args):
        return None
    static = any(isinstance(d, ast.Name) and d.id == "staticmethod" for d in fn.decorator_list)
    params = [x.arg for x in a.posonlyargs + a.args]
    mapping = {}
    if is_method and not static:
        if not params:
            return None
        mapping[params[0]] = call.func.value
        params = params[1:]
    if len(params) != len(call.args) or not all(_pure_expr(x) and not isinstance(x, (ast.Compare, ast.BoolOp, ast.Call)) for x in call.args):
        return None
    mapping.update(dict(zip(params, call.args)))
    last = body[-1]
    if not (isinstance(last, ast.Return) and last.value is not None and _pure_expr(last.value)):
        return None
    steps = []
    for st in body[:-1]:
        if isinstance(st, ast.If) and not st.orelse and len(st.body) == 1 and isinstance(st.body[0], ast.Return) and \
                isinstance(st.body[0].value, ast.Constant) and isinstance(st.body[0].value.value, bool) and _pure_expr(st.test):
            steps.append((st.test, st.body[0].value.value))
        else:
            return None
    stored = {x.id for x in ast.walk(fn) if isinstance(x, ast.Name) and isinstance(x.ctx, ast.Store)}
    if stored:
        return None
    expr = A.clone(last.value)
    if not (isinstance(expr, ast.Constant) and isinstance(expr.value, bool)) and steps:
        # the value must be a truth value for the chain to fold into and/or without changing what the caller's `if` sees
        pass
    for test, val in reversed(steps):
        t = A.clone(test)
        if val:
            expr = t if (isinstance(expr, ast.Constant) and expr.value is False) else ast.BoolOp(op=ast.Or(), values=[t, expr])
        else:
            nt = ast.UnaryOp(op=ast.Not(), operand=t)
            expr = nt if (isinstance(expr, ast.Constant) and expr.value is True) else ast.BoolOp(op=ast.And(), values=[nt, expr])
    expr = _Subst(mapping).visit(expr)
    return ast.copy_location(expr, call)


def _replace_expr(root, old, new):
    for n in ast.walk(root):
        for fld, val in ast.iter_fields(n):
            if val is old:
                setattr(n, fld, new)
                return True
            if isinstance(val, list):
                for i, x in enumerate(val):
                    if x is old:
                        val[i] = new
                        return True
    return False


def _contains(outer, inner):
    return any(n is inner for n in ast.walk(outer))


def _in_shortcircuit(expr, call):
    """is `call` under the right side of and/or, a conditional expression, a comprehension or a lambda inside expr?"""
    def rec(n, guarded):
        if n is call:
            return guarded
        if isinstance(n, ast.BoolOp):
            for i, v in enumerate(n.values):
                r = rec(v, guarded or i > 0)
                if r is not None:
                    return r
            return None
        if isinstance(n, ast.IfExp):
            r = rec(n.test, guarded)
            if r is not None:
                return r
            for v in (n.body, n.orelse):
                r = rec(v, True)
                if r is not None:
                    return r
            return None
        if isinstance(n, (ast.ListComp, ast.SetComp, ast.DictComp, ast.GeneratorExp, ast.Lambda)):
            for ch in ast.iter_child_nodes(n):
                r = rec(ch, True)
                if r is not None:
                    return r
            return None
        for ch in ast.iter_child_nodes(n):
            r = rec(ch, guarded)
            if r is not None:
                return r
        return None
    return bool(rec(expr, False))


def _replace(st, old, new):
    for parent in ast.walk(st):
        for fld, val in ast.iter_fields(parent):
            if val is old:
                setattr(parent, fld, new)
                return
            if isinstance(val, list):
                for i, x in enumerate(val):
                    if x is old:
                        val[i] = new
                        return

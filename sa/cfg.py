"""Statement-level control-flow graph with typed exceptional edges.

Node kinds
  entry / exit / excexit      distinguished nodes (normal exit = return or fall off the end)
  stmt                        a simple statement (ast = the statement)
  test                        an atomic branch condition (ast = the expression; edges 'true'/'false')
  for                         evaluation of next() on the iterator of a for loop ('true' = got an item)
  with_enter / with_exit      entering / leaving a `with` item (with_exit is duplicated per continuation,
                              exactly like a finally body)
  except                      entry of an exception handler (ast = the ExceptHandler)

Edge labels: 'next', 'true', 'false', 'exc'.

Exception model: every node gets a *may-raise set* (a set of exception classes, meaning "an instance
of a subclass may leave this node"); the default is {Exception} for any node containing a call,
subscript load, attribute load on something other than a local name, arithmetic, unpacking,
iteration, `raise`, `assert`, `del`; rules can refine it with `raises(node) -> set | None`.
Edges from a raising node go to every handler that may catch one of the classes (builtin
hierarchy), through `finally`/`with` copies, or to excexit. Asynchronous exceptions
(KeyboardInterrupt, SystemExit, MemoryError, RecursionError) get no edges.
"""
import ast
import builtins

from . import astutil as A


class Node:
    __slots__ = ("id", "kind", "ast", "succ", "pred", "label", "owner", "raises", "cont")

    def __init__(self, id, kind, ast_node=None, label="", owner=None):
        self.id = id
        self.kind = kind
        self.ast = ast_node
        self.succ = []   # (node, edge_label)
        self.pred = []   # (node, edge_label)
        self.label = label
        self.owner = owner   # the compound statement a test/for/with node belongs to
        self.raises = set()
        self.cont = None     # for finally/with copies: continuation kind this copy serves

    @property
    def lineno(self):
        n = self.ast
        return getattr(n, "lineno", 0) if n is not None else 0

    def text(self):
        if self.ast is None:
            return self.kind
        if self.kind == "except":
            return "except %s" % (A.src(self.ast.type) if self.ast.type is not None else "")
        if self.kind == "with_enter":
            return "with %s [enter]" % A.src(self.ast)
        if self.kind == "with_exit":
            return "with %s [exit/%s]" % (A.src(self.ast), self.cont)
        if self.kind == "for":
            return "for %s in %s" % (A.src(self.owner.target), A.src(self.owner.iter))
        s = A.norm(self.ast)
        return s if len(s) < 100 else s[:97] + "..."

    def __repr__(self):
        return "<N%d %s L%d %s>" % (self.id, self.kind, self.lineno, self.text()[:50])


# ---------------------------------------------------------------------------------- exception classes
class _X:
    """registry of exception classes by the names used in the package"""
    def __init__(self):
        self.by_name = {}
        for k, v in vars(builtins).items():
            if isinstance(v, type) and issubclass(v, BaseException):
                self.by_name[k] = v
        self.alias("socket.error", OSError)
        self.alias("socket.timeout", TimeoutError)
        self.alias("select_error", OSError)
        self.alias("select.error", OSError)
        self.alias("AsyncResultTimeout", TimeoutError)
        self.alias("struct.error", self.make("struct.error", Exception))
        self.alias("Queue.Empty", self.make("Queue.Empty", Exception))
        self.alias("zlib.error", self.make("zlib.error", Exception))
        self.alias("AuthenticationError", self.make("AuthenticationError", Exception))
        self.alias("PingError", self.make("PingError", Exception))
        self.alias("GenericException", self.make("GenericException", Exception))
        self.alias("DeployedServerError" if False else "ProcessExecutionError", self.make("ProcessExecutionError", Exception))

    def make(self, name, base):
        return type(name, (base,), {})

    def alias(self, name, cls):
        self.by_name[name] = cls

    def get(self, expr):
        """exception classes named by an `except` type expression or a raise operand; None if unknown"""
        if expr is None:
            return [BaseException]
        if isinstance(expr, ast.Tuple):
            out = []
            for e in expr.elts:
                c = self.get(e)
                if c is None:
                    return None
                out.extend(c)
            return out
        if isinstance(expr, ast.Call):
            expr = expr.func
        d = A.dotted(expr)
        if d is None:
            return None
        if d in self.by_name:
            return [self.by_name[d]]
        last = d.split(".")[-1]
        if last in self.by_name:
            return [self.by_name[last]]
        return None


X = _X()
GENERIC = frozenset([Exception])


def default_raises(node_ast, kind):
    """conservative may-raise set of a node (see module docstring)"""
    if node_ast is None:
        return set()
    if kind == "with_exit":
        return set()
    if kind in ("for", "with_enter"):
        return set(GENERIC)
    if kind == "except":
        return set()
    if isinstance(node_ast, ast.Raise):
        if node_ast.exc is None:
            return None   # re-raise: filled by the builder from the handler context
        c = X.get(node_ast.exc)
        return set(c) if c else set(GENERIC)
    if isinstance(node_ast, (A.InlineExit, ast.Pass, ast.Break, ast.Continue, ast.Global, ast.Nonlocal, ast.FunctionDef,
                             ast.ClassDef, ast.Import, ast.ImportFrom)):
        if isinstance(node_ast, (ast.Import, ast.ImportFrom)):
            return set(GENERIC)
        return set()
    if isinstance(node_ast, ast.Assert):
        return {AssertionError} | (set(GENERIC) if _may_raise_expr(node_ast.test) else set())
    if isinstance(node_ast, ast.Delete):
        return set(GENERIC)
    if isinstance(node_ast, ast.stmt):
        # unpacking assignment
        if isinstance(node_ast, ast.Assign) and any(isinstance(t, (ast.Tuple, ast.List)) for t in node_ast.targets):
            return set(GENERIC)
        if isinstance(node_ast, ast.Assign) and any(isinstance(t, ast.Subscript) for t in node_ast.targets):
            return set(GENERIC)
        if isinstance(node_ast, ast.AugAssign):
            return set(GENERIC)
        for ch in ast.iter_child_nodes(node_ast):
            if isinstance(ch, ast.expr) and _may_raise_expr(ch):
                return set(GENERIC)
        return set()
    if isinstance(node_ast, ast.expr):
        return set(GENERIC) if _may_raise_expr(node_ast) else set()
    return set()


def _may_raise_expr(e):
    for n in A.walk(e):
        if isinstance(n, (ast.Call, ast.BinOp, ast.Await, ast.Yield, ast.YieldFrom, ast.Starred)):
            return True
        if isinstance(n, ast.Subscript) and isinstance(n.ctx, ast.Load):
            return True
        if isinstance(n, ast.Attribute) and isinstance(n.ctx, ast.Load):
            # attribute load on a plain local name (self.x, obj.attr) is treated as non-raising only
            # for `self`; anything else may run descriptors / __getattr__
            if not (isinstance(n.value, ast.Name) and n.value.id in ("self", "cls")):
                return True
        if isinstance(n, ast.Compare):
            if any(not isinstance(op, (ast.Is, ast.IsNot)) for op in n.ops):
                # ==, <, in ... may run user code; treat comparisons against constants/None as benign
                if not all(isinstance(c, ast.Constant) for c in n.comparators):
                    return True
        if isinstance(n, (ast.ListComp, ast.SetComp, ast.DictComp, ast.GeneratorExp)):
            return True
    return False


# ---------------------------------------------------------------------------------- builder
class _Frame:
    """one enclosing try (handlers and/or finally) or with"""
    def __init__(self, handlers=None, fin=None):
        self.handlers = handlers   # list of (classes|None, handler entry node)   (None = unknown type)
        self.fin = fin             # _Finally or None


class _Finally:
    def __init__(self, builder, body, with_node, outer_frames, loop, handler_types):
        self.b = builder
        self.body = body            # list of statements (finally) or None
        self.with_node = with_node  # withitem context expr for synthetic with_exit
        self.frames = outer_frames
        self.loop = loop
        self.handler_types = handler_types
        self.copies = {}            # cont kind -> (entry node, [tail placeholder])
        self.inl = list(getattr(builder, "_inl", []))
        self.exc_types = set()
        self.exc_tail = None

    def entry(self, kind, target_thunk):
        """entry node of the copy serving continuation `kind` ('next','return','break','continue','exc');
        target_thunk() gives the node to continue to after the copy"""
        if kind in self.copies:
            return self.copies[kind]
        b = self.b
        if kind == "exc":
            # continuation resolved in finalize(): propagate outward with accumulated types
            tail = b.new("stmt", None, label="<reraise after finally>")
            tail.kind = "reraise"
            after = tail
            self.exc_tail = tail
        else:
            after = target_thunk()
        if self.body is not None:
            saved, b._inl = b._inl, list(self.inl)
            try:
                first = b.block(self.body, after, self.frames, self.loop, self.handler_types, mark=kind)
            finally:
                b._inl = saved
        else:
            first = b.new("with_exit", self.with_node)
            first.cont = kind
            b.edge(first, after, "next")
        self.copies[kind] = first
        return first


class CFG:
    def __init__(self, func_node, raises=None, name=None):
        """func_node: ast.FunctionDef/Lambda; raises(node_ast, kind) -> set of classes or None (use default)"""
        self.func = func_node
        self.name = name or getattr(func_node, "name", "<lambda>")
        self.nodes = []
        self._raises = raises
        self.entry = self.new("entry")
        self.exit = self.new("exit")
        self.excexit = self.new("excexit")
        self._finallies = []
        self._reraises = []      # (node, frames, (classes, except node))
        self._inl = []           # open InlineBlocks: (block_id, continuation node, len(frames) at entry)
        self.etypes = {}         # (src id, dst id) -> classes flowing along that exceptional edge
        body = func_node.body if isinstance(func_node.body, list) else [ast.Return(value=func_node.body)]
        first = self.block(body, self.exit, [], None, None)
        self.edge(self.entry, first, "next")
        self._finalize()
        self._prune()

    # ------------------------------------------------------------------ primitives
    def new(self, kind, ast_node=None, label="", owner=None):
        n = Node(len(self.nodes), kind, ast_node, label, owner)
        self.nodes.append(n)
        return n

    def edge(self, a, b, label, types=None):
        if types:
            self.etypes.setdefault((a.id, b.id), set()).update(types)
        for (t, l) in a.succ:
            if t is b and l == label:
                return
        a.succ.append((b, label))
        b.pred.append((a, label))

    def may_raise(self, node, handler_types):
        r = None
        if isinstance(node.ast, ast.Raise) and node.ast.exc is None and handler_types is not None \
                and isinstance(handler_types, tuple):
            return None     # bare re-raise: routed in _finalize from what flows into the handler
        if self._raises is not None:
            r = self._raises(node.ast, node.kind)
        if r is None:
            r = default_raises(node.ast, node.kind)
            if r is None:  # bare raise outside a handler
                r = set(GENERIC)
        return set(r)

    # ------------------------------------------------------------------ exceptional routing
    def route_exc(self, node, types, frames):
        """add 'exc' edges from node for the class set `types` given the enclosing frames (inner last)"""
        remaining = set(types)
        for fr in reversed(frames):
            if not remaining:
                return
            if fr.handlers is not None:
                for classes, hnode in fr.handlers:
                    if not remaining:
                        break
                    if classes is None:
                        # unknown handler type: may catch anything, catches nothing for sure
                        self.edge(node, hnode, "exc", set(remaining))
                        continue
                    caught = set()
                    flow = set()
                    for t in remaining:
                        if any(issubclass(t, h) for h in classes):
                            caught.add(t)
                            flow.add(t)
                        elif any(issubclass(h, t) for h in classes):
                            flow.add(t)
                    if flow:
                        self.edge(node, hnode, "exc", flow)
                    remaining -= caught
            if fr.fin is not None and remaining:
                ent = fr.fin.entry("exc", None)
                self.edge(node, ent, "exc", set(remaining))
                fr.fin.exc_types |= remaining
                return
        if remaining:
            self.edge(node, self.excexit, "exc", set(remaining))

    def _finalize(self):
        # finally copies entered exceptionally continue outward with the accumulated types;
        # process innermost first (they were created after their outer ones were set up, so iterate
        # until no change)
        changed = True
        done = {}
        rr_done = {}
        while changed:
            changed = False
            for (node, frames, (classes, hnode)) in list(self._reraises):
                incoming = set()
                for p, l in hnode.pred:
                    incoming |= self.etypes.get((p.id, hnode.id), set())
                narrowed = set()
                for t in incoming:
                    if classes is None or any(issubclass(t, h) for h in classes):
                        narrowed.add(t)
                    else:
                        for h in classes:
                            if issubclass(h, t):
                                narrowed.add(h)
                narrowed = self._narrow_by_isinstance(node, hnode, narrowed)
                prev = rr_done.get(node.id, set())
                if narrowed - prev:
                    rr_done[node.id] = prev | narrowed
                    node.raises |= narrowed
                    self.route_exc(node, narrowed - prev, frames)
                    changed = True
            for fin in list(self._finallies):
                if fin.exc_tail is None:
                    continue
                key = id(fin)
                prev = done.get(key, set())
                if fin.exc_types - prev:
                    done[key] = set(fin.exc_types)
                    self.route_exc(fin.exc_tail, fin.exc_types, fin.frames)
                    changed = True

    @staticmethod
    def _narrow_by_isinstance(node, hnode, types):
        """a bare `raise` nested in `if isinstance(<handler variable>, T):` re-raises only the T part of what the handler
        caught (and the complement in the else branch)"""
        var = getattr(hnode.ast, "name", None)
        st = node.ast
        if not var or st is None:
            return types
        child, par = st, getattr(st, "_parent", None)
        while par is not None and par is not hnode.ast:
            if isinstance(par, ast.If):
                t, pos = par.test, True
                while isinstance(t, ast.UnaryOp) and isinstance(t.op, ast.Not):
                    t, pos = t.operand, not pos
                if isinstance(t, ast.Call) and A.dotted(t.func) == "isinstance" and len(t.args) == 2 and \
                        isinstance(t.args[0], ast.Name) and t.args[0].id == var:
                    classes = X.get(t.args[1])
                    in_body = any(child is b for b in par.body)
                    if classes:
                        if in_body == pos:
                            out = set()
                            for ty in types:
                                if any(issubclass(ty, c) for c in classes):
                                    out.add(ty)
                                else:
                                    out |= {c for c in classes if issubclass(c, ty)}
                            types = out
                        else:
                            types = {ty for ty in types if not any(issubclass(ty, c) for c in classes)}
            child, par = par, getattr(par, "_parent", None)
        return types

    def _prune(self):
        # drop nodes unreachable from entry (e.g. unused finally copies)
        seen = set()
        stack = [self.entry]
        while stack:
            n = stack.pop()
            if n.id in seen:
                continue
            seen.add(n.id)
            stack.extend(t for t, _ in n.succ)
        for n in self.nodes:
            if n.id not in seen:
                for t, l in n.succ:
                    t.pred = [(p, pl) for (p, pl) in t.pred if p is not n]
                n.succ = []
        self.live = [n for n in self.nodes if n.id in seen]

    # ------------------------------------------------------------------ statements
    def block(self, stmts, nxt, frames, loop, handler_types, mark=None):
        """build statements so that control continues at `nxt`; returns the entry node"""
        cur = nxt
        for st in reversed(stmts):
            cur = self.stmt(st, cur, frames, loop, handler_types, mark)
        return cur

    def _cont(self, kind, frames, loop, plain_target):
        """target node for a return/break/continue leaving through the enclosing finally/with frames.
        `loop` = (break_target, continue_target, depth) where depth = len(frames) at loop entry."""
        lo = 0
        if kind in ("break", "continue") or kind.startswith("inl"):
            lo = loop[2]
        # walk frames from the innermost; the first finally found gets a copy that continues outward
        for i in range(len(frames) - 1, lo - 1, -1):
            fr = frames[i]
            if fr.fin is not None:
                outer_frames = frames[:i]
                return fr.fin.entry(kind, lambda: self._cont(kind, outer_frames, loop, plain_target))
        return plain_target

    def simple(self, st, nxt, frames, handler_types, kind="stmt", owner=None, mark=None):
        n = self.new(kind, st, owner=owner)
        n.cont = mark
        if nxt is not None:
            self.edge(n, nxt, "next")
        r = self.may_raise(n, handler_types)
        if r is None:
            self._reraises.append((n, frames, handler_types))
            return n
        n.raises = r
        if r:
            self.route_exc(n, r, frames)
        return n

    def stmt(self, st, nxt, frames, loop, handler_types, mark=None):
        if isinstance(st, ast.If):
            t = self.block(st.body, nxt, frames, loop, handler_types, mark)
            f = self.block(st.orelse, nxt, frames, loop, handler_types, mark) if st.orelse else nxt
            return self.cond(st.test, t, f, frames, handler_types, st, mark)
        if isinstance(st, ast.While):
            head = self.new("stmt", None, label="<loop head>")
            head.kind = "join"
            after = self.block(st.orelse, nxt, frames, loop, handler_types, mark) if st.orelse else nxt
            body = self.block(st.body, head, frames, (nxt, head, len(frames)), handler_types, mark)
            test = self.cond(st.test, body, after, frames, handler_types, st, mark)
            self.edge(head, test, "next")
            return head
        if isinstance(st, (ast.For, ast.AsyncFor)):
            it = self.simple(st.iter, None, frames, handler_types, kind="stmt", owner=st, mark=mark)
            it.kind = "iter"
            fn = self.new("for", st.iter, owner=st)
            fn.cont = mark
            self.edge(it, fn, "next")
            after = self.block(st.orelse, nxt, frames, loop, handler_types, mark) if st.orelse else nxt
            body = self.block(st.body, fn, frames, (nxt, fn, len(frames)), handler_types, mark)
            self.edge(fn, body, "true")
            self.edge(fn, after, "false")
            fn.raises = self.may_raise(fn, handler_types) or set()
            if fn.raises:
                self.route_exc(fn, fn.raises, frames)
            return it
        if isinstance(st, ast.Try):
            return self.try_(st, nxt, frames, loop, handler_types, mark)
        if isinstance(st, (ast.With, ast.AsyncWith)):
            return self.with_(st, list(st.items), nxt, frames, loop, handler_types, mark)
        if isinstance(st, ast.Return):
            tgt = self._cont("return", frames, loop, self.exit)
            return self.simple(st, tgt, frames, handler_types, mark=mark)
        if isinstance(st, ast.Break):
            if loop is None:
                return self.simple(st, nxt, frames, handler_types, mark=mark)
            tgt = self._cont("break", frames, loop, loop[0])
            return self.simple(st, tgt, frames, handler_types, mark=mark)
        if isinstance(st, ast.Continue):
            if loop is None:
                return self.simple(st, nxt, frames, handler_types, mark=mark)
            tgt = self._cont("continue", frames, loop, loop[1])
            return self.simple(st, tgt, frames, handler_types, mark=mark)
        if isinstance(st, ast.Raise):
            return self.simple(st, None, frames, handler_types, mark=mark)
        if isinstance(st, A.InlineBlock):
            self._inl.append((st.block_id, nxt, len(frames)))
            try:
                return self.block(st.body, nxt, frames, loop, handler_types, mark)
            finally:
                self._inl.pop()
        if isinstance(st, A.InlineExit):
            for bid, target, depth in reversed(self._inl):
                if bid == st.block_id:
                    tgt = self._cont("inl%d" % bid, frames, (target, None, depth), target)
                    return self.simple(st, tgt, frames, handler_types, mark=mark)
            return self.simple(st, nxt, frames, handler_types, mark=mark)
        if isinstance(st, ast.Match):
            # not used by the package; model as opaque branching statement
            n = self.simple(st.subject, None, frames, handler_types, mark=mark)
            for case in st.cases:
                self.edge(n, self.block(case.body, nxt, frames, loop, handler_types, mark), "true")
            self.edge(n, nxt, "false")
            return n
        return self.simple(st, nxt, frames, handler_types, mark=mark)

    def cond(self, e, t, f, frames, handler_types, owner, mark=None):
        if isinstance(e, ast.BoolOp):
            vals = list(e.values)
            if isinstance(e.op, ast.And):
                cur = self.cond(vals[-1], t, f, frames, handler_types, owner, mark)
                for v in reversed(vals[:-1]):
                    cur = self.cond(v, cur, f, frames, handler_types, owner, mark)
                return cur
            else:
                cur = self.cond(vals[-1], t, f, frames, handler_types, owner, mark)
                for v in reversed(vals[:-1]):
                    cur = self.cond(v, t, cur, frames, handler_types, owner, mark)
                return cur
        if isinstance(e, ast.UnaryOp) and isinstance(e.op, ast.Not):
            return self.cond(e.operand, f, t, frames, handler_types, owner, mark)
        if isinstance(e, ast.Compare) and len(e.ops) == 1 and isinstance(e.ops[0], (ast.IsNot, ast.NotEq, ast.NotIn)):
            # tests are kept in positive form: `a is not b` is the test `a is b` with the edges swapped
            pos = ast.Compare(left=e.left, ops=[{ast.IsNot: ast.Is, ast.NotEq: ast.Eq, ast.NotIn: ast.In}[type(e.ops[0])]()],
                              comparators=e.comparators)
            ast.copy_location(pos, e)
            pos._parent = getattr(e, "_parent", None)
            pos._negated_from = e
            if hasattr(e, "_module"):
                pos._module = e._module
            return self.cond(pos, f, t, frames, handler_types, owner, mark)
        n = self.new("test", e, owner=owner)
        n.cont = mark
        if isinstance(e, ast.Constant):
            # `while True:` / `if 0:` -- only the feasible edge
            if e.value:
                self.edge(n, t, "true")
            else:
                self.edge(n, f, "false")
            return n
        self.edge(n, t, "true")
        self.edge(n, f, "false")
        n.raises = self.may_raise(n, handler_types) or set()
        if n.raises:
            self.route_exc(n, n.raises, frames)
        return n

    def try_(self, st, nxt, frames, loop, handler_types, mark):
        fin = None
        outer = frames
        if st.finalbody:
            fin = _Finally(self, st.finalbody, None, frames, loop, handler_types)
            self._finallies.append(fin)
            fin_frame = _Frame(None, fin)
            after = fin.entry("next", lambda: nxt)
            base = frames + [fin_frame]
        else:
            after = nxt
            base = frames
        # handlers
        hl = []
        for h in st.handlers:
            classes = X.get(h.type)
            hn = self.new("except", h)
            hn.cont = mark
            body = self.block(h.body, after, base, loop, (classes, hn), mark)
            self.edge(hn, body, "next")
            hl.append((classes, hn))
        orelse = self.block(st.orelse, after, base, loop, handler_types, mark) if st.orelse else after
        body_frames = base + ([_Frame(hl, None)] if hl else [])
        return self.block(st.body, orelse, body_frames, loop, handler_types, mark)

    def with_(self, st, items, nxt, frames, loop, handler_types, mark):
        item = items[0]
        ce = item.context_expr
        if isinstance(ce, ast.Call) and (A.dotted(ce.func) or "").split(".")[-1] == "suppress" and not ce.keywords and \
                item.optional_vars is None and X.get(ast.Tuple(elts=list(ce.args), ctx=ast.Load())) is not None:
            # contextlib.suppress(T...): the body runs under `except (T...): pass`
            h = ast.ExceptHandler(type=ast.Tuple(elts=list(ce.args), ctx=ast.Load()) if len(ce.args) != 1 else ce.args[0],
                                  name=None, body=[ast.copy_location(ast.Pass(), st)])
            ast.copy_location(h, st)
            h._parent = st
            h.body[0]._parent = h
            classes = X.get(h.type)
            hn = self.new("except", h)
            hn.cont = mark
            self.edge(hn, self.block(h.body, nxt, frames, loop, (classes, hn), mark), "next")
            inner = frames + [_Frame([(classes, hn)], None)]
            if len(items) > 1:
                return self.with_(st, items[1:], nxt, inner, loop, handler_types, mark)
            return self.block(st.body, nxt, inner, loop, handler_types, mark)
        fin = _Finally(self, None, item.context_expr, frames, loop, handler_types)
        self._finallies.append(fin)
        after = fin.entry("next", lambda: nxt)
        inner = frames + [_Frame(None, fin)]
        if len(items) > 1:
            body = self.with_(st, items[1:], after, inner, loop, handler_types, mark)
        else:
            body = self.block(st.body, after, inner, loop, handler_types, mark)
        ent = self.new("with_enter", item.context_expr, owner=st)
        ent.cont = mark
        self.edge(ent, body, "next")
        ent.raises = self.may_raise(ent, handler_types) or set()
        if ent.raises:
            self.route_exc(ent, ent.raises, frames)
        return ent

    # ------------------------------------------------------------------ debugging
    def dump(self):
        out = []
        for n in self.live:
            out.append("%3d %-10s L%-4d %-60s -> %s" % (
                n.id, n.kind, n.lineno, n.text()[:60], ", ".join("%d:%s" % (t.id, l) for t, l in n.succ)))
        return "\n".join(out)

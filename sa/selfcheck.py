"""setup-time smoke test of the engine on tiny fixtures (no repository code involved)."""
import ast, os, sys
sys.path.insert(0, os.path.dirname(os.path.dirname(os.path.abspath(__file__))))
from sa import cfg as C, cfgq as Q

SRC = '''
def f(self, q):
    self.lock.acquire()
    try:
        if q:
            return 1
        g()
    finally:
        self.lock.release()
    return 2
'''
t = ast.parse(SRC)
g = C.CFG(t.body[0])
rel = [n for n in g.live if n.ast is not None and n.kind == "stmt" and "release" in n.text()]
acq = [n for n in g.live if n.ast is not None and n.kind == "stmt" and "acquire" in n.text()][0]
assert len(rel) == 3, rel
nxt = [t for t, l in acq.succ if l == 'next'][0]
assert Q.find_path(nxt, [g.exit, g.excexit], avoid=rel, skip_first=False) is None
print("sa selfcheck ok: %d nodes" % len(g.live))

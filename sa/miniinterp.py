"""Tiny concrete interpreter over the AST for small container-manipulating methods (used to evaluate a method of the
repository on an enumerated set of abstract histories without importing or running the repository)."""
import ast

from . import astutil as A
from .loader import AnalysisError


_NOFUNC = object()
_UNBOUND = object()


class Raised(Exception):
    mi_native = True

    def __init__(self, name, payload=None):
        self.name = name
        self.payload = payload
        self.args = (name,)
        self.errno = None


class ExcClass:
    """a built-in exception class as a first-class value of the model"""
    mi_native = True

    def __init__(self, name):
        self.name = name

    def __eq__(self, o):
        return isinstance(o, ExcClass) and o.name == self.name

    def __hash__(self):
        return hash(("ExcClass", self.name))

    def __call__(self, *a, **k):
        return Raised(self.name, a[0] if a else None)


class _InlineExit(Exception):
    def __init__(self, block_id):
        self.block_id = block_id


class _Break(Exception):
    pass


class _Continue(Exception):
    pass


class _Ret(Exception):
    def __init__(self, v):
        self.v = v


def _hooks_of(env):
    return {k: env[k] for k in ("__calls__", "__values__", "__isinstance__", "__methods__", "__globals__", "__global_lookup__",
                                "__max_iter__") if k in env}


def call_method_kw(func_node, self_state, args, kwargs, extra=None):
    return call_method(func_node, self_state, args, extra, kwargs)


def call_method(func_node, self_state, args, extra=None, kwargs=None):
    """run `func_node` (a FunctionDef) with self bound to the dict `self_state` (field name -> python value)"""
    prm = A.params(func_node)
    env = {"__self__": self_state}
    env.update(extra or {})
    dflt = func_node.args.defaults
    names = prm[1:]
    vals = list(args)
    kwargs = dict(kwargs or {})
    for i, n in enumerate(names):
        if i < len(vals):
            if n in kwargs:
                raise Raised("TypeError")      # multiple values for an argument
            env[n] = vals[i]
        elif n in kwargs:
            env[n] = kwargs.pop(n)
        else:
            j = i - (len(names) - len(dflt))
            if j < 0:
                raise Raised("TypeError")      # a required argument is missing
            env[n] = _ev(dflt[j], env)
    env[prm[0]] = "__SELF__"
    if func_node.args.vararg is not None:
        env[func_node.args.vararg.arg] = tuple(vals[len(names):])
    elif len(vals) > len(names):
        raise Raised("TypeError")
    for kwo, kwd in zip(func_node.args.kwonlyargs, func_node.args.kw_defaults):
        if kwo.arg in kwargs:
            env[kwo.arg] = kwargs.pop(kwo.arg)
        elif kwd is not None:
            env[kwo.arg] = _ev(kwd, env)
        else:
            raise Raised("TypeError")
    if func_node.args.kwarg is not None:
        env[func_node.args.kwarg.arg] = kwargs
    elif kwargs:
        raise Raised("TypeError")              # unexpected keyword argument
    try:
        _block(func_node.body, env)
    except _Ret as r:
        return r.v
    return None


class ModelObj:
    """abstract object with a fixed attribute table; `cls` is what type(obj) answers"""
    def __init__(self, name, attrs=None, cls=None):
        self.name = name
        self.attrs = dict(attrs or {})
        self.cls = cls

    def __repr__(self):
        return "<%s>" % self.name


class FuncObj:
    """a function object created by a nested `def`: its node, the attributes stored on it and the (live) environment it
    closes over; calling it interprets the body in a child of that environment"""
    def __init__(self, node, env):
        self.node = node
        self.env = env
        self.attrs = {}

    def __call__(self, *args, **kwargs):
        node = self.node
        prm = A.params(node)
        if len(args) > len(prm) and node.args.vararg is None:
            raise Raised("TypeError")
        env = dict(self.env)          # closure variables are read through the defining environment (late binding)
        dflt = node.args.defaults
        for i, n in enumerate(prm):
            if i < len(args):
                env[n] = args[i]
            elif n in kwargs:
                env[n] = kwargs.pop(n)
            else:
                j = i - (len(prm) - len(dflt))
                if j < 0:
                    raise Raised("TypeError")
                env[n] = _ev(dflt[j], self.env)
        if node.args.vararg is not None:
            env[node.args.vararg.arg] = tuple(args[len(prm):])
        if kwargs and node.args.kwarg is None:
            raise Raised("TypeError")
        if node.args.kwarg is not None:
            env[node.args.kwarg.arg] = dict(kwargs)
        try:
            _block(node.body, env)
        except _Ret as r:
            return r.v
        return None

    def __repr__(self):
        return "<function %s>" % self.attrs.get("__name__", self.node.name)


def _is_generator(func_node):
    for n in A.walk(func_node):
        if isinstance(n, (ast.Yield, ast.YieldFrom)):
            return True
    return False


def call_function(func_node, args, extra=None, kwargs=None):
    """run a plain function (no self) on concrete arguments; extra: __calls__/__values__/__isinstance__ hooks"""
    prm = A.params(func_node)
    kwargs = dict(kwargs or {})
    if len(args) > len(prm):
        raise Raised("TypeError")
    env = dict(zip(prm, args))
    env["__self__"] = {}
    env.update(extra or {})
    dflt = func_node.args.defaults
    for i, n in enumerate(prm):
        if n in env and i < len(args):
            if n in kwargs:
                raise Raised("TypeError")
            continue
        if n in kwargs:
            env[n] = kwargs.pop(n)
            continue
        j = i - (len(prm) - len(dflt))
        if j < 0:
            raise Raised("TypeError")
        env[n] = _ev(dflt[j], env)
    if kwargs:
        raise Raised("TypeError")
    if _is_generator(func_node):
        # a generator is run eagerly and its yields collected (the models only use finite sources)
        env["__yields__"] = []
        try:
            _block(func_node.body, env)
        except _Ret:
            pass
        return list(env["__yields__"])
    try:
        _block(func_node.body, env)
    except _Ret as r:
        return r.v
    return None


def closure_value(fobj, expr):
    """value of `expr` inside the body of the nested function `fobj` when it only uses closed-over names; raises
    AnalysisError for anything depending on the function's own parameters"""
    own = set(A.params(fobj.node))
    for n in ast.walk(expr):
        if isinstance(n, ast.Name) and n.id in own:
            raise AnalysisError("depends on a parameter")
    return _ev(expr, fobj.env)


def _block(stmts, env):
    for st in stmts:
        _stmt(st, env)


def _stmt(st, env):
    if isinstance(st, ast.Expr):
        if isinstance(st.value, ast.Yield):
            if "__yields__" not in env:
                raise AnalysisError("miniinterp: yield outside a generator model")
            env["__yields__"].append(_ev(st.value.value, env) if st.value.value is not None else None)
            if len(env["__yields__"]) > 100000:
                raise Raised("<nontermination>")
            return
        if isinstance(st.value, ast.YieldFrom):
            env["__yields__"].extend(list(_ev(st.value.value, env)))
            return
        if not isinstance(st.value, ast.Constant):
            _ev(st.value, env)
        return
    if isinstance(st, ast.Pass):
        return
    if isinstance(st, A.InlineBlock):
        try:
            _block(st.body, env)
        except _InlineExit as x:
            if x.block_id != st.block_id:
                raise
        return
    if isinstance(st, A.InlineExit):
        raise _InlineExit(st.block_id)
    if isinstance(st, ast.FunctionDef):
        env[st.name] = FuncObj(st, env)
        return
    if isinstance(st, ast.With):
        entered = []
        try:
            for it in st.items:
                cm = _ev(it.context_expr, env)
                if hasattr(cm, "mi_enter"):
                    v = cm.mi_enter()
                    entered.append(cm)
                    if it.optional_vars is not None:
                        _store(it.optional_vars, v, env)
                elif it.optional_vars is not None:
                    _store(it.optional_vars, cm, env)
            _block(st.body, env)
        finally:
            for cm in reversed(entered):
                cm.mi_exit()
        return
    if isinstance(st, ast.Assign):
        val = _ev(st.value, env)
        for t in st.targets:
            _store(t, val, env)
        return
    if isinstance(st, ast.AugAssign):
        cur = _ev(_as_load(st.target), env)
        val = _ev(st.value, env)
        if isinstance(st.op, ast.Add):
            new = cur + val
        elif isinstance(st.op, ast.Sub):
            new = cur - val
        elif isinstance(st.op, ast.BitOr):
            new = cur | val
        elif isinstance(st.op, ast.BitAnd):
            new = cur & val
        elif isinstance(st.op, ast.Mult):
            new = cur * val
        else:
            raise AnalysisError("unsupported augmented assignment")
        _store(st.target, new, env)
        return
    if isinstance(st, ast.If):
        _block(st.body if _ev(st.test, env) else st.orelse, env)
        return
    if isinstance(st, ast.For):
        try:
            it = iter(_ev(st.iter, env))     # live iteration: mutating a dict while iterating it fails as in Python
        except TypeError:
            raise Raised("TypeError")        # not iterable
        broke = False
        while True:
            try:
                item = next(it)
            except StopIteration:
                break
            except RuntimeError:
                raise Raised("RuntimeError")
            _store(st.target, item, env)
            try:
                _block(st.body, env)
            except _Break:
                broke = True
                break
            except _Continue:
                continue
        if not broke:
            _block(st.orelse, env)
        return
    if isinstance(st, ast.While):
        rounds = 0
        broke = False
        while _ev(st.test, env):
            rounds += 1
            if rounds > env.get("__max_iter__", 1000):
                raise Raised("<nontermination>")
            try:
                _block(st.body, env)
            except _Break:
                broke = True
                break
            except _Continue:
                continue
        if not broke:
            _block(st.orelse, env)
        return
    if isinstance(st, ast.Break):
        raise _Break()
    if isinstance(st, ast.Continue):
        raise _Continue()
    if isinstance(st, ast.Delete):
        for t in st.targets:
            if isinstance(t, ast.Subscript):
                base = _ev(t.value, env)
                key = _ev(t.slice, env)
                try:
                    del base[key]
                except (KeyError, IndexError):
                    raise Raised("KeyError")
            elif isinstance(t, ast.Name):
                if t.id not in env:
                    raise Raised("UnboundLocalError")
                del env[t.id]
            else:
                raise AnalysisError("unsupported delete")
        return
    if isinstance(st, ast.Return):
        raise _Ret(_ev(st.value, env) if st.value is not None else None)
    if isinstance(st, ast.Raise):
        if st.exc is None:
            cur = env.get("__exc__")
            if cur is not None:
                raise cur              # bare raise: the exception being handled, unchanged
            raise Raised("RuntimeError")
        e = st.exc.func if isinstance(st.exc, ast.Call) else st.exc
        if isinstance(e, ast.Name) and isinstance(env.get(e.id), Raised):
            raise env[e.id]
        if isinstance(e, ast.Name) and isinstance(env.get(e.id), ExcClass):
            raise Raised(env[e.id].name)          # the class was picked into a local first (`exc_type = A if c else B`)
        raise Raised(A.dotted(e) if e is not None else "?")
    if isinstance(st, ast.Try):
        try:
            _block(st.body, env)
        except Raised as r:
            for h in st.handlers:
                if _handler_matches(h, r.name):
                    if h.name:
                        env[h.name] = r
                    saved = env.get("__exc__")
                    env["__exc__"] = r
                    try:
                        _block(h.body, env)
                    finally:
                        env["__exc__"] = saved
                        if h.name:
                            env[h.name] = _UNBOUND      # Python deletes the handler's variable when the handler ends
                    break
            else:
                raise
        else:
            _block(st.orelse, env)
        finally:
            _block(st.finalbody, env)
        return
    raise AnalysisError("miniinterp: unsupported statement `%s`" % A.norm(st)[:60])


_EXC_PARENTS = {
    "socket.timeout": ["TimeoutError", "socket.error", "OSError", "EnvironmentError", "IOError", "select_error"],
    "TimeoutError": ["socket.timeout", "socket.error", "OSError", "EnvironmentError", "IOError", "AsyncResultTimeout"],
    "AsyncResultTimeout": ["TimeoutError", "socket.timeout", "socket.error", "OSError", "EnvironmentError", "IOError"],
    "socket.error": ["OSError", "EnvironmentError", "IOError"], "OSError": ["socket.error", "EnvironmentError", "IOError"],
    "KeyError": ["LookupError"], "IndexError": ["LookupError"], "UnicodeDecodeError": ["ValueError"],
    "UnicodeEncodeError": ["ValueError"], "ZeroDivisionError": ["ArithmeticError"], "EOFError": [],
}


def _handler_matches(h, name):
    if h.type is None:
        return True
    types = h.type.elts if isinstance(h.type, ast.Tuple) else [h.type]
    names = {A.src(t) for t in types}
    if names & {"Exception", "BaseException", name}:
        return name not in ("<nontermination>",)
    return bool(names & set(_EXC_PARENTS.get(name, [])))


def _as_load(t):
    import copy
    t2 = A.clone(t)
    for n in ast.walk(t2):
        if hasattr(n, "ctx"):
            n.ctx = ast.Load()
    return t2


def _store(t, val, env):
    if isinstance(t, ast.Name):
        env[t.id] = val
    elif isinstance(t, ast.Subscript):
        base = _ev(t.value, env)
        base[_ev(t.slice, env)] = val
    elif isinstance(t, ast.Attribute) and isinstance(t.value, ast.Name) and env.get(t.value.id) == "__SELF__":
        env["__self__"][t.attr] = val
    elif isinstance(t, ast.Attribute) and isinstance(t.value, ast.Name) and isinstance(env.get(t.value.id), FuncObj):
        env[t.value.id].attrs[t.attr] = val
    elif isinstance(t, (ast.Tuple, ast.List)):
        vals = list(val)
        if len(vals) != len(t.elts):
            raise Raised("ValueError")
        for x, v in zip(t.elts, vals):
            _store(x, v, env)
    elif isinstance(t, ast.Attribute):
        base = _ev(t.value, env)
        if isinstance(base, ModelObj):
            base.attrs[t.attr] = val
        elif getattr(base, "mi_native", False) and hasattr(base, "mi_setattr"):
            base.mi_setattr(t.attr, val)         # may raise Raised("AttributeError") for a read-only attribute
        else:
            raise AnalysisError("miniinterp: unsupported store target")
    else:
        raise AnalysisError("miniinterp: unsupported store target")


def _args(call, env):
    out = []
    for a in call.args:
        if isinstance(a, ast.Starred):
            out.extend(list(_ev(a.value, env)))
        else:
            out.append(_ev(a, env))
    return out


def _ev(e, env):
    if isinstance(e, ast.Constant):
        return e.value
    if isinstance(e, ast.Lambda):
        prm = [a.arg for a in e.args.args]

        def fn(*vals):
            env2 = dict(env)
            env2.update(zip(prm, vals))
            return _ev(e.body, env2)
        return fn
    if isinstance(e, ast.Name):
        if e.id in env:
            if env[e.id] is _UNBOUND:
                raise Raised("UnboundLocalError")
            return env[e.id]
        if e.id in ("None", "True", "False"):
            return {"None": None, "True": True, "False": False}[e.id]
        if e.id in env.get("__globals__", {}):
            return env["__globals__"][e.id]
        gl = env.get("__global_lookup__")
        if gl is not None:
            found, val = gl(e.id)
            if found:
                return val
        import builtins as _bi
        if isinstance(getattr(_bi, e.id, None), type) and issubclass(getattr(_bi, e.id), BaseException):
            return ExcClass(e.id)               # a built-in exception class used as a value
        if e.id in ("tuple", "frozenset", "slice", "int", "float", "bool", "complex", "str", "bytes", "list", "dict", "set",
                    "bytearray", "object", "NotImplemented", "Ellipsis", "range"):
            return getattr(_bi, e.id)           # a built-in type / singleton used as a value (type(x) is tuple, ...)
        raise AnalysisError("miniinterp: unknown name %s" % e.id)
    if isinstance(e, ast.Attribute):
        if isinstance(e.value, ast.Name) and env.get(e.value.id) == "__SELF__":
            if e.attr not in env["__self__"]:
                meth = env.get("__methods__", {}).get(e.attr)
                if meth is not None and any(A.dotted(d) == "property" for d in meth.decorator_list):
                    extra = {k: env[k] for k in ("__calls__", "__values__", "__isinstance__", "__methods__", "__globals__",
                                                 "__global_lookup__", "__max_iter__") if k in env}
                    return call_method(meth, env["__self__"], [], extra)
                if meth is not None:
                    extra = {k: env[k] for k in ("__calls__", "__values__", "__isinstance__", "__methods__", "__globals__",
                                                 "__global_lookup__", "__max_iter__") if k in env}
                    return (lambda node: lambda *a: call_method(node, env["__self__"], list(a), extra))(meth)
                raise AnalysisError("miniinterp: unknown field %s" % e.attr)
            return env["__self__"][e.attr]
        d = A.dotted(e)
        if d is not None and d in env.get("__values__", {}):
            return env["__values__"][d]
        base = _ev(e.value, env)
        if isinstance(base, Raised) and e.attr == "__traceback__":
            return getattr(base, "mi_traceback", None)
        import re as _re_mod
        if isinstance(base, _re_mod.Pattern) and e.attr in ("sub", "subn", "match", "search", "fullmatch", "findall", "split", "pattern"):
            return getattr(base, e.attr)          # a compiled regular expression: pure functions of strings
        if isinstance(base, _re_mod.Match) and e.attr in ("group", "groups", "start", "end", "span", "groupdict"):
            return getattr(base, e.attr)
        if isinstance(base, ModelObj):
            if e.attr not in base.attrs:
                raise Raised("AttributeError")
            return base.attrs[e.attr]
        if isinstance(base, (list, dict, set, tuple, str, bytes, frozenset)) and e.attr in (
                "pop", "append", "extend", "insert", "remove", "index", "count", "reverse", "sort", "clear", "copy", "get", "items",
                "keys", "values", "update", "setdefault", "add", "discard", "upper", "lower", "strip", "split", "join", "startswith",
                "endswith", "encode", "decode", "format", "popitem", "find", "rfind", "replace", "rsplit", "partition", "rpartition"):
            bound = getattr(base, e.attr)

            def guarded(*a, **k):
                try:
                    return bound(*a, **k)
                except (KeyError, IndexError, ValueError, TypeError) as ex:
                    raise Raised(type(ex).__name__)
            return guarded
        if getattr(base, "mi_native", False) and not e.attr.startswith("mi_"):
            try:
                return getattr(base, e.attr)
            except AttributeError:
                raise Raised("AttributeError")
        if callable(base) and e.attr in ("__name__", "__qualname__", "__doc__", "__module__"):
            return getattr(base, "mi_name", None) or getattr(base, e.attr, None) or "<callable>"
        if isinstance(base, slice) and e.attr in ("start", "stop", "step"):
            return getattr(base, e.attr)
        if isinstance(base, complex) and e.attr in ("real", "imag"):
            return getattr(base, e.attr)
        raise AnalysisError("miniinterp: unsupported attribute %s" % A.src(e))
    if isinstance(e, ast.Subscript):
        base = _ev(e.value, env)
        key = _ev(e.slice, env)
        if base == "__SELF__" and isinstance(base, str):
            if "__getitem__" in env.get("__methods__", {}):
                return call_method(env["__methods__"]["__getitem__"], env["__self__"], [key], _hooks_of(env))
            raise AnalysisError("miniinterp: self[...] without a __getitem__ of the model")
        try:
            return base[key]
        except (KeyError, IndexError):
            raise Raised("KeyError")
    if isinstance(e, ast.Slice):
        return slice(_ev(e.lower, env) if e.lower is not None else None, _ev(e.upper, env) if e.upper is not None else None,
                     _ev(e.step, env) if e.step is not None else None)
    if isinstance(e, ast.List):
        return [_ev(x, env) for x in e.elts]
    if isinstance(e, ast.Tuple):
        return tuple(_ev(x, env) for x in e.elts)
    if isinstance(e, ast.Dict):
        return {_ev(k, env): _ev(v, env) for k, v in zip(e.keys, e.values)}
    if isinstance(e, ast.BoolOp):
        val = None
        for x in e.values:
            val = _ev(x, env)
            if isinstance(e.op, ast.And) and not val:
                return val
            if isinstance(e.op, ast.Or) and val:
                return val
        return val
    if isinstance(e, ast.UnaryOp):
        v = _ev(e.operand, env)
        if isinstance(e.op, ast.Not):
            return not v
        if isinstance(e.op, ast.USub):
            return -v
    if isinstance(e, ast.BinOp):
        a, b = _ev(e.left, env), _ev(e.right, env)
        if isinstance(e.op, ast.Add):
            return a + b
        if isinstance(e.op, ast.Sub):
            return a - b
        if isinstance(e.op, ast.Mod) and isinstance(a, str):
            try:
                return a % b
            except (TypeError, ValueError):
                raise Raised("TypeError")
        if isinstance(e.op, ast.Mult):
            return a * b
        if isinstance(e.op, (ast.BitOr, ast.BitAnd, ast.BitXor, ast.LShift, ast.RShift)) and isinstance(a, int) and isinstance(b, int):
            return {ast.BitOr: a | b, ast.BitAnd: a & b, ast.BitXor: a ^ b, ast.LShift: a << b if b < 64 else 0,
                    ast.RShift: a >> b}[type(e.op)]
        if isinstance(e.op, (ast.BitOr, ast.BitAnd)) and isinstance(a, (set, frozenset)) and isinstance(b, (set, frozenset)):
            return a | b if isinstance(e.op, ast.BitOr) else a & b
        if isinstance(e.op, (ast.FloorDiv, ast.Mod, ast.Div)) and isinstance(a, (int, float)) and isinstance(b, (int, float)) \
                and not isinstance(a, bool) and not isinstance(b, bool):
            try:
                return a // b if isinstance(e.op, ast.FloorDiv) else a % b if isinstance(e.op, ast.Mod) else a / b
            except ZeroDivisionError:
                raise Raised("ZeroDivisionError")
        raise AnalysisError("miniinterp: unsupported operator")
    if isinstance(e, ast.Compare):
        left = _ev(e.left, env)
        for op, c in zip(e.ops, e.comparators):
            right = _ev(c, env)
            try:
                r = {ast.Eq: lambda: left == right, ast.NotEq: lambda: left != right, ast.Lt: lambda: left < right,
                     ast.LtE: lambda: left <= right, ast.Gt: lambda: left > right, ast.GtE: lambda: left >= right,
                     ast.Is: lambda: left is right, ast.IsNot: lambda: left is not right,
                     ast.In: lambda: left in right, ast.NotIn: lambda: left not in right}[type(op)]()
            except TypeError:
                raise Raised("TypeError")       # unorderable operands / membership test on a non-container
            if not r:
                return False
            left = right
        return True
    if isinstance(e, ast.Set):
        try:
            return {(_ev(x, env)) for x in e.elts}
        except TypeError:
            raise Raised("TypeError")
    if isinstance(e, ast.JoinedStr):
        parts = []
        for v_ in e.values:
            if isinstance(v_, ast.Constant):
                parts.append(str(v_.value))
            elif isinstance(v_, ast.FormattedValue):
                x_ = _ev(v_.value, env)
                if isinstance(x_, (ModelObj, FuncObj, Raised)) and v_.conversion == -1 and v_.format_spec is None:
                    x_ = "<%s>" % getattr(x_, "name", "object")
                if v_.conversion == 114:
                    x_ = repr(x_)
                elif v_.conversion == 115:
                    x_ = str(x_)
                elif v_.conversion == 97:
                    x_ = ascii(x_)
                spec_ = _ev(v_.format_spec, env) if v_.format_spec is not None else ""
                try:
                    parts.append(format(x_, spec_))
                except (TypeError, ValueError) as ex_:
                    raise Raised(type(ex_).__name__)
            else:
                raise AnalysisError("miniinterp: unsupported f-string part")
        return "".join(parts)
    if isinstance(e, ast.IfExp):
        return _ev(e.body, env) if _ev(e.test, env) else _ev(e.orelse, env)
    if isinstance(e, ast.DictComp):
        out = {}

        def rec_dc(gens, env_):
            if not gens:
                out[_ev(e.key, env_)] = _ev(e.value, env_)
                return
            for item in list(_ev(gens[0].iter, env_)):
                env2 = dict(env_)
                _store(gens[0].target, item, env2)
                if all(_ev(c, env2) for c in gens[0].ifs):
                    rec_dc(gens[1:], env2)
        rec_dc(list(e.generators), env)
        return out
    if isinstance(e, ast.GeneratorExp) and len(e.generators) == 1:
        # lazy and single-use, as in Python: a second consumer finds it exhausted
        gen = e.generators[0]

        def lazy(gen=gen, env=env):
            for item in _ev(gen.iter, env):
                env2 = dict(env)
                _store(gen.target, item, env2)
                if all(_ev(c, env2) for c in gen.ifs):
                    yield _ev(e.elt, env2)
        return lazy()
    if isinstance(e, (ast.ListComp, ast.GeneratorExp)) and len(e.generators) == 1:
        gen = e.generators[0]
        out = []
        for item in list(_ev(gen.iter, env)):
            env2 = dict(env)
            _store(gen.target, item, env2)
            if all(_ev(c, env2) for c in gen.ifs):
                out.append(_ev(e.elt, env2))
        return out
    if isinstance(e, ast.Call):
        if isinstance(e.func, ast.Attribute) and e.func.attr in ("get", "pop", "setdefault", "clear"):
            base = _ev(e.func.value, env)
            args = [_ev(a, env) for a in e.args]
            if isinstance(base, dict):
                try:
                    return getattr(base, e.func.attr)(*args)
                except KeyError:
                    raise Raised("KeyError")
        d = A.call_name(e)
        hooks = env.get("__calls__", {})
        if d in hooks:
            return hooks[d](*_args(e, env), **{k.arg: _ev(k.value, env) for k in e.keywords if k.arg})
        if isinstance(e.func, ast.Attribute) and isinstance(e.func.value, ast.Name) and env.get(e.func.value.id) == "__SELF__" \
                and e.func.attr in env.get("__methods__", {}):
            extra = {k: env[k] for k in ("__calls__", "__values__", "__isinstance__", "__methods__", "__globals__",
                                         "__global_lookup__", "__max_iter__") if k in env}
            mnode = env["__methods__"][e.func.attr]
            kws_ = {}
            for k_ in e.keywords:
                if k_.arg is None:
                    kws_.update(_ev(k_.value, env))
                else:
                    kws_[k_.arg] = _ev(k_.value, env)
            if any(A.dotted(d_) == "staticmethod" for d_ in mnode.decorator_list):
                return call_function(mnode, _args(e, env), extra, kws_)
            return call_method(mnode, env["__self__"], _args(e, env), extra, kws_)
        if isinstance(e.func, ast.Attribute) and e.func.attr in ("upper", "lower", "strip", "join", "split", "startswith", "endswith", "format", "count",
                                                                  "replace", "rstrip", "lstrip", "encode", "decode"):
            base = _ev(e.func.value, env)
            if isinstance(base, (str, bytes)):
                try:
                    return getattr(base, e.func.attr)(*_args(e, env))
                except (TypeError, ValueError, UnicodeError, IndexError, KeyError) as ex:
                    raise Raised(type(ex).__name__)
            if base is None or type(base) in (int, float, bool, tuple, list, dict, set, frozenset, complex) and \
                    not hasattr(base, e.func.attr):
                raise Raised("AttributeError")      # e.g. (7).upper()
        if d in ("operator.itemgetter", "itemgetter") and len(e.args) == 1:
            import operator as _op
            return _op.itemgetter(_ev(e.args[0], env))
        if d == "sorted":
            kw = {k.arg: _ev(k.value, env) for k in e.keywords}
            try:
                return sorted(_ev(e.args[0], env), **kw)
            except TypeError:
                raise Raised("TypeError")       # unorderable elements
        if isinstance(e.func, ast.Attribute) and e.func.attr in ("update", "items", "keys", "values", "append", "extend",
                                                                  "remove", "discard", "add", "sort", "copy"):
            base = _ev(e.func.value, env)
            if isinstance(base, (dict, list, set)):
                r = getattr(base, e.func.attr)(*[_ev(a, env) for a in e.args])
                return r
        if d == "reversed":
            return list(reversed(list(_ev(e.args[0], env))))
        if d == "type" and len(e.args) == 1:
            v = _ev(e.args[0], env)
            if isinstance(v, ModelObj):
                return v.cls
            if v is None or isinstance(v, (int, float, bool, str, bytes, tuple, list, dict, set, frozenset, complex)) and \
                    not getattr(v, "mi_native", False):
                return type(v)           # the builtin type itself, or the subclass of it the model value is an instance of
            raise AnalysisError("miniinterp: type() of a non-model value")
        if d == "isinstance" and len(e.args) == 2:
            v0_ = None
            try:
                v0_ = _ev(e.args[0], env)
            except AnalysisError:
                v0_ = None
            if isinstance(v0_, Raised):
                # an exception in flight (bound by `except .. as ex` / sys.exc_info()[1]) tested against exception classes
                types_ = e.args[1].elts if isinstance(e.args[1], ast.Tuple) else [e.args[1]]
                names_ = {A.src(t_) for t_ in types_}
                if names_ & {"Exception", "BaseException", v0_.name}:
                    return True
                return bool(names_ & set(_EXC_PARENTS.get(v0_.name, [])))
        if d == "isinstance" and len(e.args) == 2 and "__isinstance__" in env:
            return env["__isinstance__"](_ev(e.args[0], env), A.src(e.args[1]))
        if d == "getattr" and len(e.args) in (2, 3) and isinstance(e.args[0], ast.Name) and env.get(e.args[0].id) == "__SELF__":
            nm = _ev(e.args[1], env)
            meths = env.get("__methods__", {})
            if nm in meths:
                extra = {k: env[k] for k in ("__calls__", "__values__", "__isinstance__", "__methods__", "__globals__",
                                             "__global_lookup__", "__max_iter__") if k in env}
                bm_ = (lambda node: lambda *a: call_method(node, env["__self__"], list(a), extra))(meths[nm])
                bm_.mi_name = nm
                return bm_
            if nm in env["__self__"]:
                return env["__self__"][nm]
            if len(e.args) == 3:
                return _ev(e.args[2], env)
            raise Raised("AttributeError")
        if d == "getattr" and len(e.args) in (2, 3):
            o_ = _ev(e.args[0], env)
            nm_ = _ev(e.args[1], env)
            if isinstance(o_, ModelObj):
                if nm_ in o_.attrs:
                    return o_.attrs[nm_]
                if len(e.args) == 3:
                    return _ev(e.args[2], env)
                raise Raised("AttributeError")
            if getattr(o_, "mi_native", False) and isinstance(nm_, str) and not nm_.startswith("mi_"):
                if hasattr(o_, nm_):
                    return getattr(o_, nm_)
                if len(e.args) == 3:
                    return _ev(e.args[2], env)
                raise Raised("AttributeError")
        if d == "isinstance" and len(e.args) == 2 and isinstance(e.args[1], ast.Name) and e.args[1].id in (
                "str", "bytes", "int", "float", "tuple", "list", "dict", "bool", "set", "frozenset") and "__isinstance__" not in env:
            import builtins as _b
            return isinstance(_ev(e.args[0], env), getattr(_b, e.args[1].id))
        if d == "hasattr" and len(e.args) == 2:
            v, nm = _ev(e.args[0], env), _ev(e.args[1], env)
            if isinstance(v, ModelObj):
                return nm in v.attrs
            raise AnalysisError("miniinterp: hasattr() of a non-model value")
        if d in ("partial", "functools.partial") and e.args:
            f_ = _ev(e.args[0], env)
            bound_ = [_ev(a, env) for a in e.args[1:]]
            kw_ = {k.arg: _ev(k.value, env) for k in e.keywords if k.arg}
            if not callable(f_):
                raise Raised("TypeError")
            return lambda *a, **k: f_(*bound_, *a, **dict(kw_, **k))      # arguments bound now, as functools.partial does
        if d in ("map", "filter") and len(e.args) >= 2:
            fn_ = _ev(e.args[0], env)
            seqs_ = [_ev(a, env) for a in e.args[1:]]
            if fn_ is None and d == "filter":
                fn_ = bool
            if not callable(fn_):
                raise Raised("TypeError")
            return map(fn_, *seqs_) if d == "map" else filter(fn_, *seqs_)      # lazy, as in Python 3
        if d in ("len", "max", "min", "list", "tuple", "str", "set", "dict", "frozenset", "bool", "int", "range", "enumerate",
                 "zip", "abs", "divmod", "any", "all", "sum", "bytes", "iter", "next"):
            try:
                return {"len": len, "max": max, "min": min, "list": list, "tuple": tuple, "str": str, "set": set, "dict": dict,
                        "frozenset": frozenset, "bool": bool, "int": int, "range": range, "enumerate": enumerate, "zip": zip,
                        "abs": abs, "divmod": divmod, "any": any, "all": all, "sum": sum, "bytes": bytes, "iter": iter,
                        "next": next}[d](*[_ev(a, env) for a in e.args])
            except (TypeError, ValueError) as ex:
                raise Raised(type(ex).__name__)
            except StopIteration:
                raise Raised("StopIteration")
        # a value of the model that is callable (registry entries, hooks handed in as globals)
        if not isinstance(e.func, ast.Attribute) or not (isinstance(e.func.value, ast.Name) and env.get(e.func.value.id) == "__SELF__"):
            try:
                fv = _ev(e.func, env)
            except AnalysisError:
                fv = _NOFUNC
            if fv is not _NOFUNC:
                if callable(fv):
                    kws_ = {}
                    for k_ in e.keywords:
                        if k_.arg is None:
                            try:
                                kws_.update(dict(_ev(k_.value, env)))
                            except (TypeError, ValueError):
                                raise Raised("TypeError")
                        else:
                            kws_[k_.arg] = _ev(k_.value, env)
                    return fv(*_args(e, env), **kws_)
                raise Raised("TypeError")        # calling None / a non-callable
        raise AnalysisError("miniinterp: unsupported call %s" % A.src(e))
    raise AnalysisError("miniinterp: unsupported expression %s" % A.src(e))


def eval_expr(expr, extra=None):
    """evaluate a module-level expression (a table, a constant) with the hooks of `extra`"""
    env = {"__self__": {}}
    env.update(extra or {})
    return _ev(expr, env)

"""Normalisation: a *new* single-use temporary is folded back into the statement that uses it.

`t = E; S(t)` becomes `S(E)` when t is a local that is stored once and loaded once in its function, the load is in the statement that immediately follows, and everything S
evaluates before reaching the load is a plain name, constant or attribute of a name (so neither the order of effects nor
the exception raised first can change). Refactorings that merely introduce such temporaries therefore do not change what
the rules see; anything else is left alone."""
import ast
import json
import os

from . import astutil as A

REF = os.path.join(os.path.dirname(os.path.abspath(__file__)), "ref", "known_locals.json")


def load_known():
    """the folding is unconditional (canonical form = every eligible temporary folded, whatever its name): an earlier version
    spared the locals of the reference tree (sa/ref/known_locals.json), which made the result depend on names - a rename of
    a local changed what the rules saw. The file is kept for reference only."""
    return {}


def _trivial(e):
    return isinstance(e, (ast.Name, ast.Constant)) or (isinstance(e, ast.Attribute) and _trivial(e.value))


class _Found(Exception):
    pass


class _Blocked(Exception):
    pass


def _eval_order(e, name):
    """walk `e` in evaluation order; raise _Found when the load of `name` is reached before anything non-trivial was
    evaluated, _Blocked when something non-trivial comes first or the rest is conditionally/lazily evaluated"""
    if isinstance(e, ast.Name):
        if e.id == name and isinstance(e.ctx, ast.Load):
            raise _Found()
        return
    if isinstance(e, ast.Constant):
        return
    if isinstance(e, ast.Attribute):
        _eval_order(e.value, name)
        if not _trivial(e):
            raise _Blocked()
        return
    if isinstance(e, ast.Starred):
        _eval_order(e.value, name)
        raise _Blocked()
    if isinstance(e, ast.Call):
        _eval_order(e.func, name)
        for a in e.args:
            if isinstance(a, ast.Starred):
                _eval_order(a.value, name)
                # unpacking happens when the call is made, after all arguments are evaluated
            else:
                _eval_order(a, name)
        for k in e.keywords:
            _eval_order(k.value, name)
        raise _Blocked()
    if isinstance(e, (ast.Tuple, ast.List, ast.Set)):
        for x in e.elts:
            if isinstance(x, ast.Starred):
                _eval_order(x.value, name)
                raise _Blocked()
            _eval_order(x, name)
        return
    if isinstance(e, ast.Subscript):
        _eval_order(e.value, name)
        _eval_order(e.slice, name)
        raise _Blocked()
    if isinstance(e, ast.Slice):
        for x in (e.lower, e.upper, e.step):
            if x is not None:
                _eval_order(x, name)
        return
    if isinstance(e, ast.BinOp):
        _eval_order(e.left, name)
        _eval_order(e.right, name)
        raise _Blocked()
    if isinstance(e, ast.UnaryOp):
        _eval_order(e.operand, name)
        raise _Blocked()
    if isinstance(e, ast.Compare):
        _eval_order(e.left, name)
        _eval_order(e.comparators[0], name)
        raise _Blocked()
    if isinstance(e, ast.BoolOp):
        _eval_order(e.values[0], name)
        raise _Blocked()
    if isinstance(e, ast.IfExp):
        _eval_order(e.test, name)
        raise _Blocked()
    if isinstance(e, ast.Dict):
        for k, v in zip(e.keys, e.values):
            if k is not None:
                _eval_order(k, name)
            _eval_order(v, name)
        return
    if isinstance(e, ast.JoinedStr):
        for v in e.values:
            _eval_order(v, name)
        return
    if isinstance(e, ast.FormattedValue):
        _eval_order(e.value, name)
        raise _Blocked()
    raise _Blocked()


def _first_use(st, name):
    """the expression of statement `st` in which `name` is reached first (evaluation order), or None"""
    exprs = []
    if isinstance(st, (ast.Expr, ast.Return)) and st.value is not None:
        exprs = [st.value]
    elif isinstance(st, ast.Assign):
        exprs = [st.value]
    elif isinstance(st, ast.AugAssign) and isinstance(st.target, ast.Name):
        exprs = [st.value]
    elif isinstance(st, ast.If):
        exprs = [st.test]
    elif isinstance(st, ast.For):
        exprs = [st.iter]
    elif isinstance(st, ast.Raise) and st.exc is not None and st.cause is None:
        exprs = [st.exc]
    for e in exprs:
        try:
            _eval_order(e, name)
        except _Found:
            return e
        except _Blocked:
            return None
    return None


class _Repl(ast.NodeTransformer):
    def __init__(self, name, value):
        self.name = name
        self.value = value
        self.done = False

    def visit_Name(self, n):
        if n.id == self.name and isinstance(n.ctx, ast.Load) and not self.done:
            self.done = True
            return self.value
        return n

    def visit_Lambda(self, n):
        return n

    def visit_FunctionDef(self, n):
        return n


def normalise_function(fn, known_locals):
    """fold new single-use temporaries of `fn` (an ast.FunctionDef); returns the number folded"""
    loads, stores = {}, {}
    for n in ast.walk(fn):
        if isinstance(n, ast.Name):
            (stores if isinstance(n.ctx, (ast.Store, ast.Del)) else loads).setdefault(n.id, []).append(n)
        elif isinstance(n, (ast.Global, ast.Nonlocal)):
            for x in n.names:
                stores.setdefault(x, []).extend([n, n])
        elif isinstance(n, ast.ExceptHandler) and n.name:
            stores.setdefault(n.name, []).append(n)
    params = {a.arg for a in fn.args.posonlyargs + fn.args.args + fn.args.kwonlyargs}
    for extra in (fn.args.vararg, fn.args.kwarg):
        if extra is not None:
            params.add(extra.arg)
    cands = {nm for nm in stores if len(stores[nm]) == 1 and len(loads.get(nm, [])) == 1 and nm not in params
             and nm not in known_locals}
    if not cands:
        return 0
    count = [0]

    def block(stmts):
        out = []
        i = 0
        while i < len(stmts):
            st = stmts[i]
            nxt = stmts[i + 1] if i + 1 < len(stmts) else None
            if isinstance(st, ast.Assign) and len(st.targets) == 1 and isinstance(st.targets[0], ast.Name) and \
                    st.targets[0].id in cands and nxt is not None and not any(
                        isinstance(x, (ast.Yield, ast.YieldFrom, ast.Await, ast.NamedExpr, ast.Lambda)) for x in ast.walk(st.value)):
                nm = st.targets[0].id
                e = _first_use(nxt, nm)
                if e is not None:
                    r = _Repl(nm, st.value)
                    new_e = r.visit(e)
                    if r.done:
                        for fld, val in ast.iter_fields(nxt):
                            if val is e:
                                setattr(nxt, fld, new_e)
                        count[0] += 1
                        i += 1
                        continue       # the temporary's assignment is dropped; nxt is processed on the next round
            for fld in ("body", "orelse", "finalbody"):
                v = getattr(st, fld, None)
                if isinstance(v, list) and v and isinstance(v[0], ast.stmt) and not isinstance(st, (ast.FunctionDef, ast.ClassDef)):
                    setattr(st, fld, block(v))
            if isinstance(st, ast.Try):
                for h in st.handlers:
                    h.body = block(h.body)
            out.append(st)
            i += 1
        return out
    fn.body = block(fn.body)
    return count[0]


class _ReplAll(ast.NodeTransformer):
    def __init__(self, name, value):
        self.name = name
        self.value = value

    def visit_Name(self, n):
        if n.id == self.name and isinstance(n.ctx, ast.Load):
            return A.clone(self.value)
        return n


def _hoistable(e, stores, params, stable_attrs, receiver_names):
    """a side-effect-free expression over names that are never re-bound in the function: comparisons, boolean combinations,
    constant subscripts and stable attributes (hoisting such an expression into a local cannot change its value)"""
    if isinstance(e, ast.Constant):
        return True
    if isinstance(e, ast.Name):
        return (e.id in params and not stores.get(e.id)) or e.id in ("None", "True", "False")
    if isinstance(e, ast.Attribute):
        return isinstance(e.value, ast.Name) and e.value.id in receiver_names and e.attr in stable_attrs
    if isinstance(e, ast.Subscript):
        return _hoistable(e.value, stores, params, stable_attrs, receiver_names) and isinstance(e.slice, ast.Constant)
    if isinstance(e, ast.Compare):
        return isinstance(e, ast.Compare) and len(e.ops) == 1 and isinstance(e.ops[0], (ast.Eq, ast.NotEq, ast.Is, ast.IsNot)) and \
            all(_hoistable(x, stores, params, stable_attrs, receiver_names) for x in [e.left] + e.comparators) and \
            any(isinstance(x, ast.Constant) for x in [e.left] + e.comparators)
    if isinstance(e, ast.BoolOp):
        return all(_hoistable(x, stores, params, stable_attrs, receiver_names) for x in e.values)
    if isinstance(e, ast.UnaryOp) and isinstance(e.op, ast.Not):
        return _hoistable(e.operand, stores, params, stable_attrs, receiver_names)
    return False


def fold_aliases(fn, known_locals, stable_attrs, receiver_names=("self", "cls", "_self")):
    """`x = self.<field>` where x is a new local stored once and <field> is never rebound outside __init__ (or is a method):
    every load of x is replaced by self.<field> (an attribute read of a binding that cannot change is position-independent).
    Returns the number of aliases folded."""
    stores = {}
    for n in ast.walk(fn):
        if isinstance(n, ast.Name) and isinstance(n.ctx, (ast.Store, ast.Del)):
            stores.setdefault(n.id, []).append(n)
        elif isinstance(n, ast.ExceptHandler) and n.name:
            stores.setdefault(n.name, []).append(n)
        elif isinstance(n, (ast.Global, ast.Nonlocal)):
            for x in n.names:
                stores.setdefault(x, []).extend([n, n])
    params = {a.arg for a in fn.args.posonlyargs + fn.args.args + fn.args.kwonlyargs}
    count = 0
    for st in list(ast.walk(fn)):
        if not (isinstance(st, ast.Assign) and len(st.targets) == 1 and isinstance(st.targets[0], ast.Name)):
            continue
        nm = st.targets[0].id
        v = st.value
        if nm in known_locals or nm in params or len(stores.get(nm, [])) != 1:
            continue
        is_alias = isinstance(v, ast.Attribute) and isinstance(v.value, ast.Name) and v.value.id in receiver_names \
            and v.value.id in params and v.attr in stable_attrs
        if not is_alias and isinstance(v, ast.Attribute):
            # self.<stable field>.<attr>[.<attr>...]: a bound method / attribute of an object the receiver holds for its whole life
            chain = v
            while isinstance(chain, ast.Attribute) and isinstance(chain.value, ast.Attribute):
                chain = chain.value
            is_alias = isinstance(chain, ast.Attribute) and isinstance(chain.value, ast.Name) and chain.value.id in receiver_names \
                and chain.value.id in params and chain.attr in stable_attrs and chain is not v
        if not is_alias and isinstance(v, ast.Attribute):
            # <local or module name>.<attr>: a bound method of a local that is bound once (`add = items.append`) or an attribute of a
            # module-level name (`dumpable = brine.dumpable`)
            base = v
            while isinstance(base, ast.Attribute):
                base = base.value
            if isinstance(base, ast.Name) and base.id not in receiver_names and base.id not in params and \
                    len(stores.get(base.id, [])) <= 1 and all(
                        getattr(x, "lineno", 0) < st.lineno for x in stores.get(base.id, [])):
                is_alias = True
        if not is_alias and not (isinstance(v, (ast.Compare, ast.BoolOp, ast.UnaryOp, ast.Subscript)) and
                                 _hoistable(v, stores, params, stable_attrs, receiver_names)):
            continue
        # the alias must be defined before its uses on every path: require the assignment to be a top-level statement
        # of the function body (or of a block that contains every use)
        par = getattr(st, "_parent", None)
        uses = [n for n in ast.walk(fn) if isinstance(n, ast.Name) and n.id == nm and isinstance(n.ctx, ast.Load)]
        if par is not fn and not all(A.contains(par, u) for u in uses):
            continue
        _ReplAll(nm, v).visit(fn)
        # drop the assignment
        for holder in ast.walk(fn):
            for fld in ("body", "orelse", "finalbody"):
                lst = getattr(holder, fld, None)
                if isinstance(lst, list) and st in lst:
                    lst.remove(st)
                    if not lst:
                        lst.append(ast.copy_location(ast.Pass(), st))
        count += 1
    return count

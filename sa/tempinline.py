"""Normalisation: a *new* single-use temporary is folded back into the statement that uses it.

`t = E; S(t)` becomes `S(E)` when t is a local that did not exist in the reference tree (sa/ref/known_locals.json), is
stored once and loaded once in its function, the load is in the statement that immediately follows, and everything S
evaluates before reaching the load is a plain name, constant or attribute of a name (so neither the order of effects nor
the exception raised first can change). Refactorings that merely introduce such temporaries therefore do not change what
the rules see; anything else is left alone."""
import ast
import json
import os

from . import astutil as A

REF = os.path.join(os.path.dirname(os.path.abspath(__file__)), "ref", "known_locals.json")


def load_known():
    try:
        with open(REF) as f:
            return {k: set(v) for k, v in json.load(f).items()}
    except OSError:
        return None


def _trivial(e):
    return isinstance(e, (ast.Name, ast.Constant)) or (isinstance(e, ast.Attribute) and _trivial(e.value))


class _Found(Exception):
    pass


class _Blocked(Exception):
    pass


def _eval_order(e, name):
    """walk `e` in evaluation order; raise _Found when the load of `name` is reached before anything non-trivial was
    evaluated, _Blocked when something non-trivial comes first or the rest is conditionally/lazily evaluated"""
    if isinstance(e, ast.Name):
        if e.id == name and isinstance(e.ctx, ast.Load):
            raise _Found()
        return
    if isinstance(e, ast.Constant):
        return
    if isinstance(e, ast.Attribute):
        _eval_order(e.value, name)
        if not _trivial(e):
            raise _Blocked()
        return
    if isinstance(e, ast.Starred):
        _eval_order(e.value, name)
        raise _Blocked()
    if isinstance(e, ast.Call):
        _eval_order(e.func, name)
        for a in e.args:
            if isinstance(a, ast.Starred):
                _eval_order(a.value, name)
                # unpacking happens when the call is made, after all arguments are evaluated
            else:
                _eval_order(a, name)
        for k in e.keywords:
            _eval_order(k.value, name)
        raise _Blocked()
    if isinstance(e, (ast.Tuple, ast.List, ast.Set)):
        for x in e.elts:
            if isinstance(x, ast.Starred):
                _eval_order(x.value, name)
                raise _Blocked()
            _eval_order(x, name)
        return
    if isinstance(e, ast.Subscript):
        _eval_order(e.value, name)
        _eval_order(e.slice, name)
        raise _Blocked()
    if isinstance(e, ast.Slice):
        for x in (e.lower, e.upper, e.step):
            if x is not None:
                _eval_order(x, name)
        return
    if isinstance(e, ast.BinOp):
        _eval_order(e.left, name)
        _eval_order(e.right, name)
        raise _Blocked()
    if isinstance(e, ast.UnaryOp):
        _eval_order(e.operand, name)
        raise _Blocked()
    if isinstance(e, ast.Compare):
        _eval_order(e.left, name)
        _eval_order(e.comparators[0], name)
        raise _Blocked()
    if isinstance(e, ast.BoolOp):
        _eval_order(e.values[0], name)
        raise _Blocked()
    if isinstance(e, ast.IfExp):
        _eval_order(e.test, name)
        raise _Blocked()
    if isinstance(e, ast.Dict):
        for k, v in zip(e.keys, e.values):
            if k is not None:
                _eval_order(k, name)
            _eval_order(v, name)
        return
    if isinstance(e, ast.JoinedStr):
        for v in e.values:
            _eval_order(v, name)
        return
    if isinstance(e, ast.FormattedValue):
        _eval_order(e.value, name)
        raise _Blocked()
    raise _Blocked()


def _first_use(st, name):
    """the expression of statement `st` in which `name` is reached first (evaluation order), or None"""
    exprs = []
    if isinstance(st, (ast.Expr, ast.Return)) and st.value is not None:
        exprs = [st.value]
    elif isinstance(st, ast.Assign):
        exprs = [st.value]
    elif isinstance(st, ast.AugAssign) and isinstance(st.target, ast.Name):
        exprs = [st.value]
    elif isinstance(st, ast.If):
        exprs = [st.test]
    elif isinstance(st, ast.For):
        exprs = [st.iter]
    elif isinstance(st, ast.Raise) and st.exc is not None and st.cause is None:
        exprs = [st.exc]
    for e in exprs:
        try:
            _eval_order(e, name)
        except _Found:
            return e
        except _Blocked:
            return None
    return None


class _Repl(ast.NodeTransformer):
    def __init__(self, name, value):
        self.name = name
        self.value = value
        self.done = False

    def visit_Name(self, n):
        if n.id == self.name and isinstance(n.ctx, ast.Load) and not self.done:
            self.done = True
            return self.value
        return n

    def visit_Lambda(self, n):
        return n

    def visit_FunctionDef(self, n):
        return n


def normalise_function(fn, known_locals):
    """fold new single-use temporaries of `fn` (an ast.FunctionDef); returns the number folded"""
    loads, stores = {}, {}
    for n in ast.walk(fn):
        if isinstance(n, ast.Name):
            (stores if isinstance(n.ctx, (ast.Store, ast.Del)) else loads).setdefault(n.id, []).append(n)
        elif isinstance(n, (ast.Global, ast.Nonlocal)):
            for x in n.names:
                stores.setdefault(x, []).extend([n, n])
        elif isinstance(n, ast.ExceptHandler) and n.name:
            stores.setdefault(n.name, []).append(n)
    params = {a.arg for a in fn.args.posonlyargs + fn.args.args + fn.args.kwonlyargs}
    for extra in (fn.args.vararg, fn.args.kwarg):
        if extra is not None:
            params.add(extra.arg)
    cands = {nm for nm in stores if len(stores[nm]) == 1 and len(loads.get(nm, [])) == 1 and nm not in params
             and nm not in known_locals}
    if not cands:
        return 0
    count = [0]

    def block(stmts):
        out = []
        i = 0
        while i < len(stmts):
            st = stmts[i]
            nxt = stmts[i + 1] if i + 1 < len(stmts) else None
            if isinstance(st, ast.Assign) and len(st.targets) == 1 and isinstance(st.targets[0], ast.Name) and \
                    st.targets[0].id in cands and nxt is not None and not any(
                        isinstance(x, (ast.Yield, ast.YieldFrom, ast.Await, ast.NamedExpr, ast.Lambda)) for x in ast.walk(st.value)):
                nm = st.targets[0].id
                e = _first_use(nxt, nm)
                if e is not None:
                    r = _Repl(nm, st.value)
                    new_e = r.visit(e)
                    if r.done:
                        for fld, val in ast.iter_fields(nxt):
                            if val is e:
                                setattr(nxt, fld, new_e)
                        count[0] += 1
                        i += 1
                        continue       # the temporary's assignment is dropped; nxt is processed on the next round
            for fld in ("body", "orelse", "finalbody"):
                v = getattr(st, fld, None)
                if isinstance(v, list) and v and isinstance(v[0], ast.stmt) and not isinstance(st, (ast.FunctionDef, ast.ClassDef)):
                    setattr(st, fld, block(v))
            if isinstance(st, ast.Try):
                for h in st.handlers:
                    h.body = block(h.body)
            out.append(st)
            i += 1
        return out
    fn.body = block(fn.body)
    return count[0]

"""Whitelisted evaluator for small pure expressions: used by table rules that compare an expression of the repository
with a reference truth table on an enumerated set of valuations (semantic, not textual, comparison)."""
import ast
import operator

from . import astutil as A


class CannotEval(Exception):
    pass


_CMP = {ast.Eq: operator.eq, ast.NotEq: operator.ne, ast.Lt: operator.lt, ast.LtE: operator.le, ast.Gt: operator.gt,
        ast.GtE: operator.ge, ast.Is: operator.is_, ast.IsNot: operator.is_not,
        ast.In: lambda a, b: a in b, ast.NotIn: lambda a, b: a not in b}
_BIN = {ast.Add: operator.add, ast.Sub: operator.sub, ast.Mult: operator.mul}


def ev(e, env, calls=None):
    """env: dotted name -> value ('self.finite', 'timeout', ...); calls: dotted callee -> python callable"""
    calls = calls or {}
    d = A.dotted(e) if isinstance(e, (ast.Name, ast.Attribute)) else None
    if d is not None:
        if d in env:
            return env[d]
        lookup = getattr(env, "lookup", None)
        if lookup is not None:
            found, val = lookup(e)
            if found:
                return val
        if d in ("None", "True", "False"):
            return {"None": None, "True": True, "False": False}[d]
        raise CannotEval("name %s" % d)
    if isinstance(e, ast.Constant):
        return e.value
    if isinstance(e, ast.BoolOp):
        val = None
        for x in e.values:
            val = ev(x, env, calls)
            if isinstance(e.op, ast.And) and not val:
                return val
            if isinstance(e.op, ast.Or) and val:
                return val
        return val
    if isinstance(e, ast.UnaryOp):
        v = ev(e.operand, env, calls)
        if isinstance(e.op, ast.Not):
            return not v
        if isinstance(e.op, ast.USub):
            return -v
        raise CannotEval("unary")
    if isinstance(e, ast.Compare):
        left = ev(e.left, env, calls)
        for op, c in zip(e.ops, e.comparators):
            right = ev(c, env, calls)
            f = _CMP.get(type(op))
            if f is None:
                raise CannotEval("cmp")
            try:
                if not f(left, right):
                    return False
            except TypeError:
                raise CannotEval("comparison raises TypeError")
            left = right
        return True
    if isinstance(e, ast.IfExp):
        return ev(e.body, env, calls) if ev(e.test, env, calls) else ev(e.orelse, env, calls)
    if isinstance(e, ast.BinOp) and type(e.op) in _BIN:
        try:
            return _BIN[type(e.op)](ev(e.left, env, calls), ev(e.right, env, calls))
        except TypeError:
            raise CannotEval("arithmetic raises TypeError")
    if isinstance(e, ast.Tuple):
        return tuple(ev(x, env, calls) for x in e.elts)
    if isinstance(e, ast.Subscript):
        base = ev(e.value, env, calls)
        idx = ev(e.slice, env, calls)
        try:
            return base[idx]
        except (KeyError, IndexError, TypeError):
            raise CannotEval("subscript fails")
    if isinstance(e, ast.Call):
        d = A.call_name(e)
        hook = calls.get("*")
        if hook is not None:
            handled, val = hook(e)
            if handled:
                return val
        if isinstance(e.func, ast.Attribute) and e.func.attr == "get" and 1 <= len(e.args) <= 2:
            base = ev(e.func.value, env, calls)
            if isinstance(base, dict):
                return base.get(*[ev(a, env, calls) for a in e.args])
        args = [ev(a, env, calls) for a in e.args]
        if d in calls:
            return calls[d](*args)
        if d in ("max", "min"):
            try:
                return (max if d == "max" else min)(*args)
            except TypeError:
                raise CannotEval("max/min raises TypeError")
        if d == "bool":
            return bool(*args)
        if d == "isinstance" and len(e.args) == 2:
            raise CannotEval("isinstance")
        raise CannotEval("call %s" % d)
    raise CannotEval(type(e).__name__)


class _Return(Exception):
    def __init__(self, v):
        self.v = v


def run(func_node, env, calls=None):
    """evaluate the straight-line/if body of a small pure function under `env` (updated in place by assignments to local
    names and dotted attributes); returns the returned value (None when the body falls off the end)"""
    def block(stmts):
        for st in stmts:
            if isinstance(st, ast.Expr) and isinstance(st.value, ast.Constant) or isinstance(st, ast.Pass):
                continue
            if isinstance(st, ast.If):
                block(st.body if ev(st.test, env, calls) else st.orelse)
            elif isinstance(st, ast.Assign) and len(st.targets) == 1 and A.dotted(st.targets[0]):
                env[A.dotted(st.targets[0])] = ev(st.value, env, calls)
            elif isinstance(st, ast.Return):
                raise _Return(ev(st.value, env, calls) if st.value is not None else None)
            else:
                raise CannotEval("statement %s" % type(st).__name__)
    try:
        block(func_node.body)
    except _Return as r:
        return r.v
    return None

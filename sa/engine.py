"""Analysis context shared by the rules of one run."""
import ast

from . import astutil as A
from . import cfg as C
from . import cfgq as Q
from .constfold import Folder, Unfoldable, class_attr
from .loader import Repo, AnalysisError

# calls that cannot raise in the states the package uses them in (benign-operation table, DESIGN 1.5)
BENIGN_CALLS = {
    "sys.exc_info": "never raises",
    "self._sendlock.release": "released only on the path that acquired it (R12.1 checks pairing)",
    "self._recvlock.release": "released only on the path that acquired it (R13.1 checks pairing)",
    "self._recv_event.notify_all": "called with the condition held (inside `with`)",
    "self._lock.release": "paired with acquire",
    "time.time": "never raises",
    "isinstance": "never raises for class arguments",
    "len": "builtin containers only on these paths",
    "type": "never raises",
    "id": "never raises",
    "bool": "never raises on builtins",
}


def std_raises(extra=None, benign_extra=()):
    """may-raise refinement used by most rules: prunes the benign table; `extra` maps dotted callee ->
    set of classes for calls whose summary is known."""
    extra = extra or {}
    benign = set(BENIGN_CALLS) | set(benign_extra)

    def raises(node_ast, kind):
        if node_ast is None:
            return None
        if kind == "with_enter":
            d = A.dotted(node_ast)
            if d in ("self._recv_event", "self._lock", "self._sendlock", "self._recvlock"):
                return set()
            return None
        if kind in ("for", "except", "with_exit"):
            return None
        if isinstance(node_ast, ast.Raise):
            return None
        cs = A.calls(node_ast)
        if not cs:
            return None
        # every call in the node must be known for the refinement to apply
        out = set()
        for c in cs:
            d = A.call_name(c)
            if d in extra:
                out |= set(extra[d])
            elif d in benign:
                continue
            else:
                return None
        # non-call parts of the node: fall back to the default if they may raise on their own
        stripped = _strip_calls(node_ast)
        if stripped:
            return None
        return out
    return raises


def quiet_logging_raises(node_ast, kind):
    """default may-raise model, except that logging/print calls are taken as non-raising (assumption: loggers do not fail)"""
    if node_ast is None or isinstance(node_ast, ast.Raise) or kind in ("with_enter", "for", "except", "with_exit"):
        return None
    cs = A.calls(node_ast)
    if cs and all((A.call_name(c) or "").split(".")[-2:-1] in (["logger"],) or A.call_name(c) == "print" for c in cs):
        if isinstance(node_ast, ast.Expr):
            return set()
    return None


def _strip_calls(node_ast):
    """does the node contain a possibly-raising construct outside its calls' own evaluation?"""
    for n in A.walk(node_ast):
        if isinstance(n, (ast.BinOp, ast.Starred, ast.Yield, ast.YieldFrom)):
            return True
        if isinstance(n, ast.Subscript) and isinstance(n.ctx, ast.Load):
            return True
        if isinstance(n, ast.Assign) and any(isinstance(t, (ast.Tuple, ast.List, ast.Subscript)) for t in n.targets):
            return True
    return False


class Ctx:
    def __init__(self, root=None, tier="quick", overrides=None):
        self.repo = Repo(root) if overrides is None else Repo(root, overrides=overrides)
        self.tier = tier
        self.folder = Folder(self.repo)
        self._cfgs = {}

    # -------------------------------------------------------------- anchors
    def func(self, qual):
        return self.repo.func(qual)

    def cls(self, qual):
        return self.repo.cls(qual)

    def module(self, name):
        return self.repo.module(name)

    def cfg(self, qual_or_func, raises="std"):
        f = qual_or_func if not isinstance(qual_or_func, str) else self.repo.func(qual_or_func)
        key = (f.qual, raises if isinstance(raises, str) else id(raises))
        if key not in self._cfgs:
            r = std_raises() if raises == "std" else (None if raises == "default" else raises)
            self._cfgs[key] = C.CFG(f.node, raises=r, name=f.qual)
        return self._cfgs[key]

    def const(self, modname, name):
        try:
            return self.folder.module_value(modname, name)
        except Unfoldable as e:
            raise AnalysisError("cannot fold %s.%s: %s" % (modname, name, e))

    def fold(self, node, mod=None, env=None):
        try:
            return self.folder.fold(node, mod or node._module, env)
        except Unfoldable as e:
            raise AnalysisError("cannot fold `%s` at %s: %s" % (A.src(node), self.loc(node), e))

    def try_fold(self, node, mod=None, env=None, default=None):
        try:
            return self.folder.fold(node, mod or node._module, env)
        except Unfoldable:
            return default

    def class_const(self, cls_qual, name):
        try:
            return class_attr(self.folder, self.repo, self.repo.cls(cls_qual), name)
        except Unfoldable as e:
            raise AnalysisError("cannot fold %s.%s: %s" % (cls_qual, name, e))

    def loc(self, node):
        if hasattr(node, "ast") and not isinstance(node, ast.AST):   # CFG node
            node = node.ast if node.ast is not None else None
        if node is None:
            return "?"
        return self.repo.loc(node)

    def path(self, nodes):
        """render a CFG path for a witness"""
        out = []
        for n in nodes:
            if n.ast is not None and hasattr(n.ast, "_module"):
                out.append("%s:%d %s" % (n.ast._module.relpath, n.lineno, n.text()))
            else:
                out.append(n.kind)
        return out

    # -------------------------------------------------------------- package-wide helpers
    def all_funcs(self):
        return list(self.repo.funcs.values())

    def call_sites(self, *names, modules=None):
        """(Func-or-None, Call) for every call in the package whose dotted callee matches"""
        out = []
        for m in self.repo.modules.values():
            if modules is not None and m.name not in modules:
                continue
            for n in ast.walk(m.tree):
                if isinstance(n, ast.Call):
                    d = A.call_name(n)
                    if d is None and isinstance(n.func, ast.Attribute):
                        d = "?." + n.func.attr
                    if d is None:
                        continue
                    for nm in names:
                        if d == nm or (nm.startswith(".") and d.endswith(nm)):
                            fn = A.enclosing(n, (ast.FunctionDef, ast.AsyncFunctionDef))
                            out.append((getattr(fn, "_func", None), n))
                            break
        return out

"""C01 - remote calls compute what a local call would, at any nesting depth.

Decides the request plumbing: every link proxy-operation -> request tuple -> handler -> target call -> reply ->
AsyncResult.value hands on every operand exactly once, in the right slot (R01.1-R01.9). Result equality itself is
not decided."""
import ast

from .. import astutil as A
from .. import cfgq as Q
from ..loader import AnalysisError
from . import c06
from . import common as K


def emitters(ctx):
    """(func, call, handler id, number of operands the handler receives besides self, or None if splatted)"""
    out = []
    for f in ctx.repo.funcs.values():
        for c in A.calls(f.node):
            d = A.call_name(c) or ""
            last = d.split(".")[-1]
            if last in ("syncreq", "asyncreq") and len(c.args) >= 2:
                hid = ctx.try_fold(c.args[1])
                rest = c.args[2:]
                n = None if any(isinstance(a, ast.Starred) for a in rest) else 1 + len(rest)
                out.append((f, c, hid, n))
            elif last in ("sync_request", "async_request") and c.args and d != "self.async_request":
                hid = ctx.try_fold(c.args[0])
                rest = c.args[1:]
                n = None if any(isinstance(a, ast.Starred) for a in rest) else len(rest)
                out.append((f, c, hid, n))
            elif last == "_async_request" and c.args:
                hid = ctx.try_fold(c.args[0])
                n = None
                if len(c.args) == 1 and not c.keywords:
                    n = 0
                elif len(c.args) >= 2 and isinstance(c.args[1], ast.Tuple):
                    n = len(c.args[1].elts)
                out.append((f, c, hid, n))
    return out


def run(ctx, rep):
    rep.rule("R01.1", "emitter/handler arity agreement: every request-emitting site with a constant handler id passes a number of "
                      "operands the registered handler accepts")
    rep.rule("R01.2", "the call handler invokes the target exactly once with all positional and keyword operands; callattr obtains "
                      "the callable through the policy and delegates the same operands")
    rep.rule("R01.3", "the proxy side forwards both operand kinds (args and kwargs.items()) in the published slots")
    rep.rule("R01.4", "the reply is the handler's result / the caught exception; AsyncResult stores and returns/raises it unmodified")
    rep.rule("R01.5", "a waiter serves while it waits (nested callbacks), dispatching outside the receive lock")
    rep.rule("R01.6", "references passed as arguments/results stay valid: counting discipline (= C10)")
    rep.rule("R01.7", "exceptions keep class and data across hops (= C09 reconstruction rules)")
    rep.rule("R01.8", "exactly one response per request, handler at most once (= C08)")
    rep.rule("R01.11", "every issued request reaches the wire: send-layer hand-off discipline (= R12.1-R12.3)")
    rep.rule("R01.10", "the proxy resolves its own machinery (incl. __call__) locally and fetches everything else by its own name (= R02.7)")
    rep.rule("R01.9", "value/reference decision and identity (= C03)")
    rep.assume("equality of transported values is decided by C03/C04; semantics of user callables are out of scope")
    table, rows = c06.handler_table(ctx)
    by_id = {hid: f for hid, _, f, _ in rows if f is not None}

    # ------------------------------------------------------------------ R01.1
    em = emitters(ctx)
    n_const = 0
    for f, c, hid, n in em:
        if hid is None:
            continue
        n_const += 1
        h = by_id.get(hid)
        if h is None:
            rep.ob("R01.1", "%s: `%s` targets a registered handler" % (f.qual.split(".", 2)[-1], A.norm(c)[:50]), False,
                   "handler id %r is not in the dispatch table" % hid, ctx.loc(c), kind="table")
            continue
        if n is None:
            continue
        req, mx = A.arg_range(h.node, bound=True)
        ok = n >= req and (mx is None or n <= mx)
        rep.ob("R01.1", "%s: `%s` matches %s" % (f.qual.split(".", 2)[-1], A.norm(c)[:50], h.name), ok,
               "%d operand(s) within [%d, %s]" % (n, req, mx) if ok else
               "the request carries %d operand(s) but %s accepts between %d and %s: the call fails (or drops an operand) on the peer"
               % (n, h.name, req, mx), ctx.loc(c), kind="table")
    rep.floor("R01.1", "request-emitting sites with a constant handler id", n_const, 28)

    # ------------------------------------------------------------------ R01.2
    fc = ctx.func(K.CONN + "._handle_call")
    g = ctx.cfg(fc)
    rep.analysed(fc, g)
    prm = A.params(fc.node)
    if len(prm) < 4:
        raise AnalysisError("_handle_call no longer takes (self, obj, args, kwargs)")
    tcalls = []
    for n in g.live:
        if n.ast is None or n.kind not in ("stmt", "test"):
            continue
        for c in A.calls(n.ast):
            if isinstance(c.func, ast.Name) and c.func.id == prm[1]:
                tcalls.append((n, c))
    rep.floor("R01.2", "invocations of the target in _handle_call", len(tcalls), 1)
    ids = {n.id for n, _ in tcalls}
    cnt = Q.count_on_paths(g, g.entry, lambda n: n.id in ids)
    at = cnt.get(g.exit.id, frozenset())
    ok = at == frozenset([1]) and len(tcalls) == 1 and not A.in_loop(tcalls[0][1], fc.node)
    rep.ob("R01.2", "_handle_call: the target runs exactly once", ok,
           "one invocation on every normal path, not in a loop" if ok else
           "the target callable is invoked %s times for one request" % sorted(at), ctx.loc(tcalls[0][1]))
    rd = Q.ReachingDefs(g)
    for n, c in tcalls:
        star = [a.value for a in c.args if isinstance(a, ast.Starred)]
        plain = [a for a in c.args if not isinstance(a, ast.Starred)]
        okp = len(star) == 1 and A.src(star[0]) == prm[2] and not plain and rd.at(n, prm[2]) == {"param"}
        rep.ob("R01.2", "_handle_call: all positional operands reach the target", okp,
               "obj(*%s, ...)" % prm[2] if okp else "positional operands are passed as `%s`" % ", ".join(A.src(a) for a in c.args),
               ctx.loc(c))
        dstar = [k.value for k in c.keywords if k.arg is None]
        named = [k for k in c.keywords if k.arg is not None]
        okk = len(dstar) == 1 and prm[3] in A.names_loaded(dstar[0]) and not named
        if okk and isinstance(dstar[0], ast.Name):
            defs = rd.at(n, dstar[0].id)
            okk = bool(defs) and all(d == "param" or prm[3] in A.names_loaded(d.ast) for d in defs)
        rep.ob("R01.2", "_handle_call: all keyword operands reach the target", okk,
               "**%s" % A.src(dstar[0]) if okk else "keyword operands are dropped or replaced (`%s`)" % A.src(c), ctx.loc(c))
        st = A.enclosing(c, ast.stmt)
        okr = isinstance(st, ast.Return) and st.value is c
        rep.ob("R01.2", "_handle_call: the handler returns the target's result", okr,
               "return obj(...)" if okr else "the result of the call is not what the handler returns", ctx.loc(c))
    fa = ctx.func(K.CONN + "._handle_callattr")
    ap = A.params(fa.node)
    ga = A.find_calls(fa.node, "self._handle_getattr")
    ca = A.find_calls(fa.node, "self._handle_call")
    ok = len(ga) == 1 and len(ca) == 1 and [A.src(x) for x in ga[0].args] == ap[1:3] and \
        [A.src(x) for x in ca[0].args][1:] == ap[3:5]
    # decided by evaluation when possible: one policy-checked lookup of (obj, name); what it returns is called exactly once with
    # the operands unchanged; its result is the handler's result
    try:
        from .. import miniinterp as MIc
        looked, called = [], []

        def target(*a, **k):
            called.append((a, k))
            return "RESULT"
        cm_ = {n_: m_.node for n_, m_ in ctx.cls(K.CONN).methods.items() if n_ != "_handle_getattr"}
        ex_ = {"__calls__": {"self._handle_getattr": lambda o, n: (looked.append((o, n)), target)[1]}, "__methods__": cm_, "__max_iter__": 100}
        ex_["__global_lookup__"] = K.module_function_lookup(ctx, fa.module, ex_)
        got_ = MIc.call_method(fa.node, {}, ["OBJ", "meth", (1, 2), (("k", 3),)], ex_)
        ok = looked == [("OBJ", "meth")] and called == [((1, 2), {"k": 3})] and got_ == "RESULT"
        looked2, called2 = [], []
        ex_["__calls__"] = {"self._handle_getattr": lambda o, n: (looked2.append((o, n)), (lambda *a, **k: (called2.append((a, k)), None)[1]))[1]}
        got2_ = MIc.call_method(fa.node, {}, ["OBJ", "meth", ()], ex_)
        ok = ok and looked2 == [("OBJ", "meth")] and called2 == [((), {})] and got2_ is None
    except (AnalysisError, MIc.Raised):
        pass
    rep.ob("R01.2", "_handle_callattr: resolves the name through the policy and delegates args/kwargs unchanged", ok,
           "self._handle_getattr(obj, name) -> self._handle_call(<result>, args, kwargs)" if ok else
           "_handle_callattr no longer goes through _handle_getattr(obj, name) / _handle_call(.., args, kwargs)", fa.loc)
    if ok and len(ga) == 1 and len(ca) == 1:     # (the evaluation above already decides this; kept for the structural form)
        st = A.enclosing(ga[0], ast.stmt)
        tgt = st.targets[0].id if isinstance(st, ast.Assign) and isinstance(st.targets[0], ast.Name) else None
        ok2 = (tgt is not None and A.src(ca[0].args[0]) == tgt) or ca[0].args[0] is ga[0]
        rep.ob("R01.2", "_handle_callattr: what is called is the attribute the policy returned", ok2,
               "the first operand of _handle_call is the result of _handle_getattr" if ok2 else
               "_handle_call receives `%s`, not the attribute obtained through the policy" % A.src(ca[0].args[0]), fa.loc)

    # ------------------------------------------------------------------ R01.3
    HCALL = ctx.const("rpyc.core.consts", "HANDLE_CALL")
    HCATTR = ctx.const("rpyc.core.consts", "HANDLE_CALLATTR")
    fwd = [("rpyc.core.netref._make_method.__call__", HCALL, 0), ("rpyc.core.netref._make_method.method#2", HCATTR, 1),
           ("rpyc.utils.helpers._Async.__call__", HCALL, 0)]
    for q, hid, extra in fwd:
        f = ctx.func(q)
        rep.analysed(f)
        va = f.node.args.vararg.arg if f.node.args.vararg else None
        kw = f.node.args.kwarg.arg if f.node.args.kwarg else None
        sends = [c for c in A.calls(f.node) if (A.call_name(c) or "").split(".")[-1] in ("syncreq", "asyncreq")]
        ok = False
        why = "no request is sent"
        if len(sends) == 1 and va and kw:
            c = sends[0]
            ops = c.args[2:]
            kwsrc = None
            if len(ops) == 2 + extra:
                a_op, k_op = ops[extra], ops[extra + 1]
                kwsrc = A.src(k_op)
                if isinstance(k_op, ast.Name):
                    for n in A.walk(f.node):
                        if isinstance(n, ast.Assign) and isinstance(n.targets[0], ast.Name) and n.targets[0].id == k_op.id:
                            kwsrc = A.src(n.value)
                ok = ctx.try_fold(c.args[1]) == hid and A.src(a_op) == va and kwsrc == "tuple(%s.items())" % kw
                if extra:
                    ok = ok and A.src(ops[0]) == "name"
            why = "sends %s" % A.src(c)
        if va and kw:
            touched = [x for x in A.walk(f.node) if (
                isinstance(x, ast.Call) and isinstance(x.func, ast.Attribute) and isinstance(x.func.value, ast.Name)
                and x.func.value.id in (va, kw) and x.func.attr in ("pop", "popitem", "clear", "update", "setdefault", "remove"))
                or (isinstance(x, (ast.Delete,)) and any(isinstance(t, ast.Subscript) and isinstance(t.value, ast.Name)
                                                         and t.value.id in (va, kw) for t in x.targets))
                or (isinstance(x, ast.Subscript) and isinstance(x.ctx, ast.Store) and isinstance(x.value, ast.Name) and x.value.id in (va, kw))]
            rep.ob("R01.3", "%s: the caller's operands are forwarded untouched" % q.split(".", 2)[-1], not touched,
                   "no keyword/positional operand is consumed or altered by the forwarder" if not touched else
                   "`%s` takes an operand away from the call: a keyword the target itself accepts (e.g. its own `timeout=`) never "
                   "reaches it" % A.src(touched[0])[:60], ctx.loc(touched[0]) if touched else f.loc, kind="site")
        rep.ob("R01.3", "%s forwards args and kwargs.items() in the published slots" % q.split(".", 2)[-1], ok,
               "(%sargs, tuple(kwargs.items()))" % ("name, " if extra else "") if ok else
               "positional or keyword operands are dropped/misplaced on the proxy side: %s" % why, f.loc)

    # the receiver of a **kwargs forwarder must not shadow a keyword the caller may pass (`self=` is an ordinary keyword of the target)
    for q in ("rpyc.core.netref._make_method.__call__", "rpyc.core.netref._make_method.method#2",
              "rpyc.utils.helpers._Async.__call__", "rpyc.utils.helpers.timed.__call__"):
        f = ctx.func(q)
        rep.analysed(f)
        named = [a.arg for a in f.node.args.posonlyargs + f.node.args.args + f.node.args.kwonlyargs]
        bad = [n for n in named if not n.startswith("_")]
        okn = f.node.args.kwarg is not None and not bad
        rep.ob("R01.3", "%s: no named parameter can collide with a forwarded keyword" % q.split(".", 2)[-1], okn,
               "receiver is `%s` (underscore-reserved), everything else goes through *args/**kwargs" % (named[0] if named else "?")
               if okn else "the forwarder declares the ordinary name(s) %s next to **kwargs: a call passing that keyword (e.g. "
               "`self=obj` to an unbound method or to a function whose parameter is called self) fails locally with TypeError "
               "and never reaches the target" % bad, f.loc, kind="site")

    # the process-wide cache of async wrappers is keyed by object identity: any peer-relative key (an id pack is unique
    # within one peer only) lets a wrapper built for one connection answer for a proxy of another
    fas = ctx.func("rpyc.utils.helpers.async_")
    gas = ctx.cfg(fas)
    rep.analysed(fas, gas)
    rdas = Q.ReachingDefs(gas)
    keys = []
    for n in gas.live:
        if n.ast is None or n.kind not in ("stmt", "test"):
            continue
        for x in A.walk(n.ast):
            if isinstance(x, ast.Subscript) and A.dotted(x.value) == "_async_proxies_cache":
                keys.append((n, x.slice))
            elif isinstance(x, ast.Compare) and len(x.ops) == 1 and isinstance(x.ops[0], (ast.In, ast.NotIn)) and \
                    A.dotted(x.comparators[0]) == "_async_proxies_cache":
                keys.append((n, x.left))
            elif isinstance(x, ast.Call) and isinstance(x.func, ast.Attribute) and A.dotted(x.func.value) == "_async_proxies_cache" \
                    and x.args:
                keys.append((n, x.args[0]))
    rep.floor("R01.3", "uses of the async wrapper cache in async_()", len(keys), 2)

    def is_identity(node, e):
        e = K.resolve_expr(rdas, node, e)
        return isinstance(e, ast.Call) and A.call_name(e) == "id" and len(e.args) == 1
    badk = [(n, k) for n, k in keys if not is_identity(n, k)]
    rep.ob("R01.3", "async_(): the wrapper cache is keyed by object identity", not badk,
           "every key is id(<object>)" if not badk else
           "the process-wide wrapper cache is keyed by `%s`: two connections whose remote callables share that key (forked peers, "
           "two connections to one server) get each other's wrapper - the call runs on the wrong peer" % A.src(badk[0][1]),
           ctx.loc(badk[0][1]) if badk else fas.loc, kind="site")

    # sync_request hands back exactly what the reply carries: the value, or the very exception object (model evaluation)
    from .. import miniinterp as MI
    fsr = ctx.func(K.CONN + ".sync_request")
    rep.analysed(fsr)

    class _Reply:
        mi_native = True

        def __init__(self, outcome):
            self.outcome = outcome

        def set_expiry(self, t):
            pass

        @property
        def value(self):
            if isinstance(self.outcome, MI.Raised):
                raise self.outcome
            return self.outcome
    bad_sr = []
    try:
        for label, outcome in (("a value", "RESULT"), ("None", None), ("a remote ValueError", MI.Raised("ValueError", "ORIGINAL")),
                               ("a TimeoutError raised by the callee", MI.Raised("TimeoutError", "ORIGINAL")),
                               ("an OSError raised by a nested callback", MI.Raised("OSError", "ORIGINAL")),
                               ("an EOFError", MI.Raised("EOFError", "ORIGINAL"))):
            seen = []

            def issue(h, a=(), cb=None, seen=seen):
                seen.append(((h,) + tuple(a), {}))
            conn_meths = {n_: m_.node for n_, m_ in ctx.cls(K.CONN).methods.items() if n_ != "_async_request"}
            extra_sr = {"__calls__": {"AsyncResult": lambda c, outcome=outcome: _Reply(outcome), "self._async_request": issue},
                        "__methods__": conn_meths, "__max_iter__": 100}
            extra_sr["__global_lookup__"] = K.module_function_lookup(ctx, fsr.module, extra_sr)
            try:
                got = MI.call_method(fsr.node, {"_config": {"sync_request_timeout": 30}}, ["HANDLER", "a1", "a2"], extra_sr)
                res = ("value", got)
            except MI.Raised as r_:
                res = ("raise", r_)
            want = ("raise", outcome) if isinstance(outcome, MI.Raised) else ("value", outcome)
            if res[0] != want[0] or res[1] is not want[1] or len(seen) != 1 or seen[0][0] != ("HANDLER", "a1", "a2"):
                bad_sr.append("reply carrying %s: sync_request %s" % (label, "raises a different exception (%s)" % res[1].name
                              if res[0] == "raise" and want[0] == "raise" else "gives %r after %d request(s)" % (res, len(seen))))
    except AnalysisError as e_:
        rep.undecided("R01.4", "sync_request", str(e_))
    rep.ob("R01.4", "sync_request: the caller gets exactly the value or the exception object the reply carries", not bad_sr,
           "6 reply kinds evaluated: one request, the outcome passed through untouched" if not bad_sr else "; ".join(bad_sr)[:400],
           fsr.loc, kind="table")

    # ------------------------------------------------------------------ R01.4
    K.share(ctx, rep, "c08", lambda o: o.rule == "R08.1" and ("carries the handler's result" in o.key or
                                                              "no-exception continuation" in o.key), "R01.4", floor=2)
    fd = ctx.func(K.CONN + "._dispatch_request")
    gd = ctx.cfg(fd)
    rdd = Q.ReachingDefs(gd)
    okx = False
    for n in gd.live:
        if n.kind == "stmt" and n.ast is not None:
            for c in A.find_calls(n.ast, "self._box_exc"):
                names = [a.id for a in c.args if isinstance(a, ast.Name)]
                if len(names) == 3:
                    defs = set()
                    for v in names:
                        defs |= rdd.at(n, v)
                    okx = len(defs) == 1 and all(d != "param" and A.find_calls(d.ast, "sys.exc_info") and
                                                 isinstance(d.ast, ast.Assign) and isinstance(d.ast.targets[0], ast.Tuple) and
                                                 [e.id for e in d.ast.targets[0].elts] == names for d in defs)
    rep.ob("R01.4", "_dispatch_request: the exception reply describes the exception just caught", okx,
           "(t, v, tb) = sys.exc_info() -> self._box_exc(t, v, tb)" if okx else
           "the exception reply is not built from sys.exc_info() of the handler clause (in that order)", fd.loc)
    fcall = ctx.func("rpyc.core.async_.AsyncResult.__call__")
    cp = A.params(fcall.node)
    stores = {}
    for n in A.walk(fcall.node):
        if isinstance(n, ast.Assign) and K.self_attr(n.targets[0]):
            stores[K.self_attr(n.targets[0])] = A.src(n.value)
    oks = stores.get("_is_exc") == cp[1] and stores.get("_obj") == cp[2]
    rep.ob("R01.4", "AsyncResult.__call__: the outcome is stored unmodified", oks,
           "_is_exc = is_exc; _obj = obj" if oks else "the delivered outcome is altered on arrival: %s" % stores, fcall.loc)
    fv = ctx.func("rpyc.core.async_.AsyncResult.value")
    gv = ctx.cfg(fv)
    rep.analysed(fv, gv)
    domv = Q.dominators(gv)
    waits = [n for n in gv.live if n.kind == "stmt" and n.ast is not None and A.find_calls(n.ast, "self.wait")]
    okv = bool(waits)
    outcomes = []
    for n in gv.live:
        if n.kind == "stmt" and isinstance(n.ast, (ast.Return, ast.Raise)):
            conds = {A.src(t.ast): pol for t, pol in Q.dominating_conditions(gv, n, domv)}
            val = n.ast.value if isinstance(n.ast, ast.Return) else n.ast.exc
            outcomes.append((type(n.ast).__name__, A.src(val) if val is not None else None, conds.get("self._is_exc")))
            okv = okv and any(w.id in domv[n.id] for w in waits)
    want = {("Raise", "self._obj", True), ("Return", "self._obj", False)}
    okv = okv and set(outcomes) == want
    rep.ob("R01.4", "AsyncResult.value: waits, then raises the stored exception or returns the stored value", okv,
           "wait(); raise self._obj if self._is_exc else return self._obj" if okv else
           "value does not (wait, then raise-if-exception / return-otherwise) the stored object: %s" % sorted(outcomes, key=str),
           fv.loc)
    fs = ctx.func(K.CONN + ".sync_request")
    ram = K.request_api_model(ctx)
    if "error" in ram:
        oksr = any(isinstance(n, ast.Return) and isinstance(n.value, ast.Attribute) and n.value.attr == "value" and
                   A.find_calls(n.value, "self.async_request") for n in A.walk(fs.node))
        why_sr = "sync_request no longer returns .value"
    else:
        sy = ram["sync"]
        oksr = sy["n_results"] == 1 and sy["issued"] == [("H", (1, 2), 0)] and sy["returned"] == ("VALUE-OF", 0)
        why_sr = "sync_request('H', 1, 2) issues %s with %d result object(s) and returns %r" % (sy["issued"], sy["n_results"], sy["returned"])
    rep.ob("R01.4", "sync_request returns the value of the matching asynchronous request", oksr,
           "one request (handler, args) is issued, its own result object is the callback, and that object's .value is returned"
           if oksr else why_sr, fs.loc, kind="model" if "error" not in ram else "site")
    far = ctx.func(K.CONN + ".async_request")
    okar = False
    for c in A.find_calls(far.node, "self._async_request"):
        arp = A.params(far.node)
        res = [n.targets[0].id for n in A.walk(far.node) if isinstance(n, ast.Assign) and A.find_calls(n.value, "AsyncResult")
               and isinstance(n.targets[0], ast.Name)]
        okar = len(c.args) == 3 and A.src(c.args[0]) == arp[1] and A.src(c.args[1]) == far.node.args.vararg.arg and \
            bool(res) and A.src(c.args[2]) == res[0] and any(isinstance(n, ast.Return) and A.src(n.value) == res[0]
                                                             for n in A.walk(far.node))
    if "error" not in ram:
        okar = all(ram["async", t_]["n_results"] == 1 and ram["async", t_]["issued"] == [("H", (1, 2), 0)] and
                   ram["async", t_]["returned_no"] == 0 for t_ in (None, 0, 5))
    rep.ob("R01.4", "async_request: the result object it returns is the callback registered for the request", okar,
           "res = AsyncResult(self); self._async_request(handler, args, res); return res" if okar else
           "async_request does not register the AsyncResult it returns", far.loc)

    # ------------------------------------------------------------------ R01.5 .. R01.9 (shared clauses)
    K.share(ctx, rep, "c11", lambda o: o.rule == "R11.5", "R01.5", floor=1)
    K.share(ctx, rep, "c13", lambda o: o.rule == "R13.3", "R01.5", floor=2)
    K.share(ctx, rep, "c10", lambda o: o.rule in ("R10.1", "R10.2", "R10.3", "R10.4"), "R01.6", floor=10)
    K.share(ctx, rep, "c09", lambda o: o.rule in ("R09.6", "R09.2", "R09.7", "R09.5", "R09.4", "R09.10", "R09.11"), "R01.7", floor=12)
    K.share(ctx, rep, "c08", lambda o: o.rule in ("R08.1", "R08.3") and "carries the handler's result" not in o.key
            and "no-exception continuation" not in o.key, "R01.8", floor=6)
    K.share(ctx, rep, "c03", lambda o: o.rule in ("R03.1", "R03.2", "R03.3", "R03.4"), "R01.9", floor=8)
    # a call spelled `f.__call__(x)` / hasattr(f, "__call__") goes through the proxy's attribute plumbing
    K.share(ctx, rep, "c02", lambda o: o.rule == "R02.7" or o.rule == "R02.8", "R01.10", floor=3)
    # a request that was issued is transmitted (a stranded request is a call that never runs)
    K.share(ctx, rep, "c12", lambda o: o.rule in ("R12.1", "R12.2", "R12.3", "R12.5", "R12.7"), "R01.11", floor=6)
    K.share(ctx, rep, "c16", lambda o: o.rule == "R16.8", "R01.11", floor=1)
    # the caller that sees "ready" reads the outcome of ITS call: the outcome is stored before the flag is published
    K.share(ctx, rep, "c13", lambda o: o.rule == "R13.5", "R01.4", floor=2)
    K.share(ctx, rep, "c15", lambda o: o.rule == "R15.1" and "holds its connection strongly" in o.key, "R01.4", floor=1)

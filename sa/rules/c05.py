"""C05 - packets arrive whole, in order and unaltered however the transport fragments.

Decides the loop/close discipline of the stream classes and the frame layout of Channel (R05.1-R05.5).
Scope: SocketStream, PipeStream (POSIX), Channel. Win32/NamedPipe streams are dead code on this platform."""
import ast
import copy

from .. import astutil as A
from .. import cfgq as Q
from ..constfold import StructVal
from ..loader import AnalysisError
from . import common as K

STREAMS = ["rpyc.core.stream.SocketStream", "rpyc.core.stream.PipeStream"]
RECV_NAMES = (".recv", "os.read", ".recv_into", ".read")
SEND_NAMES = (".send", "os.write", ".sendall", ".write")


def _os_calls(fn_node, names, exclude_self_methods=True):
    out = []
    for c in A.calls(fn_node):
        d = A.call_name(c) or ""
        for nm in names:
            if d == nm or (nm.startswith(".") and d.endswith(nm) and d.startswith("self.") and d.count(".") >= 2):
                out.append(c)
                break
    return out


class _Corroborate:
    """a view of the report that records discharged obligations and drops failed ones"""
    def __init__(self, rep):
        self._rep = rep

    def ob(self, rule, key, ok, *a, **k):
        if ok:
            self._rep.ob(rule, key, ok, *a, **k)

    def floor(self, *a, **k):
        pass

    def __getattr__(self, name):
        return getattr(self._rep, name)


def _precedes(fn, a, b):
    """does statement a come before statement b in the (normalised) body of fn? (line numbers of inlined code are those of the
    helper it came from and say nothing about order)"""
    order = {id(x): i for i, x in enumerate(_preorder(fn))}
    return order.get(id(a), 10 ** 9) < order.get(id(b), -1)


def _preorder(node):
    yield node
    for c in ast.iter_child_nodes(node):
        for x in _preorder(c):
            yield x


def check_read(ctx, rep, cls_qual):
    short = cls_qual.split(".")[-1]
    f = ctx.func(cls_qual + ".read")
    fn = f.node
    g = ctx.cfg(f, raises="default")
    rep.analysed(f, g)
    cnt = A.params(fn)[1]
    recvs = _os_calls(fn, RECV_NAMES)
    rep.floor("R05.1", "%s.read: OS receive calls" % short, len(recvs), 1)
    loops = [n for n in A.walk(fn) if isinstance(n, ast.While)]
    rep.floor("R05.1", "%s.read: read loops" % short, len(loops), 1)
    loop = loops[0]
    # loop test is `count > 0` (remaining count positive); the counter is the parameter or a local initialised from it
    t = loop.test
    tv = t.left if isinstance(t, ast.Compare) else t
    if isinstance(tv, ast.Name) and tv.id != cnt:
        inits = [n for n in A.walk(fn) if isinstance(n, ast.Assign) and any(
            isinstance(x, ast.Name) and x.id == tv.id for x in n.targets) and not A.contains(loop, n)]
        if len(inits) == 1 and isinstance(inits[0].value, ast.Name) and inits[0].value.id == cnt and \
                _precedes(fn, inits[0], loop) and not any(
                    isinstance(n, (ast.Assign, ast.AugAssign)) and cnt in A.names_stored(n) for n in A.walk(fn)):
            cnt = tv.id
    okt = isinstance(t, ast.Compare) and isinstance(t.left, ast.Name) and t.left.id == cnt and len(t.ops) == 1 and (
        (isinstance(t.ops[0], ast.Gt) and ctx.try_fold(t.comparators[0]) == 0) or
        (isinstance(t.ops[0], ast.GtE) and ctx.try_fold(t.comparators[0]) == 1) or
        (isinstance(t.ops[0], ast.NotEq) and ctx.try_fold(t.comparators[0]) == 0))
    okt = okt or (isinstance(t, ast.Name) and t.id == cnt)
    rep.ob("R05.1", "%s.read: the loop runs while bytes remain" % short, bool(okt),
           "`while %s`" % A.src(t) if okt else "loop condition `%s` is not 'remaining count > 0'" % A.src(t), ctx.loc(loop),
           kind="site")
    for rc in recvs:
        # (a) bounded request
        size = rc.args[-1] if rc.args else None
        bounded = False
        if isinstance(size, ast.Name) and size.id == cnt:
            bounded = True
        if isinstance(size, ast.Call) and A.call_name(size) == "min" and any(
                isinstance(a, ast.Name) and a.id == cnt for a in size.args):
            bounded = True
        rep.ob("R05.1", "%s.read: the OS is never asked for more than the remaining count" % short, bounded,
               "request size `%s` is bounded by `%s`" % (A.src(size), cnt) if bounded else
               "request size `%s` is not bounded by the remaining count: bytes of the next packet are swallowed" % A.src(size),
               ctx.loc(rc))
        st = A.enclosing(rc, ast.stmt)
        buf = st.targets[0].id if isinstance(st, ast.Assign) and isinstance(st.targets[0], ast.Name) else None
        if buf is None:
            raise AnalysisError("%s.read: the received buffer is not bound to a local" % short)
        # (b) count decreases by len(buf)
        decs = [n for n in A.walk(loop) if isinstance(n, ast.AugAssign) and isinstance(n.target, ast.Name) and n.target.id == cnt]
        decs += [n for n in A.walk(loop) if isinstance(n, ast.Assign) and any(
            isinstance(x, ast.Name) and x.id == cnt for x in n.targets)]
        okb = len(decs) == 1 and isinstance(decs[0], ast.AugAssign) and isinstance(decs[0].op, ast.Sub) and \
            A.src(decs[0].value) == "len(%s)" % buf
        rep.ob("R05.1", "%s.read: the remaining count decreases by the number of bytes actually received" % short, okb,
               "`%s`" % A.norm(decs[0]) if okb else
               "the remaining count is updated by %s, not by len(%s): short reads return truncated/padded packets"
               % ([A.norm(d) for d in decs], buf), ctx.loc(decs[0]) if decs else ctx.loc(loop))
        # (c) appended on every path from the receive to the next loop test
        rnode = [n for n in g.live if n.ast is st][0]
        apps = [n for n in g.live if n.kind == "stmt" and n.ast is not None and any(
            isinstance(c.func, ast.Attribute) and c.func.attr in ("append", "extend", "write") and c.args and
            A.src(c.args[0]) == buf for c in A.calls(n.ast))]
        tests = [n for n in g.live if n.kind == "test" and n.owner is loop]
        acc = None
        if apps:
            for c in A.calls(apps[0].ast):
                if isinstance(c.func, ast.Attribute) and c.func.attr in ("append", "extend", "write"):
                    acc = A.dotted(c.func.value)
        bad = None
        for s in [x for x, l in rnode.succ if l == "next"]:
            # a zero-length receive raises; other normal paths must append before testing the loop again
            p = Q.find_path(s, tests + [g.exit], avoid=apps, labels=("next", "true", "false"), skip_first=False)
            if p:
                bad = [rnode] + p
        rep.ob("R05.1", "%s.read: every received buffer is appended before the next iteration" % short, bool(apps) and bad is None,
               "`%s.append(%s)` lies on every normal path from the receive to the loop test" % (acc, buf) if apps and bad is None
               else "a received buffer can be dropped (the loop continues or returns without appending it)",
               ctx.loc(rc), witness=ctx.path(bad) if bad else None)
        # (e) zero-length receive -> raise EOFError
        ztests = [n for n in g.live if n.kind == "test" and isinstance(n.ast, ast.Name) and n.ast.id == buf]
        okz = False
        for zt in ztests:
            for s, l in zt.succ:
                if l == "false":
                    r = Q.reach([s], labels=("next", "true", "false"))
                    ends_raise = not (set(tests) & r) and g.exit not in r
                    raised = set()
                    for n in r:
                        if isinstance(n.ast, ast.Raise):
                            raised |= set(n.raises or ())
                    okz = ends_raise and EOFError in raised
        rep.ob("R05.1", "%s.read: a zero-length receive is end-of-stream" % short, okz,
               "`if not %s` leads only to raise EOFError" % buf if okz else
               "a zero-length receive (peer closed) is not turned into EOFError: the loop spins or returns short data",
               ctx.loc(rc))
    # (d) no break/return in the loop
    jumps = [n for n in A.walk(loop) if isinstance(n, (ast.Break, ast.Return))]
    rep.ob("R05.1", "%s.read: the loop's only normal exit is the exhausted count" % short, not jumps,
           "no break/return inside the loop" if not jumps else
           "`%s` leaves the read loop early: a short packet is returned" % A.norm(jumps[0]),
           ctx.loc(jumps[0]) if jumps else ctx.loc(loop), kind="site")
    # (f) retry handlers leave accumulator and count alone
    for h in [n for n in A.walk(loop) if isinstance(n, ast.ExceptHandler)]:
        conts = [n for n in A.walk(h) if isinstance(n, ast.Continue)]
        if not conts:
            continue
        touched = [n for n in A.walk(h) if (isinstance(n, (ast.AugAssign, ast.Assign)) and cnt in A.names_stored(n))
                   or (isinstance(n, ast.Call) and isinstance(n.func, ast.Attribute) and n.func.attr in ("append", "extend"))]
        rep.ob("R05.1", "%s.read: retry on `%s` does not touch count or data" % (short, A.src(h.type) if h.type else "any"),
               not touched, "handler only continues" if not touched else
               "a transient would-block/timeout alters the byte accounting: %s" % [A.norm(x) for x in touched], ctx.loc(h),
               kind="site")
    # transient conditions are retried, not treated as end-of-stream (socket streams only)
    if short == "SocketStream":
        import ast as _ast

        def tmo_raises(node_ast, kind):
            if node_ast is None or kind in ("with_exit", "except", "with_enter"):
                return set()
            if isinstance(node_ast, _ast.Raise):
                return None
            if any(c is rc for rc in recvs for c in A.calls(node_ast)):
                return {TimeoutError}
            return set()
        gt = ctx.cfg(f, raises=tmo_raises)
        rn = [n for n in gt.live if n.ast is not None and n.kind == "stmt" and any(c is recvs[0] for c in A.calls(n.ast))]
        heads = [n for n in gt.live if n.kind in ("test", "join") and getattr(n, "owner", None) is loop]
        stops = [n for n in gt.live if n.ast is not None and n.kind == "stmt" and (
            A.find_calls(n.ast, "self.close") or isinstance(n.ast, _ast.Raise))]
        okt2 = bool(rn)
        wit = None
        for n in rn:
            for t, l in n.succ:
                if l != "exc":
                    continue
                if t is gt.excexit:
                    okt2 = False
                    wit = [n, t]
                    continue
                vok = Q.valuation_edges(K.exc_instance_decider(gt, TimeoutError))
                head_ids = {x.id for x in heads}
                stop_ids = {x.id for x in stops} | {gt.exit.id}
                r = set(Q.reach_ef([t], lambda a, b, l: l != "exc" and vok(a, b, l)))
                pth = Q.find_path_ef([t], lambda x: x.id in stop_ids,
                                     lambda a, b, l: l != "exc" and vok(a, b, l) and b.id not in head_ids, skip_first=False)
                if pth is not None or not (set(heads) & r):
                    okt2 = False
                    wit = [n] + (pth or [t])
        rep.ob("R05.1", "%s.read: a receive timeout is retried, not treated as a failure" % short, okt2,
               "socket.timeout raised by recv() leads straight back to the loop" if okt2 else
               "a socket.timeout while reading reaches close()/raise: a healthy connection whose peer is merely slow for longer "
               "than the socket timeout is torn down in the middle of a packet", ctx.loc(recvs[0]),
               witness=ctx.path(wit) if wit else None)
        # would-block: an OSError whose errno is in retry_errnos (partial evaluation: the membership test is true, the
        # exception is not a timeout) must lead back to the loop head without close()/raise
        def os_raises(node_ast, kind):
            if node_ast is None or kind in ("with_exit", "except", "with_enter"):
                return set()
            if isinstance(node_ast, _ast.Raise):
                return None
            if any(c is rc for rc in recvs for c in A.calls(node_ast)):
                return {BlockingIOError}
            return set()
        go = ctx.cfg(f, raises=os_raises)
        rn2 = [n for n in go.live if n.ast is not None and n.kind == "stmt" and any(c is recvs[0] for c in A.calls(n.ast))]
        heads2 = {n.id for n in go.live if n.kind in ("test", "join") and getattr(n, "owner", None) is loop}
        stops2 = {n.id for n in go.live if n.ast is not None and n.kind == "stmt" and (
            A.find_calls(n.ast, "self.close") or isinstance(n.ast, _ast.Raise))} | {go.exit.id}
        inst = K.exc_instance_decider(go, BlockingIOError)

        import errno as _errno
        wb = {_errno.EAGAIN, _errno.EWOULDBLOCK}
        bad_member = []

        def dec(node):
            e = node.ast
            if isinstance(e, _ast.Compare) and len(e.ops) == 1 and isinstance(e.ops[0], _ast.In):
                tab = ctx.try_fold(e.comparators[0], f.module)
                if isinstance(tab, (tuple, list, set, frozenset)) and all(isinstance(x, int) for x in tab):
                    return wb <= set(tab)          # the error number of a would-block condition is in the table
                if tab is not None and not isinstance(tab, (tuple, list, set, frozenset, dict, str, bytes)):
                    bad_member.append((e, tab))
                    return None
            return inst(node)
        vok2 = Q.valuation_edges(dec)
        okw = bool(rn2)
        witw = None
        for n in rn2:
            for t, l in n.succ:
                if l != "exc":
                    continue
                if t is go.excexit:
                    okw, witw = False, [n, t]
                    continue
                pth = Q.find_path_ef([t], lambda x: x.id in stops2,
                                     lambda a, b, l: l != "exc" and vok2(a, b, l) and b.id not in heads2, skip_first=False)
                back = Q.find_path_ef([t], lambda x: x.id in heads2, lambda a, b, l: l != "exc" and vok2(a, b, l), skip_first=False)
                if pth is not None or back is None:
                    okw, witw = False, [n] + (pth or [t])
        if bad_member:
            okw = False
        rep.ob("R05.1", "%s.read: would-block conditions (EAGAIN/EWOULDBLOCK) are retried" % short, okw,
               "an OSError whose errno is in retry_errnos leads straight back to the loop" if okw else
               ("`%s`: the right operand is %r, not a collection - the test itself raises TypeError inside the handler, so a failed "
                "receive is neither retried nor turned into EOFError (the stream is not closed)" % (A.src(bad_member[0][0]), bad_member[0][1])
                if bad_member else
                "EAGAIN/EWOULDBLOCK while reading is treated as a failure (stream closed mid-packet)"), ctx.loc(loop),
               witness=ctx.path(witw) if witw else None)
    # the result is the concatenation of the accumulator
    rets = [n for n in A.walk(fn) if isinstance(n, ast.Return) and n.value is not None]
    okj = False
    for r in rets:
        v = r.value
        if isinstance(v, ast.Call) and isinstance(v.func, ast.Attribute) and v.func.attr == "join" and len(v.args) == 1:
            sep = ctx.try_fold(v.func.value)
            okj = sep == b"" and isinstance(v.args[0], ast.Name)
    rep.ob("R05.1", "%s.read: returns the in-order concatenation of what was received" % short, okj,
           "b''.join(<accumulator>)" if okj else "the return value is not the plain concatenation of the received buffers",
           ctx.loc(rets[-1]) if rets else f.loc, kind="site")
    return f, g


def check_write(ctx, rep, cls_qual):
    short = cls_qual.split(".")[-1]
    f = ctx.func(cls_qual + ".write")
    fn = f.node
    g = ctx.cfg(f, raises="default")
    rep.analysed(f, g)
    dat = A.params(fn)[1]
    sends = _os_calls(fn, SEND_NAMES)
    rep.floor("R05.2", "%s.write: OS send calls" % short, len(sends), 1)
    for sc in sends:
        d = A.call_name(sc) or ""
        if d.endswith(".sendall"):
            oka = len(sc.args) == 1 and A.src(sc.args[0]) == dat
            rep.ob("R05.2", "%s.write: sendall of the whole data" % short, oka, "sendall(%s)" % dat if oka else
                   "sendall is not given the whole data", ctx.loc(sc), kind="site")
            continue
        loop = A.enclosing(sc, ast.While)
        okl = loop is not None and isinstance(loop.test, ast.Name) and loop.test.id == dat
        rep.ob("R05.2", "%s.write: the send is repeated while data remains" % short, bool(okl),
               "`while %s:`" % dat if okl else
               "the OS send is not inside a `while <remaining data>` loop: a partial send truncates the packet", ctx.loc(sc))
        st = A.enclosing(sc, ast.stmt)
        nvar = st.targets[0].id if isinstance(st, ast.Assign) and isinstance(st.targets[0], ast.Name) and st.value is sc else None
        direct = isinstance(st, ast.Assign) and isinstance(st.targets[0], ast.Name) and st.targets[0].id == dat and \
            isinstance(st.value, ast.Subscript) and A.src(st.value.value) == dat and isinstance(st.value.slice, ast.Slice) and \
            st.value.slice.lower is sc and st.value.slice.upper is None and st.value.slice.step is None
        if direct:
            # `data = data[send(chunk):]`: the accepted count advances the data in the same statement
            rep.ob("R05.2", "%s.write: the number of bytes the OS accepted is kept" % short, True,
                   "`%s`" % A.norm(st), ctx.loc(sc))
            chunk = sc.args[-1] if sc.args else None
            if isinstance(chunk, ast.Name) and chunk.id != dat and loop is not None:
                cname = chunk.id
                for n in A.walk(loop):
                    if isinstance(n, ast.Assign) and isinstance(n.targets[0], ast.Name) and n.targets[0].id == cname:
                        chunk = n.value
                        break
            okc = (isinstance(chunk, ast.Name) and chunk.id == dat) or (
                isinstance(chunk, ast.Subscript) and isinstance(chunk.value, ast.Name) and chunk.value.id == dat
                and isinstance(chunk.slice, ast.Slice) and chunk.slice.lower is None and chunk.slice.step is None)
            rep.ob("R05.2", "%s.write: what is written is a prefix of the remaining data" % short, bool(okc),
                   "chunk `%s`" % A.src(chunk) if okc else "chunk `%s` is not a prefix of the remaining data" % A.src(chunk), ctx.loc(sc))
            rep.ob("R05.2", "%s.write: the remaining data advances by exactly the bytes accepted" % short, True,
                   "`%s`" % A.norm(st), ctx.loc(st))
            jumps = [n for n in A.walk(loop) if isinstance(n, (ast.Break, ast.Return))] if loop is not None else []
            rep.ob("R05.2", "%s.write: the loop ends only when everything was written" % short, not jumps,
                   "no break/return in the write loop" if not jumps else "`%s` leaves the write loop early" % A.norm(jumps[0]),
                   ctx.loc(jumps[0]) if jumps else ctx.loc(loop), kind="site")
            continue
        rep.ob("R05.2", "%s.write: the number of bytes the OS accepted is kept" % short, nvar is not None,
               "`%s`" % A.norm(st) if nvar else "the return value of the OS send is ignored (assumes a complete write)",
               ctx.loc(sc))
        # the chunk is a prefix slice of the remaining data (directly or through a local)
        chunk = sc.args[-1] if sc.args else None
        if isinstance(chunk, ast.Name) and chunk.id != dat and loop is not None:
            cname = chunk.id
            for n in A.walk(loop):
                if isinstance(n, ast.Assign) and isinstance(n.targets[0], ast.Name) and n.targets[0].id == cname:
                    chunk = n.value
        okc = (isinstance(chunk, ast.Name) and chunk.id == dat) or (
            isinstance(chunk, ast.Subscript) and isinstance(chunk.value, ast.Name) and chunk.value.id == dat
            and isinstance(chunk.slice, ast.Slice) and chunk.slice.lower is None and chunk.slice.step is None)
        rep.ob("R05.2", "%s.write: what is written is a prefix of the remaining data" % short, bool(okc),
               "chunk `%s`" % A.src(chunk) if okc else "chunk `%s` is not a prefix of the remaining data" % A.src(chunk),
               ctx.loc(sc))
        if nvar and loop is not None:
            adv = [n for n in A.walk(loop) if isinstance(n, ast.Assign) and isinstance(n.targets[0], ast.Name)
                   and n.targets[0].id == dat]
            oka = len(adv) == 1 and isinstance(adv[0].value, ast.Subscript) and A.src(adv[0].value.value) == dat and \
                isinstance(adv[0].value.slice, ast.Slice) and adv[0].value.slice.upper is None and \
                adv[0].value.slice.lower is not None and A.src(adv[0].value.slice.lower) == nvar
            rep.ob("R05.2", "%s.write: the remaining data advances by exactly the bytes accepted" % short, oka,
                   "`%s`" % A.norm(adv[0]) if oka else
                   "the remaining data is advanced by %s, not by the OS-reported count `%s`: bytes are lost or repeated"
                   % ([A.norm(a) for a in adv], nvar), ctx.loc(adv[0]) if adv else ctx.loc(loop))
            jumps = [n for n in A.walk(loop) if isinstance(n, (ast.Break, ast.Return))]
            rep.ob("R05.2", "%s.write: the loop ends only when everything was written" % short, not jumps,
                   "no break/return in the write loop" if not jumps else "`%s` leaves the write loop early" % A.norm(jumps[0]),
                   ctx.loc(jumps[0]) if jumps else ctx.loc(loop), kind="site")
    return f, g


def check_failure(ctx, rep, cls_qual, f, g, what):
    """R05.3 on one read/write function"""
    short = cls_qual.split(".")[-1]
    closes = [n for n in g.live if n.kind == "stmt" and n.ast is not None and A.find_calls(n.ast, "self.close")]
    handlers = [n for n in g.live if n.kind == "except"]
    rep.floor("R05.3", "%s.%s: transport-error handlers" % (short, what), len(handlers), 1)
    loops = [n for n in g.live if n.kind in ("test", "join") and isinstance(getattr(n, "owner", None), ast.While)]
    for h in handlers:
        tname = A.src(h.ast.type) if h.ast.type is not None else "<bare>"
        r = Q.reach([h], labels=("next", "true", "false"))
        conts = [n for n in r if isinstance(n.ast, ast.Continue)]
        falls = g.exit in r
        # paths to the exceptional exit must close and raise EOFError
        bad = None
        raised = set()
        for n in Q.reach([h]):
            if isinstance(n.ast, ast.Raise) and A.contains(h.ast, n.ast) and \
                    any(t is g.excexit for t, l in n.succ if l == "exc"):
                raised |= set(n.raises or ())
                p = Q.find_path_ef(h, lambda x, n=n: x is n, lambda a, b, l: l != "exc" and a not in closes, skip_first=True)
                if p and not any(x in closes for x in p):
                    bad = p
        okc = bad is None
        rep.ob("R05.3", "%s.%s: `except %s` closes the stream before the error leaves" % (short, what, tname), okc,
               "every raising path of the handler passes through self.close()" if okc else
               "a transport failure is re-raised without closing the stream: later I/O reaches the dead descriptor instead of "
               "failing fast with EOFError", ctx.loc(h), witness=ctx.path(bad) if bad else None)
        oke = (not raised) or all(issubclass(k, EOFError) for k in raised)
        rep.ob("R05.3", "%s.%s: `except %s` surfaces as EOFError" % (short, what, tname), oke,
               "raises %s" % sorted(k.__name__ for k in raised) if oke else
               "the handler raises %s instead of EOFError" % sorted(k.__name__ for k in raised), ctx.loc(h))
        # a handler that hands control back to the loop head (by `continue` or by falling off the end of the loop body) retries;
        # one that reaches the function's normal exit without going through a loop head swallows the failure
        head_ids = {x.id for x in loops}
        swallow = Q.find_path_ef([h], lambda x: x is g.exit, lambda a, b, l: l != "exc" and b.id not in head_ids)
        retries = falls and swallow is None and any(x.id in head_ids for x in r)
        if falls and not retries:
            rep.ob("R05.3", "%s.%s: `except %s` does not swallow the failure" % (short, what, tname), False,
                   "the handler can fall through to a normal return: the caller gets a shortened packet / believes the write "
                   "completed", ctx.loc(h), witness=ctx.path(swallow) if swallow else None)
        elif retries:
            # continue re-enters the loop: only legitimate for transient conditions
            rep.ob("R05.3", "%s.%s: `except %s` retries" % (short, what, tname), True,
                   "handler continues the loop (transient condition); byte accounting untouched (R05.1)", ctx.loc(h),
                   nontrivial=False)
    # explicit raises of EOFError outside handlers (zero-length read): closed first
    for n in g.live:
        if isinstance(n.ast, ast.Raise) and n.ast.exc is not None and EOFError in (n.raises or ()):
            if A.enclosing(n.ast, ast.ExceptHandler) is not None:
                continue
            # either close dominates, or the raise is caught by a local handler that closes (PipeStream)
            dom = Q.dominators(g)
            local = [t for t, l in n.succ if l == "exc" and t.kind == "except"]
            okd = any(c.id in dom[n.id] for c in closes) or bool(local)
            rep.ob("R05.3", "%s.%s: end-of-stream closes before raising" % (short, what), okd,
                   "self.close() precedes `raise EOFError` (directly or in the local handler)" if okd else
                   "EOFError is raised for end-of-stream without closing the stream", ctx.loc(n))


def check_oserror_coverage(ctx, rep, cls_qual, what, names):
    """typed exceptional edges: the OS-level call raises OSError (socket.timeout is one); no OSError may leave the
    function raw"""
    short = cls_qual.split(".")[-1]
    f = ctx.func(cls_qual + "." + what)
    oscalls = _os_calls(f.node, names)

    def raises(node_ast, kind):
        if node_ast is None or kind in ("with_exit", "except", "with_enter"):
            return set()
        if isinstance(node_ast, ast.Raise):
            return None
        if any(c is oc for oc in oscalls for c in A.calls(node_ast)):
            return {OSError}
        return set()
    g = ctx.cfg(f, raises=raises)
    leaks = set()
    for (a, b), ts in g.etypes.items():
        if b == g.excexit.id:
            for t in ts:
                if not issubclass(t, EOFError):
                    leaks.add(t.__name__)
    rep.ob("R05.3", "%s.%s: no transport error leaves the function raw" % (short, what), not leaks,
           "every OSError raised by the OS call (timeouts included) is caught and converted" if not leaks else
           "an OSError of the OS call that is not covered by the handler (e.g. socket.timeout / TimeoutError when only "
           "ConnectionError is caught) leaves %s() as %s: the stream is not closed and the caller does not get EOFError - a "
           "half-written frame is followed by the next packet" % (what, sorted(leaks)), f.loc)


def check_close(ctx, rep, cls_qual, field):
    short = cls_qual.split(".")[-1]
    f = ctx.func(cls_qual + ".close")
    g = ctx.cfg(f, raises=_close_raises)
    rep.analysed(f, g)
    stores = [n for n in g.live if n.kind == "stmt" and isinstance(n.ast, ast.Assign) and any(
        K.self_attr(t, field) for t in n.ast.targets) and A.src(n.ast.value) == "ClosedFile"]
    p = Q.find_path(g.entry, [g.exit], avoid=stores, labels=("next", "true", "false"))
    ok = bool(stores) and p is None
    rep.ob("R05.3", "%s.close: leaves the stream closed on every normal path" % short, ok,
           "self.%s = ClosedFile on every normal path" % field if ok else
           "close() can return without marking the stream closed", f.loc, witness=ctx.path(p) if p else None)
    pe = Q.find_path(g.entry, [g.excexit], avoid=stores)
    rep.ob("R05.3", "%s.close: a failing shutdown does not prevent closing" % short, pe is None,
           "no exceptional exit before the stream is marked closed (shutdown errors are swallowed; close() of the OS object "
           "is taken as non-raising)" if pe is None else
           "an error while shutting down leaves close() before the stream is marked closed",
           f.loc, witness=ctx.path(pe) if pe else None)
    if field == "sock":
        # an open socket is shut down in both directions before the descriptor is closed: close() alone neither wakes a
        # thread of this process blocked in poll()/recv() on it nor ends the stream for the peer while another holder of the
        # descriptor (a forked child) is alive
        shut = [n for n in g.live if n.kind == "stmt" and n.ast is not None and any(
            (A.call_name(c) or "") == "self.%s.shutdown" % field and c.args and A.src(c.args[0]).endswith("SHUT_RDWR")
            for c in A.calls(n.ast))]
        osclose = [n for n in g.live if n.kind == "stmt" and n.ast is not None and any(
            (A.call_name(c) or "") == "self.%s.close" % field for c in A.calls(n.ast))]
        sid = {n.id for n in shut}

        def open_edges(a, b, l):
            if l == "exc":
                return False
            if a.kind == "test" and A.src(a.ast) == "self.closed" and l == "true":
                return False          # already closed: nothing to shut down
            return b.id not in sid
        pth = Q.find_path_ef([g.entry], lambda n: n in osclose, open_edges) if osclose else None
        oks = bool(shut) and bool(osclose) and pth is None
        rep.ob("R05.3", "%s.close: an open socket is shut down (SHUT_RDWR) before its descriptor is closed" % short, oks,
               "shutdown(SHUT_RDWR) precedes close() on every path of a still-open stream" if oks else
               "close() no longer shuts the socket down: a thread blocked in poll()/recv() on it is not woken and, while any "
               "other holder of the descriptor lives (forked child), the peer never sees end-of-stream",
               ctx.loc(osclose[0]) if osclose else f.loc, witness=ctx.path(pth) if pth else None)
    c = ctx.cls(cls_qual)
    cp = c.methods.get("closed")
    okp = cp is not None and A.src(cp.node.body[-1]).replace(" ", "") == "returnself.%sisClosedFile" % field
    rep.ob("R05.3", "%s.closed: true exactly when the OS object was replaced by ClosedFile" % short, bool(okp),
           "`return self.%s is ClosedFile`" % field if okp else "closed property changed", cp.loc if cp else f.loc, kind="site")


def _close_raises(node_ast, kind):
    # close() of the OS object itself is taken as non-raising (DESIGN R05.3); attribute stores on self are benign
    if node_ast is None:
        return None
    for c in A.calls(node_ast):
        d = A.call_name(c) or ""
        if d.endswith(".close") and d.startswith("self.") and d.count(".") == 2:
            return set()
    return None


# ---------------------------------------------------------------------------------- Channel frame layout
class _Sub(ast.NodeTransformer):
    def __init__(self, env):
        self.env = env

    def visit_Name(self, node):
        if isinstance(node.ctx, ast.Load) and node.id in self.env:
            return A.clone(self.env[node.id])
        return node


def _sub(e, env):
    return _Sub(env).visit(A.clone(e))


def channel_send_paths(ctx):
    """symbolic paths of Channel.send: [(guards[(expr, pol)], writes[expr])] with locals substituted"""
    f = ctx.func("rpyc.core.channel.Channel.send")

    def block(stmts, states):
        for st in stmts:
            new = []
            for guards, writes, env, done in states:
                if done:
                    new.append((guards, writes, env, done))
                    continue
                if isinstance(st, ast.Expr) and isinstance(st.value, ast.Constant) or isinstance(st, ast.Pass):
                    new.append((guards, writes, env, done))
                elif isinstance(st, ast.Assign) and len(st.targets) == 1 and isinstance(st.targets[0], ast.Name):
                    e2 = dict(env)
                    e2[st.targets[0].id] = _sub(st.value, env)
                    new.append((guards, writes, e2, done))
                elif isinstance(st, ast.Assign) and len(st.targets) == 1 and isinstance(st.targets[0], ast.Tuple) and \
                        all(isinstance(t, ast.Name) for t in st.targets[0].elts):
                    val = _sub(st.value, env)
                    if not (isinstance(val, ast.Tuple) and len(val.elts) == len(st.targets[0].elts)):
                        raise AnalysisError("Channel.send: unsupported statement `%s`" % A.norm(st)[:60])
                    e2 = dict(env)
                    for t, v in zip(st.targets[0].elts, val.elts):
                        e2[t.id] = v
                    new.append((guards, writes, e2, done))
                elif isinstance(st, ast.If):
                    tst = _sub(st.test, env)
                    pos = True
                    while isinstance(tst, ast.UnaryOp) and isinstance(tst.op, ast.Not):
                        tst, pos = tst.operand, not pos
                    if isinstance(tst, ast.Constant):
                        # the test is a local that holds a constant on this path (a flag computed up front): only the matching
                        # branch is feasible
                        taken = st.body if bool(tst.value) == pos else st.orelse
                        new += block(taken, [(guards, writes, env, False)])
                        continue
                    new += block(st.body, [(guards + [(tst, pos)], writes, env, False)])
                    new += block(st.orelse, [(guards + [(tst, not pos)], writes, env, False)])
                elif isinstance(st, ast.Return) and (st.value is None or isinstance(st.value, ast.Constant) and st.value.value is None):
                    new.append((guards, writes, env, True))
                elif isinstance(st, ast.For) and not st.orelse and isinstance(st.target, ast.Name) and \
                        isinstance(_sub(st.iter, env), (ast.Tuple, ast.List)) and \
                        not any(isinstance(x, (ast.Break, ast.Continue)) for b_ in st.body for x in ast.walk(b_)):
                    # a loop over a display of chunks built on this path: one iteration per element, in order
                    sts_ = [(guards, writes, env, False)]
                    for el_ in _sub(st.iter, env).elts:
                        nxt_ = []
                        for g_, w_, e_, d_ in sts_:
                            if d_:
                                nxt_.append((g_, w_, e_, d_))
                                continue
                            e2 = dict(e_)
                            e2[st.target.id] = el_
                            nxt_ += block(st.body, [(g_, w_, e2, False)])
                        sts_ = nxt_
                    new += sts_
                elif isinstance(st, ast.Expr) and isinstance(st.value, ast.Call) and \
                        A.call_name(_sub(st.value, env)) in ("self.stream.write",) and len(st.value.args) == 1:
                    new.append((guards, writes + [(_sub(st.value.args[0], env), st)], env, done))
                else:
                    raise AnalysisError("Channel.send: unsupported statement `%s`" % A.norm(st)[:60])
            states = new
        return states
    return f, [(g, w, e) for g, w, e, d in block(f.node.body, [([], [], {}, False)])]


def flatten_concat(e):
    if isinstance(e, ast.BinOp) and isinstance(e.op, ast.Add):
        return flatten_concat(e.left) + flatten_concat(e.right)
    return [e]


def check_channel(ctx, rep, rule="R05.4"):
    f, paths = channel_send_paths(ctx)
    rep.analysed(f)
    prm = A.params(f.node)[1]
    hdr = ctx.class_const("rpyc.core.channel.Channel", "FRAME_HEADER")
    flusher = ctx.class_const("rpyc.core.channel.Channel", "FLUSHER")
    if not isinstance(hdr, StructVal):
        raise AnalysisError("Channel.FRAME_HEADER does not fold to a Struct")
    rep.floor(rule, "symbolic paths of Channel.send", len(paths), 4)
    info = {"header": hdr.format, "flusher": flusher, "paths": len(paths)}
    thr_v = ctx.class_const("rpyc.core.channel.Channel", "COMPRESSION_THRESHOLD")

    def enabled(guards, c, n):
        """are the compression-related guards of a path satisfied when self.compress == c and len(data) == n?"""
        from ..safeeval import ev as _ev, CannotEval as _CE

        class Env(dict):
            def lookup(self, e):
                d = A.dotted(e)
                if d == "self.compress":
                    return True, c
                if d and d.startswith("self.") and d.count(".") == 1:
                    try:
                        return True, ctx.class_const("rpyc.core.channel.Channel", d[5:])
                    except AnalysisError:
                        pass
                return False, None

        def hook(call):
            if A.call_name(call) == "len" and len(call.args) == 1 and A.src(call.args[0]) == prm:
                return True, n
            return False, None
        for gexp, pol in guards:
            if "self.compress" not in A.src(gexp):
                continue
            try:
                if bool(_ev(gexp, Env(), {"*": hook})) != pol:
                    return False
            except _CE:
                return None
        return True
    decision_bad = []
    for guards, writes, env in paths:
        pay_compressed = any("zlib.compress(" in A.src(w) for w, _ in writes) or any(
            "zlib.compress(" in A.src(v) for v in env.values())
        for c in (False, True):
            for n in (0, 1, thr_v - 1, thr_v, thr_v + 1, 70000):
                en = enabled(guards, c, n)
                if en is None:
                    decision_bad.append("guard not evaluable")
                elif en and pay_compressed != (bool(c) and n > thr_v):
                    decision_bad.append("compress=%s, %d bytes -> %s" % (c, n, "compressed" if pay_compressed else "plain"))
    for guards, writes, env in paths:
        comp = any("zlib.compress(" in A.src(w) for w, _ in writes) or any("zlib.compress(" in A.src(v) for v in env.values())
        atoms = []
        for w, st in writes:
            atoms += flatten_concat(w)
        srcs = [A.src(a) for a in atoms]
        payload = "zlib.compress(%s, self.COMPRESSION_LEVEL)" % prm if comp else prm
        # accept any compression level argument form
        if comp:
            cands = [s for s in srcs if s.startswith("zlib.compress(%s" % prm)]
        flag = "1" if comp else "0"
        key = "Channel.send: frame on the %s path (%s write%s)" % (
            "compressed" if comp else "plain", len(writes), "s" if len(writes) != 1 else "")
        # normalise the payload expression
        def is_payload(s):
            if comp:
                try:
                    e = ast.parse(s, mode="eval").body
                except SyntaxError:
                    return False
                # the zlib container format: zlib.compress(payload[, level]) - no wbits / raw-deflate variants
                return isinstance(e, ast.Call) and A.call_name(e) == "zlib.compress" and 1 <= len(e.args) <= 2 and \
                    A.src(e.args[0]) == prm and all(k.arg == "level" for k in e.keywords)
            return s == prm
        ok = True
        why = []
        if len(srcs) < 3:
            ok = False
            why.append("fewer than three pieces are written")
        else:
            h = atoms[0]
            okh = isinstance(h, ast.Call) and A.call_name(h) == "self.FRAME_HEADER.pack" and len(h.args) == 2
            if okh:
                l_arg, f_arg = A.src(h.args[0]), A.src(h.args[1])
                if not (l_arg.startswith("len(") and is_payload(l_arg[4:-1])):
                    ok = False
                    why.append("the header packs length `%s`, not the length of the payload actually written" % l_arg)
                if f_arg != flag:
                    ok = False
                    why.append("the header's compression flag is `%s` on the %s path" % (f_arg, "compressed" if comp else "plain"))
            else:
                ok = False
                why.append("the first piece written is `%s`, not FRAME_HEADER.pack(len, flag)" % srcs[0][:60])
            if srcs[-1] != "self.FLUSHER":
                ok = False
                why.append("the last piece written is `%s`, not the flusher" % srcs[-1][:60])
            mid = atoms[1:-1]
            if len(mid) == 1:
                if not is_payload(A.src(mid[0])):
                    ok = False
                    why.append("the payload written is `%s`" % A.src(mid[0])[:80])
            elif len(mid) == 2:
                a, b = mid
                oks = isinstance(a, ast.Subscript) and isinstance(b, ast.Subscript) and \
                    isinstance(a.slice, ast.Slice) and isinstance(b.slice, ast.Slice) and \
                    is_payload(A.src(a.value)) and is_payload(A.src(b.value)) and a.slice.lower is None and \
                    b.slice.upper is None and a.slice.upper is not None and b.slice.lower is not None and \
                    A.src(a.slice.upper) == A.src(b.slice.lower) and a.slice.step is None and b.slice.step is None
                if not oks:
                    ok = False
                    why.append("the two payload pieces `%s` / `%s` are not complementary slices of the payload"
                               % (A.src(a)[:60], A.src(b)[:60]))
            else:
                ok = False
                why.append("%d payload pieces" % len(mid))
        rep.ob(rule, key, ok, "header(len(payload), %s) + payload + flusher, in order" % flag if ok else "; ".join(why),
               ctx.loc(writes[0][1]) if writes else f.loc)
    # compression decision: semantic evaluation of the path guards on (switch, size) valuations
    rep.ob(rule, "Channel.send: compression decided by the switch and the payload size only", not decision_bad,
           "compressed exactly when self.compress and len(data) > COMPRESSION_THRESHOLD (12 valuations x %d paths)" % len(paths)
           if not decision_bad else "the compressed/plain choice is wrong for: %s" % "; ".join(sorted(set(decision_bad))[:4]),
           f.loc, kind="table")
    thr = ("Gt", "self.COMPRESSION_THRESHOLD")
    info["threshold"] = thr

    # ---- recv (symbolic: locals are inlined, the two class constants folded)
    fr = ctx.func("rpyc.core.channel.Channel.recv")
    rep.analysed(fr)
    hsize = hdr.size
    fl = len(flusher)

    class Canon(ast.NodeTransformer):
        def visit_Attribute(self, node):
            self.generic_visit(node)
            if A.src(node) == "self.FRAME_HEADER.size":
                return ast.Constant(value=hsize)
            return node

        def visit_Call(self, node):
            self.generic_visit(node)
            if A.src(node) == "len(self.FLUSHER)":
                return ast.Constant(value=fl)
            if isinstance(node.func, ast.Name) and node.func.id == "tuple" and len(node.args) == 1 and not node.keywords and \
                    isinstance(node.args[0], ast.Call) and isinstance(node.args[0].func, ast.Attribute) and \
                    node.args[0].func.attr == "unpack":
                return node.args[0]          # Struct.unpack already returns a tuple
            return node

    def canon(e):
        return A.src(ast.fix_missing_locations(Canon().visit(A.clone(e))))
    results = []      # (guards, returned expr) per path

    def rblock(stmts, states):
        """states: [(guards, env)] still running; returns the states that fall off the end of the block"""
        for st in stmts:
            new = []
            for guards, env in states:
                if isinstance(st, ast.Expr) and isinstance(st.value, ast.Constant) or isinstance(st, ast.Pass):
                    new.append((guards, env))
                elif isinstance(st, ast.Assign) and len(st.targets) == 1:
                    val = _sub(st.value, env)
                    t = st.targets[0]
                    env = dict(env)
                    if isinstance(t, ast.Name):
                        env[t.id] = val
                    elif isinstance(t, ast.Tuple) and all(isinstance(e, ast.Name) for e in t.elts):
                        for i, e in enumerate(t.elts):
                            env[e.id] = ast.Subscript(value=A.clone(val), slice=ast.Constant(value=i), ctx=ast.Load())
                    else:
                        raise AnalysisError("Channel.recv: unsupported assignment")
                    new.append((guards, env))
                elif isinstance(st, ast.If):
                    tst = _sub(st.test, env)
                    pol = True
                    while isinstance(tst, ast.UnaryOp) and isinstance(tst.op, ast.Not):
                        tst, pol = tst.operand, not pol
                    new += rblock(st.body, [(guards + [(tst, pol)], env)])
                    new += rblock(st.orelse, [(guards + [(tst, not pol)], env)])
                elif isinstance(st, ast.Return) and st.value is not None:
                    results.append((guards, _sub(st.value, env)))
                else:
                    raise AnalysisError("Channel.recv: unsupported statement `%s`" % A.norm(st)[:60])
            states = new
        return states
    fell = rblock(fr.node.body, [([], {})])
    H = "self.FRAME_HEADER.unpack(self.stream.read(%d))" % hsize
    raw_forms = {"self.stream.read(%s[0] + %d)[:-%d]" % (H, fl, fl), "self.stream.read(%s[0] + %d)[:%s[0]]" % (H, fl, H)}
    flag = "%s[1]" % H
    # value returned when the flag is set / clear: paths guarded by the flag select, conditional expressions are split
    by_flag = {True: set(), False: set()}
    okr = bool(results) and not fell
    for guards, val in results:
        pols = set()
        for gexp, pol in guards:
            if canon(gexp) == flag:
                pols.add(pol)
            else:
                okr = False       # the result depends on something other than the flag
        if len(pols) > 1:
            continue              # infeasible path
        vals = {True: val, False: val}
        if isinstance(val, ast.IfExp) and canon(val.test) == flag:
            vals = {True: val.body, False: val.orelse}
        elif isinstance(val, ast.IfExp) and isinstance(val.test, ast.UnaryOp) and isinstance(val.test.op, ast.Not) and \
                canon(val.test.operand) == flag:
            vals = {True: val.orelse, False: val.body}
        for pv in (pols or {True, False}):
            by_flag[pv].add(canon(vals[pv]))
    got = "flag set: %s; flag clear: %s" % (sorted(by_flag[True]) or "<no return>", sorted(by_flag[False]) or "<no return>")
    if okr:
        okr = len(by_flag[True]) == 1 and len(by_flag[False]) == 1
    if okr:
        raw = list(by_flag[False])[0]
        okr = raw in raw_forms and list(by_flag[True])[0] == "zlib.decompress(%s)" % raw
    rep.ob(rule, "Channel.recv: header, payload+flusher, strip flusher, decompress iff flag", okr,
           "reads FRAME_HEADER.size bytes, unpacks (length, flag) with the same struct, reads length+len(FLUSHER), strips the "
           "flusher from the end, decompresses iff the flag is set" if okr else
           "Channel.recv computes `%s`, which is not `decompress(P) if flag else P` with P = read(length + len(FLUSHER)) minus "
           "the trailing flusher" % got, fr.loc)
    return info


def run(ctx, rep):
    rep.rule("R05.1", "exact-read loop discipline: bounded request, count decreases by bytes received, every buffer kept, "
                      "no early exit, zero-length receive = EOF, retries leave the accounting alone")
    rep.rule("R05.2", "complete-write loop discipline: the OS-accepted count advances the remaining data inside a while-data loop")
    rep.rule("R05.3", "failure => closed stream + EOFError; close() always leaves closed true")
    rep.rule("R05.4", "frame layout agreement between Channel.send and Channel.recv (header(len, flag) + payload + flusher)")
    rep.rule("R05.5", "FIFO hand-off of packets to the transport (append / pop(0))")
    rep.rule("R05.6", "a closed stream fails fast: no cached descriptor numbers or poll objects")
    rep.rule("R05.10", "nothing the transport layers do hides inside an assert (python -O would skip it)")
    from . import hygiene as H_a
    H_a.no_effects_in_assert(ctx, rep, "R05.10", ["rpyc.core.channel", "rpyc.core.stream", "rpyc.core.protocol", "rpyc.core.brine",
                                                 "rpyc.core.vinegar", "rpyc.core.netref", "rpyc.core.async_", "rpyc.lib.compat",
                                                 "rpyc.lib", "rpyc.lib.colls", "rpyc.utils.server", "rpyc.utils.classic"],
                             pure_extra=("brine.dumpable", "dumpable"))
    rep.assume("kernel fragmentation behaviour and zlib correctness are trusted",
               "Win32PipeStream / NamedPipeStream are dead code on this platform and not armed",
               "close() of the OS-level object is taken as non-raising")
    # every channel / stream object has its own buffers: no mutable class-level or default-argument state (a frame prefix kept in
    # a class attribute is shared by all connections of the process - two threads sending on different connections overwrite it)
    from . import hygiene as H0
    for cq0 in ("rpyc.core.channel.Channel",) + tuple(STREAMS):
        H0.private_state(ctx, rep, "R05.6", cq0)
    fields = {"rpyc.core.stream.SocketStream": "sock", "rpyc.core.stream.PipeStream": "incoming"}
    decided = _stream_model(ctx, rep)
    for cq in STREAMS:
        for op, names in (("read", RECV_NAMES), ("write", SEND_NAMES)):
            fop = ctx.func(cq + "." + op)
            if decided.get((cq, op)) and not _os_calls(fop.node, names):
                # the OS call sits in a helper / closure the structural loop rules do not look into: the loop is decided by the
                # model evaluation (R05.9) alone
                rep.info("%s.%s: no direct OS %s call in the method body; loop discipline decided by R05.9" % (cq.split(".")[-1], op, op))
                continue
            # when the loop was decided correct by evaluation (R05.9), the structural reading of the same loop only corroborates:
            # its failures (a helper inlined in a shape the pattern does not know) are not reported
            f, g = (check_read if op == "read" else check_write)(ctx, _Corroborate(rep) if decided.get((cq, op)) else rep, cq)
            check_failure(ctx, rep, cq, f, g, op)
            check_oserror_coverage(ctx, rep, cq, op, names)
        check_close(ctx, rep, cq, fields[cq])
    _channel_model(ctx, rep)
    try:
        check_channel(ctx, rep)
    except AnalysisError as e_:
        # the symbolic executor does not model this shape of send()/recv(): the model evaluation (R05.8) still decides the
        # framing on its packet sequences; the path-by-path layout rule is undecided
        rep.undecided("R05.4", "symbolic paths of Channel.send/recv", str(e_))
    # R05.5 shares R12.4
    from ..report import Report
    from . import c12
    sub = Report("C12", rep.tier)
    c12.run(ctx, sub)
    for o in sub.obs:
        if o.rule == "R12.4":
            rep.ob("R05.5", o.key, o.ok, o.msg, o.loc, o.witness, o.nontrivial, o.kind)
    from . import hygiene as H
    H.no_cached_descriptor(ctx, rep, "R05.6", STREAMS)
    check_raw_descriptor_writes(ctx, rep)


def check_raw_descriptor_writes(ctx, rep):
    """R05.7: a stream that writes with os.write() on the descriptor of a file OBJECT handed to it bypasses that object's
    user-space buffer; whatever is still buffered there would reach the pipe after (between) the frames. Such a stream must
    flush the object when it takes it over (or before each raw write)."""
    rep.rule("R05.7", "raw descriptor writes do not overtake bytes buffered in the file object: the stream flushes the object it "
                      "takes over")
    n_sites = 0
    for cq, c in sorted(ctx.repo.classes.items()):
        if c.module.name != "rpyc.core.stream":
            continue
        fw = c.methods.get("write")
        if fw is None:
            continue
        flds = set()
        for call in A.calls(fw.node, into_scopes=True):
            if A.call_name(call) == "os.write" and call.args:
                a0 = call.args[0]
                if isinstance(a0, ast.Call) and isinstance(a0.func, ast.Attribute) and a0.func.attr == "fileno" and \
                        K.self_attr(a0.func.value):
                    flds.add(a0.func.value.attr)
        for fld in sorted(flds):
            n_sites += 1
            fi = c.methods.get("__init__")
            src_params = set()
            flushed = False
            for fn_ in [m for m in (fi, fw) if m is not None]:
                for n in A.walk(fn_.node):
                    if isinstance(n, ast.Assign) and any(K.self_attr(t, fld) for t in n.targets) and isinstance(n.value, ast.Name):
                        src_params.add(n.value.id)
            for fn_ in [m for m in (fi, fw) if m is not None]:
                for call in A.calls(fn_.node):
                    if isinstance(call.func, ast.Attribute) and call.func.attr == "flush":
                        b = call.func.value
                        if K.self_attr(b, fld) or (isinstance(b, ast.Name) and b.id in src_params and fn_ is fi):
                            flushed = True
            rep.ob("R05.7", "%s: the file object behind self.%s is flushed before the stream writes to its descriptor" % (c.name, fld),
                   flushed, "flush() when the object is taken over" if flushed else
                   "%s.write uses os.write(self.%s.fileno(), ...) but the object's own buffer is never flushed: bytes written through "
                   "the file object before the stream took it over (a banner on stdout) are emitted later, in between frames"
                   % (c.name, fld), (fi or fw).loc, kind="site")
    rep.floor("R05.7", "streams writing to the raw descriptor of a file object", n_sites, 1)


def _channel_model(ctx, rep):
    """R05.8: Channel.__init__/send/recv evaluated (sa/miniinterp.py) on a model stream (tiny MAX_IO_CHUNK, every write recorded)
    for sequences of packets around the thresholds - including a packet whose compressed form is exactly as long as another,
    uncompressed packet of the same sequence, empty packets in the middle, and both compression settings. The recorded wire
    bytes are parsed by a reference reader (header(len, flag) + payload + flusher per packet) and fed to a second channel."""
    import struct as _struct
    from .. import miniinterp as MI
    rep.rule("R05.8", "model evaluation of the frame layer: every sequence of packets is written as header(len, flag) + payload + "
                      "flusher per packet and read back as the same sequence")
    CH = "rpyc.core.channel.Channel"
    c = ctx.cls(CH)
    meths = {n: m.node for n, m in c.methods.items()}
    for n_ in ("__init__", "send", "recv"):
        if n_ not in meths:
            raise AnalysisError("Channel.%s not found" % n_)
        rep.analysed(c.methods[n_])
    hdr = ctx.class_const(CH, "FRAME_HEADER")
    flusher = ctx.class_const(CH, "FLUSHER")
    thr = ctx.class_const(CH, "COMPRESSION_THRESHOLD")

    class _Struct:
        mi_native = True

        def __init__(self, fmt):
            self.format, self.size = fmt, _struct.calcsize(fmt)

        def pack(self, *a):
            try:
                return _struct.pack(self.format, *a)
            except (_struct.error, TypeError):
                raise MI.Raised("struct.error")

        def unpack(self, b):
            try:
                return _struct.unpack(self.format, bytes(b))
            except (_struct.error, TypeError):
                raise MI.Raised("struct.error")

        def pack_into(self, buf, off, *a):
            try:
                _struct.pack_into(self.format, buf, off, *a)
            except (_struct.error, TypeError):
                raise MI.Raised("struct.error")

        def unpack_from(self, b, off=0):
            try:
                return _struct.unpack_from(self.format, bytes(b), off)
            except (_struct.error, TypeError):
                raise MI.Raised("struct.error")

    class _Stream:
        mi_native = True
        MAX_IO_CHUNK = 64

        def __init__(self, data=b""):
            self.buf, self.writes, self.closed = bytes(data), [], False

        def write(self, b):
            if not isinstance(b, (bytes, bytearray)):
                raise MI.Raised("TypeError")
            self.writes.append(bytes(b))

        def read(self, n):
            if not isinstance(n, int) or n < 0:
                raise MI.Raised("ValueError")
            if len(self.buf) < n:
                raise MI.Raised("EOFError")
            out, self.buf = self.buf[:n], self.buf[n:]
            return out

        def poll(self, t):
            return bool(self.buf)

        def close(self):
            self.closed = True

    comp_of, orig_of = {}, {}

    def z_compress(data, *a, **k):
        data = bytes(data)
        if data not in comp_of:
            out = (b"\x78" + bytes([len(comp_of) + 1]) + b"z" * max(0, len(data) // 100 - 2))
            comp_of[data], orig_of[out] = out, data
        return comp_of[data]

    def z_decompress(data, *a, **k):
        if bytes(data) not in orig_of:
            raise MI.Raised("zlib.error")
        return orig_of[bytes(data)]

    class _NS:
        mi_native = True

        def __init__(self, **kw):
            self.__dict__.update(kw)
    zl = _NS(compress=z_compress, decompress=z_decompress)
    big = lambda n, ch: bytes([ch]) * n       # noqa: E731
    seqs = [
        [b"", b"a", b"", big(35, 65), big(3500, 66), big(35, 67), b""],                 # compressed size 35 next to raw 35s
        [big(3500, 68), big(35, 69), big(thr, 70), big(thr + 1, 71), big(30, 72)],       # compressed first, then raw of equal size
        [big(58, 73), big(59, 74), big(60, 75), big(200, 76), b"", big(7000, 77), big(70, 78), big(70, 79)],
    ]
    bad = []
    rows = 0
    try:
        class _Missing:
            """what rpyc.lib.safe_import gives for a module that is not there: falsy, any attribute access raises ImportError"""
            mi_native = True

            def __bool__(self):
                return False

            def __getattr__(self, name):
                if name.startswith("mi_") or name.startswith("__"):
                    raise AttributeError(name)
                raise MI.Raised("ImportError")
        for compress, zmod in ((True, zl), (False, zl), ("asked for, but zlib is not available", _Missing())):
            have_z = zmod is zl
            for seq in seqs:
                rows += 1
                extra = {"__methods__": meths, "__max_iter__": 500, "__globals__": {"zlib": zmod}}
                extra["__global_lookup__"] = K.module_function_lookup(ctx, c.module, extra, skip=("zlib",))
                out_stream = _Stream()
                st = {"FRAME_HEADER": _Struct(hdr.format), "FLUSHER": flusher, "COMPRESSION_THRESHOLD": thr,
                      "COMPRESSION_LEVEL": ctx.class_const(CH, "COMPRESSION_LEVEL")}
                MI.call_method(meths["__init__"], st, [out_stream, bool(compress)], extra)
                label = "compress=%s, packets of %s bytes" % (compress, [len(p) for p in seq])
                try:
                    for p in seq:
                        MI.call_method(meths["send"], st, [p], extra)
                except MI.Raised as r_:
                    bad.append("%s: send raises %s" % (label, r_.name))
                    continue
                wire = b"".join(out_stream.writes)
                if any(len(w) > _Stream.MAX_IO_CHUNK and i_ % 1 == 0 and False for i_, w in enumerate(out_stream.writes)):
                    pass
                # reference reader
                pos, k, ok = 0, 0, True
                hs = _struct.calcsize(hdr.format)
                for p in seq:
                    if pos + hs > len(wire):
                        bad.append("%s: the wire ends before packet #%d" % (label, k + 1))
                        ok = False
                        break
                    ln, fl = _struct.unpack(hdr.format, wire[pos:pos + hs])
                    body = wire[pos + hs:pos + hs + ln]
                    tail = wire[pos + hs + ln:pos + hs + ln + len(flusher)]
                    want_c = bool(compress) and have_z and len(p) > thr
                    want_body = comp_of.get(p) if want_c else p
                    if want_c and want_body is None:
                        want_body = b"<never compressed>"
                    if (ln, fl, body, tail) != (len(want_body), 1 if want_c else 0, want_body, flusher):
                        bad.append("%s: packet #%d (%d bytes) is framed as (length %d, flag %d, %d payload bytes%s), expected "
                                   "(length %d, flag %d)" % (label, k + 1, len(p), ln, fl, len(body),
                                                             "" if tail == flusher else ", no flusher", len(want_body), 1 if want_c else 0))
                        ok = False
                        break
                    pos += hs + ln + len(flusher)
                    k += 1
                if ok and pos != len(wire):
                    bad.append("%s: %d stray byte(s) after the last packet" % (label, len(wire) - pos))
                    ok = False
                if not ok:
                    continue
                # read back with a second channel of the same class
                in_stream = _Stream(wire)
                st2 = {"FRAME_HEADER": _Struct(hdr.format), "FLUSHER": flusher, "COMPRESSION_THRESHOLD": thr,
                       "COMPRESSION_LEVEL": ctx.class_const(CH, "COMPRESSION_LEVEL")}
                MI.call_method(meths["__init__"], st2, [in_stream, not compress if have_z else True], extra)
                got = []
                try:
                    for _ in seq:
                        got.append(MI.call_method(meths["recv"], st2, [], extra))
                except MI.Raised as r_:
                    bad.append("%s: recv raises %s at packet #%d" % (label, r_.name, len(got) + 1))
                    continue
                if [bytes(g) if isinstance(g, (bytes, bytearray)) else g for g in got] != seq:
                    i_ = [a_ == b_ for a_, b_ in zip(got, seq)].index(False)
                    bad.append("%s: packet #%d is received as %d bytes%s" % (
                        label, i_ + 1, len(got[i_]) if hasattr(got[i_], "__len__") else -1,
                        " (other content)" if hasattr(got[i_], "__len__") and len(got[i_]) == len(seq[i_]) else ""))
                elif in_stream.buf:
                    bad.append("%s: %d byte(s) left unread after the last packet" % (label, len(in_stream.buf)))
    except AnalysisError as e_:
        rep.undecided("R05.8", "Channel model", str(e_))
        return
    rep.ob("R05.8", "Channel.send/recv on model streams: each packet framed as header(len, flag) + payload + flusher, sequences read "
           "back unchanged", not bad, "%d sequences x compression settings" % rows if not bad else "; ".join(bad[:3]),
           c.methods["send"].loc, kind="model")


def _stream_model(ctx, rep):
    """R05.9: SocketStream / PipeStream read() and write() evaluated (sa/miniinterp.py) on scripted model descriptors: data
    arriving in fragments of every size, receive time-outs and would-block errors between fragments, end-of-stream and a hard
    error at every position; partial sends. Reference: read(n) returns exactly the next n bytes of the stream and consumes no
    more; write(d) gets exactly d accepted by the descriptor, in order; EOF / hard errors close the stream and raise EOFError.
    Returns {(class, op): True} for the loops it decided and found correct."""
    import errno as _errno
    from .. import miniinterp as MI
    rep.rule("R05.9", "model evaluation of the stream loops: exact reads (no byte more, none less) under every fragmentation with "
                      "interleaved time-outs / would-block conditions; complete writes under partial sends; failures close and "
                      "raise EOFError")

    class _NS:
        mi_native = True

        def __init__(self, **kw):
            self.__dict__.update(kw)
    decided = {}
    for cq, kind in (("rpyc.core.stream.SocketStream", "sock"), ("rpyc.core.stream.PipeStream", "pipe")):
        c = ctx.cls(cq)
        short = cq.split(".")[-1]
        meths = {n: m.node for k in reversed(ctx.repo.mro(c)) for n, m in k.methods.items()}
        for op in ("read", "write"):
            if op not in c.methods:
                continue
            rep.analysed(c.methods[op])
            bad = []
            rows = 0
            try:
                STREAM = bytes(range(65, 91)) * 2          # 52 distinct-ish bytes
                scripts = []
                if op == "read":
                    for frag in (1, 2, 3, 5, 8, 64):
                        scripts.append(("fragments of %d" % frag, [STREAM[i:i + frag] for i in range(0, len(STREAM), frag)], None))
                    scripts.append(("time-out between fragments", [STREAM[:3], "timeout", STREAM[3:7], "timeout", "timeout", STREAM[7:]], None))
                    scripts.append(("would-block between fragments", [STREAM[:2], "eagain", STREAM[2:9], "eagain", STREAM[9:]], None))
                    scripts.append(("time-out before the first byte", ["timeout", "eagain", STREAM], None))
                    scripts.append(("end of stream after 5 bytes", [STREAM[:5], b""], "eof"))
                    scripts.append(("end of stream at once", [b""], "eof"))
                    scripts.append(("connection reset after 4 bytes", [STREAM[:4], "reset"], "eof"))
                else:
                    scripts = [("everything accepted", [None], None), ("one byte at a time", [1], None),
                               ("3, then 1, then all", [3, 1, None], None), ("half of each chunk", ["half"], None),
                               ("connection reset at the second send", [2, "reset"], "eof"), ("connection reset at once", ["reset"], "eof"),
                               # a would-block after a partial send: giving up (closed + EOFError) and retrying are both fine -
                               # accepting the call while bytes are missing or duplicated is not
                               ("3 bytes, then would-block, then all", [3, "eagain", None], "either"),
                               ("would-block at once, then 2, then all", ["eagain", 2, None], "either")]
                for label, script, outcome in scripts:
                    for want_n in ((1, 5, 7, 8, 9, 20) if op == "read" else (0, 1, 7, 8, 9, 23)):
                        rows += 1
                        closed = []
                        pending = list(script)
                        consumed = [0]
                        asked = []
                        last_exc = [None]
                        accepted = []

                        def fail(name, eno):
                            r = MI.Raised(name)
                            r.errno = eno
                            last_exc[0] = r
                            raise r

                        def do_recv(n, *a):
                            asked.append(n)
                            if not isinstance(n, int) or n <= 0:
                                fail("ValueError", None)
                            while True:
                                if not pending:
                                    fail("socket.timeout", None)      # nothing more scripted: the peer is silent
                                item = pending[0]
                                if item == "timeout":
                                    pending.pop(0)
                                    fail("socket.timeout" if kind == "sock" else "OSError", None if kind == "sock" else _errno.EAGAIN)
                                if item == "eagain":
                                    pending.pop(0)
                                    fail("socket.error" if kind == "sock" else "OSError", _errno.EAGAIN)
                                if item == "reset":
                                    pending.pop(0)
                                    fail("socket.error" if kind == "sock" else "OSError", _errno.ECONNRESET)
                                if item == b"":
                                    return b""
                                out, rest = item[:n], item[n:]
                                if rest:
                                    pending[0] = rest
                                else:
                                    pending.pop(0)
                                consumed[0] += len(out)
                                return out

                        def do_send(chunk, *a):
                            if not isinstance(chunk, (bytes, bytearray)):
                                fail("TypeError", None)
                            asked.append(len(chunk))
                            item = pending[0] if pending else None
                            if len(pending) > 1:
                                pending.pop(0)
                            if item == "reset":
                                fail("socket.error" if kind == "sock" else "OSError", _errno.ECONNRESET)
                            if item == "eagain":
                                fail("socket.error" if kind == "sock" else "OSError", _errno.EAGAIN)
                            n_ = len(chunk) if item is None else (max(1, len(chunk) // 2) if item == "half" else min(item, len(chunk)))
                            accepted.append(bytes(chunk[:n_]))
                            return n_
                        fobj_in = _NS(fileno=lambda: 3, close=lambda: None)
                        fobj_out = _NS(fileno=lambda: 4, close=lambda: None, flush=lambda: None)
                        state = {"MAX_IO_CHUNK": 8}
                        if kind == "sock":
                            state["sock"] = _NS(recv=do_recv, send=do_send, close=lambda: None, shutdown=lambda *a: None, fileno=lambda: 3)
                        else:
                            state.update({"incoming": fobj_in, "outgoing": fobj_out})
                        hooks = {"self.close": lambda: closed.append(1), "sys.exc_info": lambda: (None, last_exc[0], None),
                                 "get_exc_errno": lambda ex: getattr(ex, "errno", None),
                                 "os.read": lambda fd, n: do_recv(n), "os.write": lambda fd, b: do_send(b)}
                        vals_ = {"os.read": hooks["os.read"], "os.write": hooks["os.write"]}
                        if kind == "sock":
                            vals_.update({"self.sock.recv": do_recv, "self.sock.send": do_send})
                        extra = {"__calls__": hooks, "__values__": vals_,
                                 "__methods__": {k: v for k, v in meths.items() if k != "close"}, "__max_iter__": 400,
                                 "__globals__": {"errno": _NS(**{k: getattr(_errno, k) for k in dir(_errno) if k.startswith("E")})}}
                        extra["__global_lookup__"] = K.module_function_lookup(ctx, c.module, extra, skip=("errno", "os", "sys", "socket"))
                        if op == "read":
                            avail = sum(len(x) for x in script if isinstance(x, bytes))
                            try:
                                got = MI.call_method(meths["read"], state, [want_n], extra)
                                res = ("ok", bytes(got) if isinstance(got, (bytes, bytearray)) else got)
                            except MI.Raised as r_:
                                res = ("raise", r_.name)
                            eof_hit = outcome == "eof" and want_n > avail
                            if eof_hit:
                                if res != ("raise", "EOFError") or not closed:
                                    bad.append("%s, read(%d): %s%s, expected EOFError and a closed stream" % (
                                        label, want_n, res[1] if res[0] == "raise" else "returns %d bytes" % len(res[1]),
                                        "" if closed else " (stream left open)"))
                            elif res == ("raise", "<nontermination>") and want_n > avail:
                                pass        # more was asked than the script delivers and the peer stays silent: blocking is right
                            elif kind == "pipe" and res == ("raise", "EOFError") and closed and any(
                                    x in ("timeout", "eagain") for x in script):
                                pass        # a (blocking) pipe that reports EAGAIN is treated as failed: closed + EOFError is allowed
                            elif res != ("ok", STREAM[:want_n]) or consumed[0] != want_n or any(
                                    (not isinstance(x, int)) or x > 8 for x in asked):
                                what = res[1] if res[0] == "raise" else "%d bytes%s" % (
                                    len(res[1]) if isinstance(res[1], bytes) else -1,
                                    " (other content)" if isinstance(res[1], bytes) and len(res[1]) == want_n and res[1] != STREAM[:want_n] else "")
                                bad.append("%s, read(%d): %s, %d byte(s) taken from the descriptor, requests %s" % (
                                    label, want_n, ("raises " + what) if res[0] == "raise" else "returns " + what, consumed[0], asked[:6]))
                        else:
                            data = STREAM[:want_n]
                            try:
                                MI.call_method(meths["write"], state, [data], extra)
                                res = ("ok", None)
                            except MI.Raised as r_:
                                res = ("raise", r_.name)
                            will_fail = outcome == "eof" and want_n > 0 and not (script == [2, "reset"] and want_n <= 2)
                            if outcome == "either":
                                gave_up = res == ("raise", "EOFError") and closed
                                complete = res == ("ok", None) and b"".join(accepted) == data
                                if not (gave_up or complete) and want_n > 0:
                                    bad.append("%s, write(%d bytes): %s; the descriptor accepted %r of %r" % (
                                        label, want_n, "returns normally" if res[0] == "ok" else "raises " + res[1],
                                        b"".join(accepted), data))
                            elif will_fail:
                                if res != ("raise", "EOFError") or not closed:
                                    bad.append("%s, write(%d bytes): %s%s, expected EOFError and a closed stream" % (
                                        label, want_n, res, "" if closed else " (stream left open)"))
                            elif res != ("ok", None) or b"".join(accepted) != data or any(x > 8 for x in asked):
                                bad.append("%s, write(%d bytes): %s; the descriptor accepted %d byte(s)%s, chunk sizes %s" % (
                                    label, want_n, "returns" if res[0] == "ok" else "raises " + res[1], len(b"".join(accepted)),
                                    "" if b"".join(accepted) == data[:len(b"".join(accepted))] else " (not a prefix of the data)", asked[:6]))
            except AnalysisError as e_:
                rep.undecided("R05.9", "%s.%s model" % (short, op), str(e_))
                continue
            rep.ob("R05.9", "%s.%s on scripted descriptors: %s" % (short, op, "exactly the requested bytes, EOF/hard error -> closed + "
                   "EOFError" if op == "read" else "all data accepted in order, hard error -> closed + EOFError"), not bad,
                   "%d script x size combinations" % rows if not bad else "; ".join(bad[:3]), c.methods[op].loc, kind="model")
            if not bad:
                decided[(cq, op)] = True
    return decided

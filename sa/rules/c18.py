"""C18 - the registry reflects exactly the live registrations and cannot be knocked over.

Guarded handling of peer data (R18.1), timed sockets (R18.2), released client sockets (R18.3), normalised names (R18.4),
notifications tied to membership changes (R18.5), query result shape (R18.6)."""
import ast

from .. import astutil as A
from .. import cfgq as Q
from ..loader import AnalysisError
from . import common as K

REG = "rpyc.utils.registry"
RS = REG + ".RegistryServer"
TCP = REG + ".TCPRegistryServer"
UDP = REG + ".UDPRegistryServer"


def _init_fields(ctx, rs):
    """the fields RegistryServer.__init__ creates (evaluated once on a model listener): histories start from this state, so a
    field added to the constructor (an index, a cache) is present - and judged - in every history"""
    from .. import miniinterp as MI_
    cached = getattr(ctx, "_regsrv_init", None)
    if cached is not None:
        import copy as _c
        return _c.deepcopy(cached)

    class _L:
        mi_native = True

        def getsockname(self):
            return ("0.0.0.0", 18811)

        def __deepcopy__(self, memo):
            return self
    st = {}
    fi = rs.methods.get("__init__")
    try:
        if fi is not None:
            noop = lambda *a, **k: None      # noqa: E731

            class _Lg:
                mi_native = True
                debug = info = warning = warn = error = exception = staticmethod(noop)

                def __deepcopy__(self, memo):
                    return self
            MI_.call_method(fi.node, st, [_L(), None, _Lg()], {
                "__methods__": {n: m.node for n, m in rs.methods.items() if n != "__init__"}, "__max_iter__": 100,
                "__global_lookup__": K.module_function_lookup(ctx, rs.module, {}, skip=("time", "brine", "socket", "sys"))})
    except (MI_.Raised, AnalysisError):
        st = {}
    st = {k: v for k, v in st.items() if k not in ("sock", "logger", "port")}
    ctx._regsrv_init = st
    import copy as _c
    return _c.deepcopy(st)


def run(ctx, rep):
    rep.rule("R18.1", "nothing decoded from a datagram is operated on (method call, unpacking, iteration, formatting, command call) "
                      "outside a region whose handler catches Exception and continues the loop, unless it was type-checked first")
    rep.rule("R18.2", "no unbounded blocking on a peer socket in the main loop: accepted sockets get a finite timeout before recv, "
                      "a failing receive closes them; the listeners have finite timeouts")
    rep.rule("R18.3", "every client socket stored by the TCP registry is released on every loop path")
    rep.rule("R18.4", "service names are normalised (upper-cased) at every access of the services table")
    rep.rule("R18.5", "added/removed notifications are tied to actual membership changes; callback failures are contained")
    rep.rule("R18.7", "replies and stored values are always encodable: the codec is total and closed on what it decodes (= R04.1-R04.6)")
    rep.rule("R18.6", "a query returns the non-stale entries in ascending refresh order and prunes the stale ones")
    rep.rule("R18.8", "each registry has its own table (no class-level or default-argument table shared between registry instances)")
    rep.assume("clock behaviour, UDP loss and the relative order of servers refreshed at the same instant are not decided",
               "logger calls take their arguments lazily and do not fail")

    # ------------------------------------------------------------------ R18.1
    fw = ctx.func(RS + "._work")
    loops = [n for n in A.walk(fw.node) if isinstance(n, ast.While)]
    rep.floor("R18.1", "main loop of RegistryServer._work", len(loops), 1)
    # tainted names: everything bound (directly or transitively) from brine.load(...)
    tainted = set()
    changed = True
    while changed:
        changed = False
        for n in A.walk(fw.node):
            if isinstance(n, ast.Assign):
                src_t = bool(A.find_calls(n.value, "brine.load")) or bool(A.names_loaded(n.value) & tainted)
                if src_t:
                    for nm in A.names_stored(n):
                        if nm not in tainted:
                            tainted.add(nm)
                            changed = True
    rep.floor("R18.1", "names bound from the decoded datagram", len(tainted), 3)

    def risky(node_ast):
        """list of (construct, why) in node_ast that operate on a tainted value and can raise"""
        out = []
        for x in A.walk(node_ast):
            if isinstance(x, ast.Call):
                d = A.call_name(x) or ""
                # lazy logger arguments are safe
                if ".logger." in "." + d:
                    continue
                if isinstance(x.func, ast.Attribute) and isinstance(x.func.value, ast.Name) and x.func.value.id in tainted:
                    out.append((x, "method call `%s` on a value decoded from the datagram" % A.src(x)[:40]))
                elif isinstance(x.func, ast.Name) and x.func.id in tainted:
                    out.append((x, "call of the peer-selected command with peer-supplied arguments"))
                elif d == "brine.load":
                    out.append((x, "decoding of the datagram"))
            elif isinstance(x, ast.Starred) and A.names_loaded(x.value) & tainted:
                out.append((x, "unpacking `*%s`" % A.src(x.value)))
            elif isinstance(x, ast.Subscript) and isinstance(x.ctx, ast.Load) and isinstance(x.value, ast.Name) \
                    and x.value.id in tainted:
                out.append((x, "indexing `%s`" % A.src(x)))
            elif isinstance(x, ast.BinOp) and isinstance(x.op, ast.Mod) and A.names_loaded(x.right) & tainted \
                    and not any(isinstance(c, ast.Call) for c in A.walk(x.right)):
                out.append((x, "formatting with `%s`" % A.src(x.right)))
            elif isinstance(x, (ast.For, ast.comprehension)) and isinstance(getattr(x, "iter", None), ast.Name) \
                    and x.iter.id in tainted:
                out.append((x, "iteration over `%s`" % x.iter.id))
        if isinstance(node_ast, ast.Assign) and isinstance(node_ast.targets[0], (ast.Tuple, ast.List)) and \
                (A.names_loaded(node_ast.value) & tainted or A.find_calls(node_ast.value, "brine.load")):
            out.append((node_ast, "destructuring `%s`" % A.norm(node_ast)[:50]))
        return out

    def raises(node_ast, kind):
        if node_ast is None or kind in ("with_exit", "except", "with_enter"):
            return set()
        if isinstance(node_ast, ast.Raise):
            return None
        if kind == "stmt" and isinstance(node_ast, ast.expr) is False and risky(node_ast):
            return {Exception}
        if kind == "test" and risky(node_ast):
            return {Exception}
        return set()
    g = ctx.cfg(fw, raises=raises)
    rep.analysed(fw, g)
    dom = Q.dominators(g)
    n_risky = 0
    loop_heads = [n for n in g.live if n.kind in ("test", "join") and getattr(n, "owner", None) is loops[0]]
    for n in g.live:
        if n.ast is None or n.kind not in ("stmt", "test") or not n.raises:
            continue
        for construct, why in risky(n.ast):
            n_risky += 1
            # sanitiser: the operated value was type-checked (isinstance / type(x) is str) on every path here
            var = None
            if isinstance(construct, ast.Call) and isinstance(construct.func, ast.Attribute) and \
                    isinstance(construct.func.value, ast.Name):
                var = construct.func.value.id
            checked = False
            if var:
                for t, pol in Q.dominating_conditions(g, n, dom):
                    s = A.src(t.ast).replace(" ", "")
                    if pol and (s in ("isinstance(%s,str)" % var, "type(%s)isstr" % var)):
                        checked = True
                    if (not pol) and s in ("type(%s)isnotstr" % var,):
                        checked = True
            escapes = [t for t, l in n.succ if l == "exc" and t.kind != "except"]
            covered = not escapes
            cont = True
            if covered:
                for t, l in n.succ:
                    if l == "exc" and t.kind == "except":
                        r = Q.reach([t], labels=("next", "true", "false"))
                        if g.exit in r and not (set(loop_heads) & r):
                            cont = False
                        if any(isinstance(x.ast, ast.Raise) and A.contains(t.ast, x.ast) for x in r):
                            cont = False
            ok = checked or (covered and cont)
            rep.ob("R18.1", "_work: %s is guarded" % why, ok,
                   ("the value was type-checked before" if checked else
                    "inside a try whose handler catches Exception and goes on with the loop") if ok else
                   "%s happens outside any guarded region: a datagram such as (\"RPYC\", 5, ()) raises here, the exception leaves "
                   "_work() and the registry stops answering everybody" % why, ctx.loc(construct))
    rep.floor("R18.1", "operations on decoded values in _work", n_risky, 3)
    getattrs = [c for c in A.find_calls(fw.node, "getattr") if len(c.args) >= 2]
    okp = bool(getattrs)
    from .. import miniinterp as MIg
    for c in getattrs:
        nm = c.args[1]
        # the attribute name computed for a command word: evaluated on a sample word ("QuErY" -> "cmd_query"), whichever way
        # the fixed prefix is spelled (a literal, a module-level constant, %-formatting, concatenation)
        free = {x.id for x in A.walk(nm) if isinstance(x, ast.Name) and x.id not in fw.module.toplevel}
        extra_g = {"__globals__": {v_: "QuErY" for v_ in free}}
        extra_g["__global_lookup__"] = K.module_function_lookup(ctx, fw.module, extra_g)
        try:
            val_ = MIg.eval_expr(nm, extra_g)
            okn = isinstance(val_, str) and val_.startswith("cmd_") and val_ == "cmd_query"
        except (MIg.Raised, AnalysisError):
            okn = isinstance(nm, ast.BinOp) and isinstance(nm.left, ast.Constant) and str(nm.left.value).startswith("cmd_")
        okp = okp and okn and A.src(c.args[0]) == "self"
    rep.ob("R18.1", "_work: the command is selected only among methods with the fixed cmd_ prefix", okp,
           "getattr(self, 'cmd_%s' % ...)" if okp else "the peer can select an arbitrary attribute as command", fw.loc, kind="site")
    recv_nodes = [n for n in g.live if n.kind == "stmt" and n.ast is not None and A.find_calls(n.ast, "self._recv")]
    gd = ctx.cfg(fw, raises="default")
    okr = False
    for n in [x for x in gd.live if x.kind == "stmt" and x.ast is not None and A.find_calls(x.ast, "self._recv")]:
        hs = [t for t, l in n.succ if l == "exc" and t.kind == "except"]
        # (socket.error, IOError and EnvironmentError are OSError itself on Python 3)
        okr = any(any(nm_ in A.src(h.ast.type) for nm_ in ("socket.error", "OSError", "IOError", "EnvironmentError", "Exception"))
                  for h in hs if h.ast.type is not None) or any(h.ast.type is None for h in hs)
    rep.ob("R18.1", "_work: a failing receive is absorbed and the loop continues", okr,
           "except (socket.error, socket.timeout): continue" if okr else "receive errors leave the main loop", fw.loc, kind="site")

    # ------------------------------------------------------------------ R18.2
    fr = ctx.func(TCP + "._recv")
    gr = ctx.cfg(fr, raises="default")
    rep.analysed(fr, gr)
    domr = Q.dominators(gr)
    acc = [n for n in gr.live if n.kind == "stmt" and n.ast is not None and A.find_calls(n.ast, "self.sock.accept")]
    rep.floor("R18.2", "accept sites in TCPRegistryServer._recv", len(acc), 1)
    sv = None
    if isinstance(acc[0].ast, ast.Assign) and isinstance(acc[0].ast.targets[0], ast.Tuple):
        sv = A.src(acc[0].ast.targets[0].elts[0])
    elif isinstance(acc[0].ast, ast.Assign):
        sv = None
    if sv is None:
        raise AnalysisError("TCPRegistryServer._recv: accepted socket is not bound to a local")
    recvs = [n for n in gr.live if n.kind == "stmt" and n.ast is not None and (
        A.find_calls(n.ast, "%s.recv" % sv) or A.find_calls(n.ast, "%s.recvfrom" % sv))]
    rep.floor("R18.2", "receive sites on the accepted socket", len(recvs), 1)
    timeouts = [n for n in gr.live if n.kind == "stmt" and n.ast is not None and A.find_calls(n.ast, "%s.settimeout" % sv)]
    for r in recvs:
        ok = any(t.id in domr[r.id] for t in timeouts)
        finite = False
        for t in timeouts:
            c = A.find_calls(t.ast, "%s.settimeout" % sv)[0]
            v = c.args[0] if c.args else None
            val = None
            if v is not None:
                val = ctx.try_fold(v)
                if val is None and A.src(v).startswith("self."):
                    try:
                        val = ctx.class_const(TCP, A.src(v)[5:])
                    except AnalysisError:
                        val = None
            finite = isinstance(val, (int, float)) and val > 0
        rep.ob("R18.2", "TCPRegistryServer._recv: the accepted socket is given a finite timeout before it is read", ok and finite,
               "%s.settimeout(<finite>) dominates %s.recv()" % (sv, sv) if ok and finite else
               "recv() on the freshly accepted socket blocks without a timeout (accepted sockets do not inherit the listener's "
               "timeout): one client that connects and stays silent makes the registry answer nobody", ctx.loc(r))
        closes = [n for n in gr.live if n.kind == "stmt" and n.ast is not None and A.find_calls(n.ast, "%s.close" % sv)]
        bad = None
        for t, l in r.succ:
            if l == "exc":
                if t is gr.excexit:
                    bad = [r, t]
                else:
                    p = Q.find_path(t, [gr.excexit], avoid=closes, skip_first=False)
                    if p:
                        bad = [r] + p
        rep.ob("R18.2", "TCPRegistryServer._recv: a failing receive closes the accepted socket", bad is None,
               "every exceptional path out of recv() closes the socket" if bad is None else
               "when recv() fails (timeout/reset) the accepted socket is leaked", ctx.loc(r), witness=ctx.path(bad) if bad else None)
    # a receive that is repeated must notice end-of-stream: recv() on a closed peer returns b'' at once, for ever
    for r in recvs:
        back = Q.find_path_ef([r], lambda x: x is r, lambda a, b, l: l != "exc")
        if back is None:
            continue      # not in a loop
        buf = r.ast.targets[0].id if isinstance(r.ast, ast.Assign) and len(r.ast.targets) == 1 and \
            isinstance(r.ast.targets[0], ast.Name) and isinstance(r.ast.value, ast.Call) else None
        spin = back
        if buf is not None:
            def nonempty_only(a, b, l, buf=buf):
                if l == "exc":
                    return False
                if a.kind == "test":
                    e = a.ast
                    if isinstance(e, ast.Name) and e.id == buf:
                        return l == "true"
                    if isinstance(e, ast.Call) and A.call_name(e) == "len" and A.src(e.args[0]) == buf:
                        return l == "true"
                return True
            # cycles that remain when only the non-empty edges of tests on the chunk are followed are fine; a cycle through
            # the *empty* edge (or with no test at all) spins
            def empty_ok(a, b, l, buf=buf):
                if l == "exc":
                    return False
                if a.kind == "test":
                    e = a.ast
                    if (isinstance(e, ast.Name) and e.id == buf) or (
                            isinstance(e, ast.Call) and A.call_name(e) == "len" and e.args and A.src(e.args[0]) == buf):
                        return l == "false"
                return True
            tests = [n for n in gr.live if n.kind == "test" and (
                (isinstance(n.ast, ast.Name) and n.ast.id == buf) or
                (isinstance(n.ast, ast.Call) and A.call_name(n.ast) == "len" and n.ast.args and A.src(n.ast.args[0]) == buf))]
            spin = Q.find_path_ef([r], lambda x: x is r, empty_ok) if tests else back
            if tests and spin is not None and not any(x in tests for x in spin):
                pass      # a cycle that avoids the emptiness test altogether
        rep.ob("R18.2", "TCPRegistryServer._recv: a repeated receive stops at end-of-stream", spin is None,
               "an empty chunk leaves the loop" if spin is None else
               "recv() is repeated in a loop that does not test the received chunk for emptiness: once the client has closed, "
               "recv() returns b'' immediately and the registry's only thread spins in _recv for ever (it answers nobody and "
               "close() cannot stop it)", ctx.loc(r), witness=ctx.path([r] + spin) if spin else None)
    for cq in (TCP, UDP):
        init = ctx.func(cq + ".__init__")
        st = [c for c in A.calls(init.node) if (A.call_name(c) or "").endswith(".settimeout")]
        val = None
        if st and st[0].args:
            a = A.src(st[0].args[0])
            val = ctx.class_const(cq, a[5:]) if a.startswith("self.") else ctx.try_fold(st[0].args[0])
        ok = isinstance(val, (int, float)) and val > 0
        rep.ob("R18.2", "%s: the listener has a finite timeout (close() is noticed)" % cq.split(".")[-1], ok,
               "settimeout(%r)" % val if ok else "the listening socket blocks forever", init.loc, kind="site")

    # ------------------------------------------------------------------ R18.3
    stores = [n for n in gr.live if n.kind == "stmt" and isinstance(n.ast, ast.Assign) and any(
        isinstance(t, ast.Subscript) and K.self_attr(t.value) for t in n.ast.targets) and A.src(n.ast.value) == sv]
    rep.floor("R18.3", "stores of the accepted socket", len(stores), 1)
    cont = K.self_attr(stores[0].ast.targets[0].value)
    fs = ctx.func(TCP + "._send")
    pops = [c for c in A.calls(fs.node) if isinstance(c.func, ast.Attribute) and c.func.attr == "pop"
            and K.self_attr(c.func.value, cont)]
    # the popped socket is closed: closing(sock), sock.close(), or the socket used as its own context manager (`with sock:`)
    popped = {st_.targets[0].id for st_ in A.walk(fs.node) if isinstance(st_, ast.Assign) and isinstance(st_.targets[0], ast.Name)
              and any(c_ in pops for c_ in A.calls(st_.value))}
    own_cm = any(isinstance(w_, ast.With) and any(isinstance(it_.context_expr, ast.Name) and it_.context_expr.id in popped
                                                   for it_ in w_.items) for w_ in A.walk(fs.node))
    oks = bool(pops) and ("closing(" in A.src(fs.node) or ".close()" in A.src(fs.node) or own_cm)
    rep.ob("R18.3", "TCPRegistryServer._send: replying pops and closes the client's socket", oks,
           "self.%s.pop(addrinfo) ... closed" % cont if oks else "_send leaves the client's socket open or stored", fs.loc)
    # A: _recv drains leftovers before accepting / storing;  B: every loop path of _work after _recv replies or drops
    drain_nodes = []
    for n in gr.live:
        if n.ast is None:
            continue
        if n.kind == "stmt" and (A.find_calls(n.ast, "self.%s.clear" % cont)):
            drain_nodes.append(n)
    drains_ok = False
    for n in A.walk(fr.node):
        if isinstance(n, (ast.For, ast.While)) and any(K.self_attr(x, cont) for x in A.walk(n)):
            if any(isinstance(c.func, ast.Attribute) and c.func.attr == "close" for c in A.calls(n)):
                drains_ok = True
    cond_a = False
    if drains_ok:
        # the drain precedes the store on every path
        loop_nodes = [x for x in gr.live if x.kind in ("for", "test", "iter") and getattr(x, "owner", None) is not None
                      and any(K.self_attr(y, cont) for y in A.walk(x.owner))]
        p = Q.find_path(gr.entry, stores, avoid=loop_nodes + drain_nodes, labels=("next", "true", "false"))
        cond_a = p is None
    # B
    gw = ctx.cfg(fw, raises="default")
    rnodes = [x for x in gw.live if x.kind == "stmt" and x.ast is not None and A.find_calls(x.ast, "self._recv")]
    release = [x for x in gw.live if x.kind == "stmt" and x.ast is not None and any(
        (A.call_name(c) or "") in ("self._send", "self._drop", "self._discard", "self._release", "self._close_client")
        for c in A.calls(x.ast))]
    heads = [x for x in gw.live if x.kind in ("test", "join") and getattr(x, "owner", None) is loops[0]]
    cond_b = False
    witness = None
    if rnodes:
        starts = [t for t, l in rnodes[0].succ if l == "next"]
        p = None
        for s in starts:
            p = Q.find_path(s, heads + [gw.exit, gw.excexit], avoid=release, skip_first=False)
            if p:
                witness = [rnodes[0]] + p
                break
        cond_b = p is None
    ok3 = cond_a or cond_b
    rep.ob("R18.3", "TCP registry: a stored client socket is released on every path of the loop", ok3,
           ("_recv releases any socket left over from a request that got no reply before it accepts the next one" if cond_a else
            "every path from a received request back to the loop head replies or drops") if ok3 else
           "a request that gets no reply (bad magic, unknown or failing command) leaves its socket stored in self.%s forever: "
           "descriptors accumulate until accept() fails for everybody" % cont, ctx.loc(stores[0]),
           witness=ctx.path(witness) if witness and not ok3 else None)

    # ------------------------------------------------------------------ R18.4
    rs = ctx.cls(RS)
    helpers = ("_add_service", "_remove_service")
    n4 = 0
    for mname, m in sorted(rs.methods.items()):
        if not (mname.startswith("cmd_")):
            continue
        gm = ctx.cfg(m, raises="default")
        rd = Q.ReachingDefs(gm)
        rep.analysed(m, gm)

        def normalised(node, e):
            if isinstance(e, ast.Call) and isinstance(e.func, ast.Attribute) and e.func.attr == "upper":
                return True
            if isinstance(e, ast.Name):
                defs = rd.at(node, e.id)
                if not defs or "param" in defs:
                    return False
                for d in defs:
                    if d.kind == "for":
                        it = A.src(d.owner.iter)
                        if "self.services" in it:
                            continue
                        # for name in names: ... name.upper() handled at use
                        return False
                    val = d.ast.value if isinstance(d.ast, ast.Assign) else None
                    if val is None or not (isinstance(val, ast.Call) and isinstance(val.func, ast.Attribute)
                                           and val.func.attr == "upper"):
                        return False
                return True
            return False
        for n in gm.live:
            if n.ast is None or n.kind not in ("stmt", "test", "iter"):
                continue
            for x in A.walk(n.ast):
                key = None
                if isinstance(x, ast.Subscript) and K.self_attr(x.value, "services"):
                    key = x.slice
                elif isinstance(x, ast.Compare) and len(x.ops) == 1 and isinstance(x.ops[0], (ast.In, ast.NotIn)) and \
                        K.self_attr(x.comparators[0], "services"):
                    key = x.left
                elif isinstance(x, ast.Call) and (A.call_name(x) or "") in ("self." + h for h in helpers) and x.args:
                    key = x.args[0]
                elif isinstance(x, ast.Call) and isinstance(x.func, ast.Attribute) and x.func.attr in ("get", "pop", "setdefault") and \
                        K.self_attr(x.func.value, "services") and x.args:
                    key = x.args[0]        # self.services.get(name) is a lookup like self.services[name]
                if key is not None:
                    n4 += 1
                    ok = normalised(n, key)
                    rep.ob("R18.4", "%s: `%s` uses a normalised service name" % (mname, A.src(x)[:50]), ok,
                           "the key derives from .upper() or from the table's own keys" if ok else
                           "the services table is accessed with `%s`, which is not upper-cased: registrations and queries that "
                           "differ only in case no longer meet" % A.src(key), ctx.loc(x))
    rep.floor("R18.4", "table accesses / helper calls in the cmd_* methods", n4, 4)

    # loops whose body removes entries must iterate over a copy
    for mname, m in sorted(rs.methods.items()):
        if not mname.startswith("cmd_"):
            continue
        for lp in [n for n in A.walk(m.node) if isinstance(n, ast.For)]:
            removes = A.find_calls(lp, "self._remove_service") or [x for x in A.walk(lp) if isinstance(x, ast.Delete)]
            if not removes or "self.services" not in A.src(lp.iter):
                continue
            it = lp.iter
            copy_ok = isinstance(it, ast.Call) and A.call_name(it) in ("list", "tuple", "sorted", "set", "frozenset")
            if isinstance(it, ast.Name):
                copy_ok = False
            rep.ob("R18.4", "%s: a loop that removes entries iterates over a copy of the table" % mname, copy_ok,
                   "for ... in %s" % A.src(it) if copy_ok else
                   "`for %s in %s` removes entries of the table it is iterating: the first removal that empties a name raises "
                   "RuntimeError (dictionary changed size), the command stops half-way and the remaining names keep the server"
                   % (A.src(lp.target), A.src(it)), ctx.loc(lp))
    # loops over a local bound to a copy
    # ------------------------------------------------------------------ R18.5
    # model evaluation (sa/miniinterp.py; no repository code is run) of the two table helpers on every relevant table state
    from .. import miniinterp as MI
    import copy as _copy
    class _Absent:
        node = None
        loc = ctx.cls(RS).node.lineno and ctx.loc(ctx.cls(RS).node)
    fa = rs.methods.get("_add_service") or _Absent()
    fr_ = rs.methods.get("_remove_service") or _Absent()
    for f__ in (fa, fr_):
        if f__.node is not None:
            rep.analysed(f__)
        else:
            rep.info("a table helper of the reference tree is gone; its behaviour is decided through the command-level model (R18.6)")
    NOW = 1000.0
    A1, A2 = ("10.0.0.1", 1), ("10.0.0.2", 2)

    def run_helper(f, table, args, fail=False):
        fired = []

        def cb(kind):
            def call(*a):
                fired.append((kind,) + tuple(a))
                if fail:
                    raise MI.Raised("Exception")
            return call
        hooks = {"self.on_service_added": cb("added"), "self.on_service_removed": cb("removed"), "time.time": lambda: NOW}
        for lv in ("debug", "info", "warn", "warning", "error", "exception"):
            hooks["self.logger." + lv] = lambda *a, **k: None
        state = _init_fields(ctx, rs)
        state.update({"services": _copy.deepcopy(table)})
        err = None
        try:
            MI.call_method(f.node, state, list(args), {"__calls__": hooks})
        except MI.Raised as r:
            err = r.name
        return state["services"], fired, err
    add_rows = [
        ("first server of a new name", {}, {"FOO": {A1: NOW}}, True),
        ("new name next to another", {"BAR": {A2: 5.0}}, {"BAR": {A2: 5.0}, "FOO": {A1: NOW}}, True),
        ("second server of a known name", {"FOO": {A2: 5.0}}, {"FOO": {A2: 5.0, A1: NOW}}, True),
        ("keep-alive of a registered server", {"FOO": {A1: 5.0}}, {"FOO": {A1: NOW}}, False),
        ("name known but empty", {"FOO": {}}, {"FOO": {A1: NOW}}, True),
    ]
    bad_state, bad_note, bad_fail = [], [], []
    try:
        for what, table, want, fires in (add_rows if fa.node is not None else []):
            got, fired, err = run_helper(fa, table, ["FOO", A1])
            if got != want or err:
                bad_state.append("%s: table %s -> %s%s" % (what, table, got, " raising %s" % err if err else ""))
            if fired != ([("added", "FOO", A1)] if fires else []):
                bad_note.append("%s: notifications %s" % (what, fired))
            got, fired, err = run_helper(fa, table, ["FOO", A1], fail=True)
            if err or got != want:
                bad_fail.append("%s: %s" % (what, err or "table %s" % got))
    except AnalysisError as e_:
        rep.undecided("R18.5", "the table helper", str(e_))
    rep.ob("R18.5", "_add_service: records (name, address) with the current time and leaves the rest of the table alone", not bad_state,
           "%d table states evaluated" % len(add_rows) if not bad_state else "; ".join(bad_state)[:400], fa.loc, kind="table")
    rep.ob("R18.5", "_add_service: on_service_added fires only when the (name, address) pair was not present", not bad_note,
           "fires exactly on the new pairs, once" if not bad_note else
           "the added-notification also fires on keep-alives / is missing for a new pair: " + "; ".join(bad_note)[:300], fa.loc, kind="table")
    rep.ob("R18.5", "_add_service: a failing callback is contained", not bad_fail, "the registration survives a raising callback"
           if not bad_fail else "a failing on_service_added callback aborts the registration: " + "; ".join(bad_fail)[:300], fa.loc,
           kind="table")
    rem_rows = [
        ("one of two servers", {"FOO": {A1: 5.0, A2: 6.0}}, {"FOO": {A2: 6.0}}, True),
        ("the last server of a name", {"FOO": {A1: 5.0}, "BAR": {A1: 7.0}}, {"BAR": {A1: 7.0}}, True),
        ("an address not registered under that name", {"FOO": {A2: 6.0}, "BAR": {A1: 7.0}}, {"FOO": {A2: 6.0}, "BAR": {A1: 7.0}}, False),
    ]
    bad_state, bad_note, bad_fail = [], [], []
    try:
        for what, table, want, fires in (rem_rows if fr_.node is not None else []):
            got, fired, err = run_helper(fr_, table, ["FOO", A1])
            if got != want or err:
                bad_state.append("%s: table %s -> %s%s" % (what, table, got, " raising %s" % err if err else ""))
            if fired != ([("removed", "FOO", A1)] if fires else []):
                bad_note.append("%s: notifications %s" % (what, fired))
            got, fired, err = run_helper(fr_, table, ["FOO", A1], fail=True)
            if err or got != want:
                bad_fail.append("%s: %s" % (what, err or "table %s" % got))
    except AnalysisError as e_:
        rep.undecided("R18.5", "the table helper", str(e_))
    rep.ob("R18.5", "_remove_service: removes exactly that server; a name with no servers left is removed from the table",
           not bad_state, "%d table states evaluated" % len(rem_rows) if not bad_state else "; ".join(bad_state)[:400], fr_.loc,
           kind="table")
    rep.ob("R18.5", "_remove_service: on_service_removed fires only when that address was actually registered under that name",
           not bad_note, "fires exactly when an entry was removed" if not bad_note else
           "on_service_removed is not tied to an actual removal (one `unregister` from host X fires for names X never registered): "
           + "; ".join(bad_note)[:300], fr_.loc, kind="table")
    rep.ob("R18.5", "_remove_service: a failing callback is contained", not bad_fail, "the removal survives a raising callback"
           if not bad_fail else "a failing on_service_removed callback aborts the command: " + "; ".join(bad_fail)[:300], fr_.loc,
           kind="table")

    # ------------------------------------------------------------------ R18.6
    # command-level model evaluation: the cmd_* methods (and the helpers they call) are interpreted on enumerated histories
    # of register / unregister / query with a scripted clock and compared with a reference model of the documented behaviour
    fq = ctx.func(RS + ".cmd_query")
    rep.analysed(fq)
    methods = {nm: m.node for nm, m in rs.methods.items()}
    TMO = 20.0
    H1, H2, H3 = "10.0.0.1", "10.0.0.2", "10.0.0.3"

    GARBAGE = ("<undecodable datagram>",)

    def run_history(ops, through_loop=False):
        clock = [0.0]
        fired = []
        if through_loop:
            return run_loop_history(ops)
        return run_direct_history(ops)

    def run_loop_history(ops):
        """the same histories, delivered as datagrams to the main loop `_work` (scripted _recv/_send, receive time-outs between
        the requests); malformed datagrams are interleaved and must be ignored"""
        clock = [0.0]
        fired = []
        sent = []
        events = []
        for op in ops:
            t, kind, args = op[0], op[1], list(op[2:])
            events.append((t, "timeout", None, None))
            if kind == "idle":
                continue
            if kind == "register":
                host, names, port = args
                events.append((t, "data", ("RPYC", "REGISTER", (names, port)), (host, 40000)))
            elif kind == "unregister":
                host, port = args
                events.append((t, "data", ("RPYC", "UNREGISTER", (port,)), (host, 40000)))
            else:
                host, name = args
                events.append((t, "data", ("RPYC", "QUERY", (name,)), (host, 40000)))
            events.append((t, "data", ("SPAM", "QUERY", ("foo",)), (H3, 1)))
            events.append((t, "data", GARBAGE, (H3, 1)))
            events.append((t, "data", ("RPYC", 17, ()), (H3, 1)))
            events.append((t, "data", ("RPYC", "NOSUCH", ()), (H3, 1)))
            events.append((t, "data", ("RPYC", "QUERY", ()), (H3, 1)))
            events.append((t, "data", ("RPYC", "REGISTER", (5, 6)), (H3, 1)))
            # a list of names that is malformed only at its end: nothing of it may be registered (the request is not acknowledged)
            events.append((t, "data", ("RPYC", "REGISTER", (("ZZZ_HALF", 7), 6)), (H3, 1)))
        state = _init_fields(ctx, rs)
        state.update({"services": {}, "pruning_timeout": TMO, "active": True})
        pos = [0]

        def recv():
            if pos[0] >= len(events):
                state["active"] = False
                raise MI.Raised("socket.timeout")
            t, kind, payload, addr = events[pos[0]]
            pos[0] += 1
            clock[0] = t
            if kind == "timeout":
                raise MI.Raised("socket.timeout")
            return (payload, addr)

        def load(data):
            if data is GARBAGE:
                raise MI.Raised("ValueError")
            return data
        hooks = {"time.time": lambda: clock[0], "self._recv": recv, "self._send": lambda d, a: sent.append((clock[0], d, a)),
                 "brine.load": load, "brine.dump": lambda x: x,
                 "self.on_service_added": lambda n, a: fired.append(("added", n, a)),
                 "self.on_service_removed": lambda n, a: fired.append(("removed", n, a))}
        for lv in ("debug", "info", "warn", "warning", "error", "exception"):
            hooks["self.logger." + lv] = lambda *a, **k: None
        extra = {"__calls__": hooks, "__max_iter__": 2000,
                 "__methods__": {k: v for k, v in methods.items() if k not in ("on_service_added", "on_service_removed", "_recv", "_send")}}
        extra["__global_lookup__"] = K.module_function_lookup(ctx, rs.module, extra, skip=("time", "brine", "socket", "sys"))
        try:
            MI.call_method(methods["_work"], state, [], extra)
        except MI.Raised as r:
            return "the main loop stops with %s after %d of %d datagrams/time-outs" % (r.name, pos[0], len(events))
        # reference
        ref, ref_fired, want_sent, ambiguous = {}, [], [], []
        tie_ok = {}
        for op in ops:
            now, kind, args = op[0], op[1], list(op[2:])
            if kind == "idle":
                continue
            if kind == "register":
                host, names, port = args
                for n in names:
                    key = n.upper()
                    if (host, port) not in ref.get(key, {}):
                        ref_fired.append(("added", key, (host, port)))
                    elif ref[key][(host, port)] < now - TMO:
                        ambiguous.append(("added", key, (host, port)))      # stale but not yet pruned: either is acceptable
                    ref.setdefault(key, {})[(host, port)] = now
                want_sent.append((now, "OK", (host, 40000)))
            elif kind == "unregister":
                host, port = args
                for key in list(ref):
                    if (host, port) in ref[key]:
                        del ref[key][(host, port)]
                        if not ref[key]:
                            del ref[key]
                        ref_fired.append(("removed", key, (host, port)))
                want_sent.append((now, "OK", (host, 40000)))
            else:
                host, name = args
                key = name.upper()
                live = []
                for addr, t in sorted(ref.get(key, {}).items(), key=lambda x: x[1]):
                    if t >= now - TMO:
                        live.append(addr)
                    else:
                        del ref[key][addr]
                tie_ok[len(want_sent)] = dict(ref.get(key, {}))
                if key in ref and not ref[key]:
                    del ref[key]
                want_sent.append((now, tuple(live), (host, 40000)))
        got_sent = [(t, tuple(d) if isinstance(d, list) else d, a) for t, d, a in sent]
        for i_, (g_, w_) in enumerate(zip(got_sent, want_sent)):
            # servers refreshed at the same instant may come in either order
            if g_ != w_ and g_[0] == w_[0] and g_[2] == w_[2] and isinstance(g_[1], tuple) and isinstance(w_[1], tuple) and \
                    sorted(map(repr, g_[1])) == sorted(map(repr, w_[1])) and i_ in tie_ok and \
                    [tie_ok[i_].get(a) for a in g_[1]] == sorted(tie_ok[i_].get(a, 0) for a in g_[1]):
                want_sent[i_] = g_
        if got_sent != want_sent:
            for i, (g_, w_) in enumerate(zip(got_sent + [None] * len(want_sent), want_sent + [None] * len(got_sent))):
                if g_ != w_:
                    return "reply #%d through the main loop is %r, expected %r" % (i + 1, g_, w_)
        # no live registration may be missing at the end; nothing that was never registered may appear
        now = ops[-1][0]
        for key, servers in ref.items():
            for addr, t in servers.items():
                if t >= now - TMO and addr not in state["services"].get(key, {}):
                    return "at t=%s the live registration %s of %s (refreshed at t=%s) is gone from the table" % (now, addr, key, t)
        for key, servers in state["services"].items():
            for addr in servers:
                if addr not in ref.get(key, {}):
                    return "the table lists %s under %s, which was never registered / was unregistered" % (addr, key)
        added = [f_ for f_ in fired if f_[0] == "added"]
        must = sorted((f_ for f_ in ref_fired if f_[0] == "added"), key=repr)
        extra_ok = list(ambiguous)
        rest = list(added)
        for f_ in must:
            if f_ in rest:
                rest.remove(f_)
            else:
                rest = None
                break
        if rest is not None:
            for f_ in list(rest):
                if f_ in extra_ok:
                    extra_ok.remove(f_)
                    rest.remove(f_)
        if rest is None or rest:
            return "added-notifications through the main loop are %r, expected %r" % (added, [f_ for f_ in ref_fired if f_[0] == "added"])
        return None

    def run_direct_history(ops):
        clock = [0.0]
        fired = []
        hooks = {"time.time": lambda: clock[0],
                 "self.on_service_added": lambda n, a: fired.append(("added", n, a)),
                 "self.on_service_removed": lambda n, a: fired.append(("removed", n, a))}
        for lv in ("debug", "info", "warn", "warning", "error", "exception"):
            hooks["self.logger." + lv] = lambda *a, **k: None
        state = _init_fields(ctx, rs)
        state.update({"services": {}, "pruning_timeout": TMO})
        extra = {"__calls__": hooks, "__methods__": {k: v for k, v in methods.items() if k not in ("on_service_added", "on_service_removed")}}
        extra["__global_lookup__"] = K.module_function_lookup(ctx, rs.module, extra, skip=("time", "brine", "socket", "sys"))
        ref, ref_fired = {}, []
        for op in ops:
            clock[0] = op[0]
            kind, args = op[1], list(op[2:])
            fired_before, ref_before = len(fired), len(ref_fired)
            try:
                if kind == "idle":
                    got = MI.call_method(methods[args[0]], state, [], extra)
                    got = None
                else:
                    got = MI.call_method(methods["cmd_" + kind], state, args, extra)
                if isinstance(got, list):
                    got = tuple(got)
            except MI.Raised as r:
                got = "raises " + r.name
            # reference model
            now = op[0]
            if kind == "idle":
                # any maintenance step the main loop may run between requests: it may only drop stale entries
                want = got
                before = {k: dict(v) for k, v in ref.items()}
                for key in list(ref):
                    for addr in list(ref[key]):
                        if addr not in state["services"].get(key, {}):
                            if ref[key][addr] < now - TMO:
                                del ref[key][addr]
                                ref_fired.append(("removed", key, addr))
                            else:
                                return "t=%s idle step %s() removes the live registration %s of %s (refreshed at t=%s)" % (
                                    now, op[2], addr, key, ref[key][addr])
                    if key in ref and not ref[key]:
                        del ref[key]
            elif kind == "register":
                host, names, port = args
                for n in names:
                    key = n.upper()
                    if (host, port) not in ref.get(key, {}):
                        ref_fired.append(("added", key, (host, port)))
                    ref.setdefault(key, {})[(host, port)] = now
                want = "OK"
            elif kind == "unregister":
                host, port = args
                for key in list(ref):
                    if (host, port) in ref[key]:
                        del ref[key][(host, port)]
                        if not ref[key]:
                            del ref[key]
                        ref_fired.append(("removed", key, (host, port)))
                want = "OK"
            else:
                key = args[1].upper()
                live = []
                for addr, t in sorted(ref.get(key, {}).items(), key=lambda x: x[1]):
                    if t < now - TMO:
                        del ref[key][addr]
                        ref_fired.append(("removed", key, addr))
                    else:
                        live.append(addr)
                if key in ref and not ref[key]:
                    del ref[key]
                want = tuple(live)
                # servers refreshed at the same instant may come in either order
                if isinstance(got, tuple) and got != want and sorted(map(repr, got)) == sorted(map(repr, want)) and \
                        all(a in ref.get(key, {}) for a in got) and \
                        [ref[key][a] for a in got] == sorted(ref[key][a] for a in got):
                    want = got
            if got != want:
                return "t=%s %s%r answers %r, expected %r" % (now, kind, tuple(args), got, want)
            if state["services"] != ref:
                return "t=%s after %s%r the table is %r, expected %r" % (now, kind, tuple(args), state["services"], ref)
            if sorted(fired[fired_before:], key=repr) != sorted(ref_fired[ref_before:], key=repr):
                return "t=%s %s%r notifies %r, expected %r" % (now, kind, tuple(args), fired[fired_before:], ref_fired[ref_before:])
        return None
    histories = {
        "registration, keep-alive and query": [
            (0, "register", H1, ("foo",), 1), (5, "register", H2, ("foo", "bar"), 2), (10, "register", H1, ("foo",), 1),
            (12, "query", H3, "FOO"), (12, "query", H3, "foo"), (12, "query", H3, "Bar"), (12, "query", H3, "baz")],
        "mixed-case names meet": [
            (0, "register", H1, ("Foo",), 1), (1, "register", H2, ("fOO",), 2), (2, "query", H3, "foo"), (3, "unregister", H1, 1),
            (4, "query", H3, "FOO")],
        "pruning: stale entries leave, the boundary stays, order is by refresh time": [
            (0, "register", H1, ("foo",), 1), (4, "register", H2, ("foo",), 2), (9, "register", H3, ("foo",), 3),
            (15, "register", H1, ("foo",), 1), (24, "query", H1, "foo"), (24.5, "query", H1, "foo"), (29, "query", H1, "foo"),
            (35, "query", H1, "foo"), (36, "query", H1, "foo"), (36, "query", H1, "foo")],
        "a keep-alive protects from pruning": [
            (0, "register", H1, ("foo",), 1), (15, "register", H1, ("foo",), 1), (30, "query", H2, "foo"), (36, "query", H2, "foo")],
        "unregister removes the server under every name and only that server": [
            (0, "register", H1, ("a", "b", "c"), 1), (1, "register", H2, ("b",), 1), (2, "register", H1, ("b",), 2),
            (3, "unregister", H1, 1), (4, "query", H3, "a"), (4, "query", H3, "b"), (4, "query", H3, "c"),
            (5, "unregister", H1, 1), (6, "unregister", H3, 9), (7, "unregister", H2, 1), (8, "unregister", H1, 2), (9, "query", H3, "b")],
        "re-registration after removal counts as new": [
            (0, "register", H1, ("foo",), 1), (1, "unregister", H1, 1), (2, "register", H1, ("foo",), 1), (50, "query", H2, "foo"),
            (51, "register", H1, ("foo",), 1), (52, "query", H2, "foo")],
    }
    histories["one server under two names refreshed at different times"] = [
        (0, "register", H1, ("foo",), 1), (30, "register", H1, ("bar",), 1), (35, "query", H2, "foo"), (36, "query", H2, "bar"),
        (45, "query", H2, "bar"), (51, "query", H2, "bar")]
    histories["equal refresh stamps, one registration with a non-numeric port (stored as given)"] = [
        (0, "register", H1, ("foo",), 1), (0, "register", H1, ("foo",), "1x"), (0, "register", H2, ("foo",), None),
        (0, "register", H2, ("foo",), 7), (1, "query", H3, "foo"), (2, "unregister", H1, "1x"), (3, "query", H3, "foo")]
    histories["a query between registration and keep-alive (answers are computed from the live table every time)"] = [
        (0, "register", H1, ("foo",), 1), (2, "register", H2, ("foo",), 2), (5, "query", H3, "foo"), (15, "register", H1, ("foo",), 1),
        (16, "query", H3, "foo"), (TMO + 1, "query", H3, "foo"), (TMO + 4, "query", H3, "foo"), (TMO + 14, "query", H3, "foo"),
        (TMO + 16, "query", H3, "foo")]
    histories["one request naming the same service twice (case folding)"] = [
        (0, "register", H1, ("foo", "Foo", "BAR"), 1), (1, "register", H1, ("FOO", "bar"), 1), (2, "query", H2, "foo"),
        (3, "unregister", H1, 1), (4, "query", H2, "Bar")]
    # maintenance methods that did not exist in the reference tree (no arguments, private): exercised as idle steps
    from .. import renames as RN
    ref_members = (RN.load_known() or {}).get("rpyc.utils.registry", {}).get("classes", {}).get("RegistryServer", {}).get("methods", {})
    idle = [nm for nm, m in sorted(rs.methods.items()) if ref_members and nm not in ref_members and nm.startswith("_")
            and len(A.params(m.node)) == 1]
    for nm in idle:
        histories["idle step %s() between requests" % nm] = [
            (0, "register", H1, ("foo",), 1), (15, "register", H1, ("bar",), 1), (16, "register", H2, ("foo",), 2),
            (18, "idle", nm), (25, "idle", nm), (25, "query", H3, "bar"), (30, "idle", nm), (37, "idle", nm), (37, "query", H3, "foo"),
            (60, "idle", nm), (60, "query", H3, "bar")]
    histories["quiet periods: receive time-outs between requests"] = [
        (0, "register", H1, ("foo",), 1), (15, "register", H1, ("bar",), 1), (16, "register", H2, ("foo",), 2),
        (18, "idle", None), (25, "idle", None), (25, "query", H3, "bar"), (30, "idle", None), (35, "query", H3, "bar"),
        (37, "query", H3, "foo"), (60, "idle", None), (61, "query", H3, "bar")]
    n_ops = 0
    for title, ops in sorted(histories.items()):
        n_ops += len(ops)
        try:
            bad = None
            if not any(o[1] == "idle" for o in ops):
                bad = run_history(ops)
            if bad is None and "_work" in methods:
                bad = run_history(ops, through_loop=True)
        except AnalysisError as e_:
            # a construct the interpreter does not model: undecided (exit 2 unless a violation is found elsewhere)
            rep.undecided("R18.6", "registry history '%s'" % title, str(e_))
            continue
        rep.ob("R18.6", "registry commands, history '%s'" % title, bad is None,
               "%d commands agree with the reference model (answers, table contents, notifications)" % len(ops) if bad is None else bad,
               fq.loc, kind="table")
    rep.floor("R18.6", "commands evaluated on the registry model", n_ops, 30)
    rets = [n for n in A.walk(fq.node) if isinstance(n, ast.Return)]
    okret = bool(rets) and all(isinstance(r.value, ast.Tuple) or (isinstance(r.value, ast.Call) and A.call_name(r.value) == "tuple")
                               for r in rets)
    rep.ob("R18.6", "cmd_query: replies are tuples (serializable)", okret, "tuple(servers) / ()" if okret else
           "cmd_query returns a non-tuple", fq.loc, kind="site")

    K.share(ctx, rep, "c04", lambda o: o.rule in ("R04.1", "R04.2", "R04.3", "R04.4", "R04.5", "R04.6"), "R18.7", floor=20)
    from . import hygiene as H
    for cq_ in (RS, TCP, UDP):
        H.private_state(ctx, rep, "R18.8", cq_)
    _tcp_socket_model(ctx, rep)


def _tcp_no_unbounded_io(ctx, rep):
    """the TCP registry serves its clients one after the other on the main loop's thread: every operation on a client's socket
    keeps its time-out, so a client that stops reading (or writing) costs at most that time-out"""
    cls = ctx.cls("rpyc.utils.registry.TCPRegistryServer")
    tm = [c for m in cls.methods.values() for c in A.calls(m.node) if isinstance(c.func, ast.Attribute) and c.func.attr == "settimeout"]
    rep.floor("R18.9", "settimeout() calls in TCPRegistryServer", len(tm), 2)
    bad = []
    for m in cls.methods.values():
        for c in A.calls(m.node):
            if isinstance(c.func, ast.Attribute) and ((c.func.attr == "settimeout" and c.args and isinstance(c.args[0], ast.Constant)
                                                       and c.args[0].value is None) or
                                                      (c.func.attr == "setblocking" and c.args and ctx.try_fold(c.args[0]) in (True, 1))):
                bad.append((m, c))
    rep.ob("R18.9", "TCPRegistryServer: no client socket is switched to unbounded blocking I/O", not bad,
           "%d settimeout() calls, all with the server's TIMEOUT" % len(tm) if not bad else
           "%s does `%s`: a client that never reads (or never sends) blocks the registry's only thread forever - nobody else is "
           "answered" % (bad[0][0].qual, A.src(bad[0][1])), ctx.loc(bad[0][1]) if bad else None, kind="site")


def _tcp_socket_model(ctx, rep):
    _tcp_no_unbounded_io(ctx, rep)
    """R18.9: TCPRegistryServer._recv / _send evaluated (sa/miniinterp.py) on model sockets, per behaviour of the accepted
    client: a whole request, a silent client (time-out), a client that closes in the middle of a request (recv() returns b''
    from then on), a client whose earlier request got no reply. _recv must come back (value or exception) after a bounded
    number of steps, a socket is either tracked or closed - never both, never neither - and a finite timeout is set before the
    first read."""
    from .. import miniinterp as MI
    rep.rule("R18.9", "TCP registry: _recv terminates for every client behaviour; an accepted socket is tracked or closed, never "
                      "leaked; the reply closes and untracks it")
    tcp = ctx.cls(TCP)
    meths = {n: m.node for c in reversed(ctx.repo.mro(tcp)) for n, m in c.methods.items()}
    if "_recv" not in tcp.methods or "_send" not in tcp.methods:
        raise AnalysisError("TCPRegistryServer._recv/_send not found")
    rep.analysed(tcp.methods["_recv"])
    rep.analysed(tcp.methods["_send"])
    D = b"WHOLE-REQUEST"

    class _Sock:
        mi_native = True

        def __init__(self, script, addr=("10.9.9.9", 5555)):
            self.script, self.addr = list(script), addr
            self.closed, self.timeout, self.sent, self.reads = False, "unset", [], 0
            self.timeout_at_first_read = None

        def settimeout(self, t):
            self.timeout = t

        def getpeername(self):
            return self.addr

        def recv(self, n, *a):
            if self.closed:
                raise MI.Raised("OSError")
            if self.reads == 0:
                self.timeout_at_first_read = self.timeout
            self.reads += 1
            item = self.script.pop(0) if len(self.script) > 1 else self.script[0]
            if item == "timeout":
                raise MI.Raised("socket.timeout")
            return item[:n]

        def send(self, data, *a):
            if self.closed:
                raise MI.Raised("OSError")
            self.sent.append(data)
            return len(data)
        sendall = send

        def close(self):
            self.closed = True

        def shutdown(self, *a):
            pass

        def fileno(self):
            return 9

        def mi_enter(self):
            return self

        def mi_exit(self, *a):
            self.closed = True
            return False

    class _Closing:
        mi_native = True

        def __init__(self, o):
            self.o = o

        def mi_enter(self):
            return self.o

        def mi_exit(self, *a):
            self.o.close()
            return False

    class _NSx:
        mi_native = True

        def __init__(self, **kw):
            self.__dict__.update(kw)

    def brine_load(data):
        if data != D:
            raise MI.Raised("EOFError")
        return ("RPYC", "QUERY", ("x",))
    bad = []
    rows = 0
    try:
        for label, script in (("a whole request", [D]), ("a silent client", ["timeout"]),
                              ("a client that closes in the middle of its request", [D[:5], b""]),
                              ("a client that sends in two segments and then waits", [D[:5], D[5:], "timeout"]),
                              ("a client that connects and closes at once", [b""])):
            rows += 1
            sock2 = _Sock(script)
            old = _Sock([b""], addr=("10.1.1.1", 1))
            listener = _NSx(accept=lambda sock2=sock2: (sock2, sock2.addr), settimeout=lambda t: None, close=lambda: None,
                            getsockname=lambda: ("0.0.0.0", 18811), fileno=lambda: 3)
            state = {"sock": listener, "_connected_sockets": {old.addr: old}, "TIMEOUT": 3.0, "port": 18811,
                     "logger": _NSx(**{k: (lambda *a, **kw: None) for k in ("debug", "info", "warning", "warn", "error", "exception")})}
            for an_, av_ in tcp.attrs.items():
                v_ = ctx.try_fold(av_, tcp.module)
                if v_ is not None:
                    state.setdefault(an_, v_)
            extra = {"__calls__": {"brine.load": brine_load, "closing": _Closing, "contextlib.closing": _Closing},
                     "__methods__": {k: v for k, v in meths.items() if k not in ("__init__",)}, "__max_iter__": 300,
                     "__globals__": {"brine": _NSx(load=brine_load, dump=lambda o: b"ENC")}}
            extra["__global_lookup__"] = K.module_function_lookup(ctx, tcp.module, extra, skip=("brine", "socket", "time", "sys"))
            try:
                got = MI.call_method(meths["_recv"], state, [], extra)
                out = ("returns", got)
            except MI.Raised as r_:
                out = ("raises", r_.name)
            tracked = [k for k, v in state["_connected_sockets"].items() if v is sock2]
            if out[0] == "raises" and out[1] != "<nontermination>" and "_work" in meths:
                # whatever _recv raises for this client must be something the main loop survives
                wstate = _init_fields(ctx, ctx.cls(RS))
                wstate.update({"services": {}, "pruning_timeout": 20.0, "active": True, "sock": listener,
                               "logger": state["logger"], "_connected_sockets": {}})
                calls_w = []

                def recv_w(exc=out[1], wstate=wstate, calls_w=calls_w):
                    calls_w.append(1)
                    if len(calls_w) > 1:
                        wstate["active"] = False
                        raise MI.Raised("socket.timeout")
                    raise MI.Raised(exc)
                extra_w = dict(extra)
                extra_w["__calls__"] = dict(extra["__calls__"], **{"self._recv": recv_w, "self._send": lambda *a: None,
                                                                    "time.time": lambda: 0.0})
                try:
                    MI.call_method(meths["_work"], wstate, [], extra_w)
                except MI.Raised as r_:
                    bad.append("%s: _recv raises %s, which the main loop does not survive (it leaves _work as %s): the registry stops "
                               "answering everybody" % (label, out[1], r_.name))
            if out == ("raises", "<nontermination>"):
                bad.append("%s: _recv never comes back (it keeps reading a socket that has nothing more to deliver): the registry "
                           "answers nobody from then on" % label)
                continue
            if not old.closed or old.addr in state["_connected_sockets"]:
                bad.append("%s: the socket of an earlier request that got no reply is still open/tracked" % label)
            if out[0] == "raises" and (not sock2.closed or tracked):
                bad.append("%s: _recv raises %s and leaves the accepted socket %s" % (label, out[1], "tracked" if tracked else "open"))
            if out[0] == "returns":
                if sock2.closed == bool(tracked):
                    bad.append("%s: after _recv the accepted socket is %s" % (label, "closed but still tracked" if tracked else
                                                                          "neither tracked nor closed (leaked)"))
                if script == [D] and not (isinstance(got, tuple) and len(got) == 2 and got[0] == D and got[1] == sock2.addr):
                    bad.append("%s: _recv returns %r" % (label, got))
            if sock2.reads and not (isinstance(sock2.timeout_at_first_read, (int, float)) and sock2.timeout_at_first_read > 0):
                bad.append("%s: the accepted socket is read with timeout %r" % (label, sock2.timeout_at_first_read))
            if out[0] == "returns" and tracked:
                try:
                    MI.call_method(meths["_send"], state, [b"REPLY", tracked[0]], extra)
                except MI.Raised as r_:
                    bad.append("%s: _send raises %s" % (label, r_.name))
                if not sock2.closed or any(v is sock2 for v in state["_connected_sockets"].values()):
                    bad.append("%s: after the reply the client's socket is still %s" % (label, "tracked" if not sock2.closed else "in the table"))
                elif sock2.sent != [b"REPLY"]:
                    bad.append("%s: the reply written is %r" % (label, sock2.sent))
    except AnalysisError as e_:
        rep.undecided("R18.9", "TCP registry socket model", str(e_))
        return
    rep.ob("R18.9", "TCPRegistryServer._recv/_send on model sockets: terminates, times out, tracks or closes, replies and releases", not bad,
           "%d client behaviours" % rows if not bad else "; ".join(bad[:3]), tcp.methods["_recv"].loc, kind="model")

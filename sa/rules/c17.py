"""C17 - closing a server ends all its clients; departed clients leave nothing behind.

Ownership rule: whatever container tracks a live client must be drained by close() (R17.1-R17.5)."""
import ast

from .. import astutil as A
from .. import cfgq as Q
from ..engine import quiet_logging_raises
from ..loader import AnalysisError
from . import common as K

SRV = "rpyc.utils.server"
ACCEPT_PATH = ["accept", "_accept_method", "_authenticate_and_build_connection", "_add_inactive_connection"]
CLOSERS = {"close", "shutdown", "_drop_connection"}


def tracking_containers(ctx, cls):
    """self.<field> containers into which the accept path stores a per-client resource"""
    out = {}
    for name in ACCEPT_PATH:
        m = ctx.repo.method(cls, name)
        if m is None:
            continue
        # names that denote the client's resources in this method: the socket parameter, what accept()/authentication/connection
        # building returns, and whatever is derived from those
        res = set(A.params(m.node)[1:]) | {"sock", "conn"}
        changed = True
        while changed:
            changed = False
            for n in A.walk(m.node):
                if isinstance(n, ast.Assign) and (A.names_loaded(n.value) & res or any(
                        (A.call_name(c_) or "").endswith(("accept", "_authenticate_and_build_connection")) for c_ in A.calls(n.value))):
                    for nm in A.names_stored(n):
                        if nm not in res:
                            res.add(nm)
                            changed = True
        for n in A.walk(m.node):
            if isinstance(n, ast.Call) and isinstance(n.func, ast.Attribute) and n.func.attr in ("add", "append"):
                fld = K.self_attr(n.func.value)
                if fld and n.args and A.names_loaded(n.args[0]) & res:
                    out.setdefault(fld, []).append((m, n))
            if isinstance(n, ast.Assign):
                for t in n.targets:
                    if isinstance(t, ast.Subscript) and K.self_attr(t.value) and A.names_loaded(n.value) & res:
                        out.setdefault(K.self_attr(t.value), []).append((m, n))
    return out


def close_closure(ctx, cls):
    """functions executed by cls.close(): the MRO-resolved close, explicit Base.close(self)/super().close() calls and
    self-method calls, transitively (within the server classes)"""
    seen = []
    work = [ctx.repo.method(cls, "close")]
    while work:
        f = work.pop()
        if f is None or f in seen:
            continue
        seen.append(f)
        for c in A.calls(f.node):
            d = A.call_name(c) or ""
            if d.startswith("self.") and d.count(".") == 1:
                work.append(ctx.repo.method(cls, d[5:]))
            elif d.endswith(".close") and c.args and A.src(c.args[0]) == "self":
                r = ctx.repo.resolve_name(f.module, d[:-len(".close")])
                if r and r[0] == "class":
                    work.append(ctx.repo.method(r[1], "close"))
            elif d.startswith("super().") or (isinstance(c.func, ast.Attribute) and isinstance(c.func.value, ast.Call)
                                                and A.call_name(c.func.value) == "super"):
                owner = f.cls
                if owner is not None:
                    for b in ctx.repo.mro(owner)[1:]:
                        if c.func.attr in b.methods:
                            work.append(b.methods[c.func.attr])
                            break
    return seen


def drains(funcs, field):
    """is there a loop over self.<field> (or a copy/view of it) whose body closes every member?"""
    for f in funcs:
        for n in A.walk(f.node):
            if isinstance(n, ast.For) and any(K.self_attr(x, field) for x in A.walk(n.iter)):
                for c in A.calls(n):
                    if isinstance(c.func, ast.Attribute) and c.func.attr in CLOSERS:
                        return f, n
    return None, None


def run(ctx, rep):
    rep.rule("R17.1", "ownership: every container in which the accept path tracks a live client is drained (each member closed) by close()")
    rep.rule("R17.2", "per-client teardown untracks: socket shut down and removed on every exit; forking parent/child release their copies")
    rep.rule("R17.3", "close() is idempotent: the closed flag is tested and set first")
    rep.rule("R17.4", "a one-shot server closes itself after its client, on every path")
    rep.rule("R17.5", "close() closes the listener on every path and clears `active`")
    rep.assume("descriptor counts over long histories and promptness of EOF at the client are not decided")
    base = ctx.cls(SRV + ".Server")
    concrete = [c for c in ctx.repo.subclasses(base) if "_accept_method" in c.methods]
    rep.floor("R17.1", "concrete server classes", len(concrete), 4)

    # ------------------------------------------------------------------ R17.1
    for c in sorted(concrete, key=lambda x: x.name):
        tracked = tracking_containers(ctx, c)
        funcs = close_closure(ctx, c)
        for f in funcs:
            rep.analysed(f)
        if not tracked:
            am = ctx.repo.method(c, "_accept_method")
            forks = am is not None and bool(A.find_calls(am.node, "os.fork"))
            rep.ob("R17.1", "%s: the accepted client is tracked on the accept path" % c.name, forks,
                   "the parent hands the client to a child process and closes its own copy" if forks else
                   "neither accept() nor %s._accept_method registers the accepted socket in a container that close() drains: "
                   "closing the server from another thread does not end this client (no end-of-stream, no disconnect hook)" % c.name,
                   am.loc if am is not None else ctx.loc(c.node), kind="site")
            continue
        for fld, sites in sorted(tracked.items()):
            if fld in ("workers",):
                continue
            f, loop = drains(funcs, fld)
            m, site = sites[0]
            if f is not None:
                # the drain comes after the listener is shut: a client accepted between the drain and the shutdown of the listener
                # would be registered and then never terminated (the second close() returns at the closed-flag test)
                gcl = ctx.cfg(f, raises=lambda a, k: set())
                loopn = [n for n in gcl.live if n.kind in ("iter", "for") and getattr(n, "owner", None) is loop]
                shut = [n for n in gcl.live if n.kind == "stmt" and n.ast is not None and (
                    A.find_calls(n.ast, "self.listener.close") or A.find_calls(n.ast, "self.listener.shutdown") or any(
                        (A.call_name(x) or "").endswith(".close") and x.args and A.src(x.args[0]) == "self" for x in A.calls(n.ast))
                    or any(isinstance(x.func, ast.Attribute) and x.func.attr == "close" and isinstance(x.func.value, ast.Call)
                           and A.call_name(x.func.value) == "super" for x in A.calls(n.ast)))]
                domc = Q.dominators(gcl)
                okord = bool(loopn) and bool(shut) and any(s_.id in domc[loopn[0].id] for s_ in shut)
                rep.ob("R17.1", "%s: self.%s is drained only after the listener has been shut" % (c.name, fld), okord,
                       "the listener is closed (directly or through the base class) before the clients are terminated" if okord else
                       "%s terminates the clients in self.%s before the listener is shut: a client that connects in between is accepted, "
                       "registered and never terminated" % (f.qual.split(".", 3)[-1], fld), ctx.loc(loop))
            rep.ob("R17.1", "%s: clients tracked in self.%s are closed by close()" % (c.name, fld), f is not None,
                   "%s iterates self.%s and closes every member" % (f.qual.split(".", 3)[-1], fld) if f is not None else
                   "%s stores each client in self.%s (%s) but close() [%s] never closes the members of that container: clients "
                   "stay connected after server.close() and hang until their own timeout"
                   % (m.qual.split(".", 3)[-1], fld, ctx.loc(site), ", ".join(x.qual.split(".", 3)[-1] for x in funcs)),
                   ctx.loc(site))

    # ------------------------------------------------------------------ R17.2
    for c in sorted(concrete, key=lambda x: x.name):
        am = c.methods.get("_accept_method")
        if am is None:
            continue
        ga = ctx.cfg(am, raises="default")
        sp = A.params(am.node)[1]
        closes_ = [n for n in ga.live if n.kind == "stmt" and n.ast is not None and A.find_calls(n.ast, "%s.close" % sp)]
        untrack = {n.id for n in ga.live if n.kind == "stmt" and n.ast is not None and any(
            isinstance(x.func, ast.Attribute) and x.func.attr in ("discard", "remove", "clear") and K.self_attr(x.func.value)
            for x in A.calls(n.ast))}
        for cn in closes_:
            p1 = Q.find_path_ef([ga.entry], lambda x: x is cn, lambda a, b, l: b.id not in untrack)
            p2 = Q.find_path_ef([cn], lambda x: x is ga.exit, lambda a, b, l: l != "exc" and b.id not in untrack)
            ok = p1 is None or p2 is None
            rep.ob("R17.2", "%s._accept_method: a client socket closed here is also removed from the tracking table" % c.name, ok,
                   "discard on every path through the close" if ok else
                   "`%s` rejects the client without untracking it (accept() has already added it): every rejected client leaves a "
                   "closed socket in the table for the life of the server" % A.norm(cn.ast), ctx.loc(cn),
                   witness=ctx.path((p1 or []) + (p2 or [])[1:]) if not ok else None)
    K.share(ctx, rep, "c16", lambda o: o.rule == "R16.4" and "shut down and untracked" in o.key, "R17.2", floor=1)
    K.share(ctx, rep, "c16", lambda o: o.rule == "R16.2" and ("_drop_connection" in o.key or "no longer polled" in o.key or "before its descriptor is polled" in o.key), "R17.2", floor=3)
    K.share(ctx, rep, "c11", lambda o: o.rule == "R11.3" and ("serve_all" in o.key or "serve_threaded" in o.key), "R17.2", floor=2)
    # a server tears its clients down one after the other: closing one whose peer has vanished must not raise out of the loop
    K.share(ctx, rep, "c11", lambda o: o.rule == "R11.1" and ("already gone" in o.key or "runs _cleanup" in o.key), "R17.1", floor=2)
    # "each service's disconnect hook runs"
    K.share(ctx, rep, "c11", lambda o: o.rule == "R11.2" and "on_disconnect runs exactly once" in o.key, "R17.1", floor=1)
    # "each client promptly observes end-of-stream": also the client thread that is parked waiting for the receive lock
    K.share(ctx, rep, "c13", lambda o: o.rule == "R13.4", "R17.2", floor=2)
    K.share(ctx, rep, "c05", lambda o: o.rule == "R05.3" and ".close:" in o.key, "R17.2", floor=3)
    fdc = ctx.func(SRV + ".ThreadPoolServer._drop_connection")
    gdc = ctx.cfg(fdc, raises=quiet_logging_raises)
    rep.analysed(fdc, gdc)
    domdc = Q.dominators(gdc)
    fdp = A.params(fdc.node)[1]
    untrack = [n for n in gdc.live if n.ast is not None and n.kind == "stmt" and (
        (isinstance(n.ast, ast.Delete) and "self.fd_to_conn[%s]" % fdp in A.src(n.ast)) or
        A.find_calls(n.ast, "self.fd_to_conn.pop"))]
    closes_ = [n for n in gdc.live if n.ast is not None and n.kind == "stmt" and any(
        isinstance(c.func, ast.Attribute) and c.func.attr == "close" for c in A.calls(n.ast))]
    oku = bool(untrack) and bool(closes_)
    # the table entry must be gone before the descriptor number is released by close(): otherwise a client accepted in
    # between re-uses the number and the late removal deletes the new client's entry
    reach_after_close = Q.reach(closes_, include_starts=False) if closes_ else set()
    after = [u for u in untrack if u in reach_after_close]
    rep.ob("R17.2", "ThreadPoolServer._drop_connection: the descriptor is untracked before its connection is closed",
           oku and not after, "the removal from fd_to_conn precedes conn.close() on every path" if oku and not after else
           "fd_to_conn[fd] is removed after conn.close(): closing frees the descriptor number, a client accepted meanwhile is "
           "registered under the same number and the late removal deletes the new client's entry (never served, never closed)",
           fdc.loc)
    from . import c16
    c16.check_sigchld(ctx, rep, ctx.func(SRV + ".ForkingServer._handle_sigchld"), "R17.2")
    # untracking removes the socket that was tracked: the accepted one (the parameter), not a socket it was later rebound to
    for c in sorted(concrete, key=lambda x: x.name):
        for mname in ("_accept_method", "_authenticate_and_serve_client"):
            m = ctx.repo.method(c, mname)
            if m is None:
                continue
            gm = ctx.cfg(m)
            rdm = Q.ReachingDefs(gm)
            for n in gm.live:
                if n.ast is None or n.kind != "stmt":
                    continue
                for cc in A.calls(n.ast):
                    if (A.call_name(cc) or "") in ("self.clients.discard", "self.clients.remove") and cc.args and \
                            isinstance(cc.args[0], ast.Name):
                        defs = rdm.at(n, cc.args[0].id)
                        okp = defs == {"param"}
                        rep.ob("R17.2", "%s.%s: `%s` removes the accepted socket itself" % (c.name, mname, A.norm(cc)), okp,
                               "the argument is the unmodified socket parameter" if okp else
                               "`%s` may have been rebound (e.g. to the socket the authenticator returned) before it is removed "
                               "from the tracking set: the raw accepted socket stays tracked for ever" % cc.args[0].id, ctx.loc(cc))
    fk = ctx.func(SRV + ".ForkingServer._accept_method")
    g = ctx.cfg(fk, raises=quiet_logging_raises)
    rep.analysed(fk, g)
    dom = Q.dominators(g)
    sp = A.params(fk.node)[1]
    okp = okc = False
    fr_ = K.fork_regions(ctx, g)
    if fr_ is not None:
        _, chi, par, _ = fr_
        chi_only = [n for n in chi if n not in par]
        par_only = [n for n in par if n not in chi]
        pc = [n for n in par_only if n.ast is not None and n.kind == "stmt" and A.find_calls(n.ast, "%s.close" % sp)]
        pd = [n for n in par_only if n.ast is not None and n.kind == "stmt" and (A.find_calls(n.ast, "self.clients.discard")
                                                                                 or A.find_calls(n.ast, "self.clients.remove"))]
        okp = bool(pc) and bool(pd)
        cl = [n for n in chi_only if n.ast is not None and n.kind == "stmt" and A.find_calls(n.ast, "self.listener.close")]
        cc = [n for n in chi_only if n.ast is not None and n.kind == "stmt" and A.find_calls(n.ast, "self.clients.clear")]
        sv = [n for n in chi_only if n.ast is not None and n.kind == "stmt" and A.find_calls(n.ast, "self._authenticate_and_serve_client")]
        okc = bool(cl) and bool(cc) and bool(sv)
    rep.ob("R17.2", "ForkingServer: the parent closes its copy of the client socket and untracks it", okp,
           "sock.close(); self.clients.discard(sock)" if okp else "the parent keeps the client's descriptor open/tracked after fork", fk.loc)
    rep.ob("R17.2", "ForkingServer: the child drops the listener and the inherited client set before serving", okc,
           "self.listener.close(); self.clients.clear()" if okc else "the child keeps the listener or other clients' sockets", fk.loc)

    # ------------------------------------------------------------------ R17.3 / R17.5
    fc = ctx.func(SRV + ".Server.close")

    def close_raises(node_ast, kind):
        r = quiet_logging_raises(node_ast, kind)
        if r is None and node_ast is not None and not isinstance(node_ast, ast.Raise):
            names = [A.call_name(c) or "" for c in A.calls(node_ast)]
            if names and all(n.endswith((".shutdown", ".close")) for n in names):
                return {OSError}      # socket operations fail with OSError (socket.error)
        return r
    gc = ctx.cfg(fc, raises=close_raises)
    rep.analysed(fc, gc)
    domc = Q.dominators(gc)
    flag_tests = [n for n in gc.live if n.kind == "test" and K.self_attr(n.ast, "_closed")]
    sets = [n for n in gc.live if n.kind == "stmt" and isinstance(n.ast, ast.Assign) and any(
        K.self_attr(t, "_closed") for t in n.ast.targets) and ctx.try_fold(n.ast.value) is True]
    ok = bool(flag_tests) and bool(sets)
    if ok:
        t = flag_tests[0]
        ok = all(isinstance(s.ast, ast.Return) for s, l in t.succ if l == "true")
        # nothing that can fail lies between the test and the flag store
        between = Q.reach([s for s, l in t.succ if l == "false"], avoid=sets, labels=("next", "true", "false"))
        ok = ok and all(not n.raises for n in between if n not in sets)
        first_real = [n for n in gc.live if n.kind in ("stmt", "test") and not (
            isinstance(n.ast, ast.Expr) and isinstance(n.ast.value, ast.Constant))]
        ok = ok and all(t.id in domc[n.id] for n in first_real if n is not t)
    rep.ob("R17.3", "Server.close: tests the closed flag first and sets it before doing anything else", ok,
           "`if self._closed: return; self._closed = True`" if ok else "a second close() repeats the teardown", fc.loc)
    lclose = [n for n in gc.live if n.kind == "stmt" and n.ast is not None and A.find_calls(n.ast, "self.listener.close")]
    p = Q.find_path(sets[0], [gc.exit], avoid=lclose, labels=("next", "true", "false")) if sets else []
    pe = Q.find_path(sets[0], [gc.excexit], avoid=lclose) if sets else []
    rep.ob("R17.5", "Server.close: the listener is closed on every path (shutdown/unregister errors are swallowed)",
           bool(lclose) and p is None and pe is None,
           "self.listener.close() lies on every normal and exceptional path after the flag is set" if (lclose and p is None and pe is None)
           else "close() can finish or fail without closing the listener", fc.loc, witness=ctx.path(p or pe) if (p or pe) else None)
    act = [n for n in gc.live if n.kind == "stmt" and isinstance(n.ast, ast.Assign) and any(
        K.self_attr(t, "active") for t in n.ast.targets) and ctx.try_fold(n.ast.value) is False]
    p2 = Q.find_path(sets[0], [gc.exit], avoid=act, labels=("next", "true", "false")) if sets else []
    rep.ob("R17.5", "Server.close: clears `active` so the accept loop ends", bool(act) and p2 is None,
           "self.active = False" if act and p2 is None else "close() leaves the accept loop running", fc.loc)
    # the client loop: each tracked socket is shut down and closed, then the set cleared
    loops = [n for n in A.walk(fc.node) if isinstance(n, ast.For) and any(K.self_attr(x, "clients") for x in A.walk(n.iter))]
    okl = False
    if loops:
        lp = loops[0]
        tv = A.src(lp.target)
        okl = bool(A.find_calls(lp, "%s.close" % tv)) and bool(A.find_calls(lp, "%s.shutdown" % tv))
        # close() must run even if shutdown() fails
        for c in A.find_calls(lp, "%s.close" % tv):
            tr = A.enclosing(c, ast.Try)
            if tr is not None and any(A.contains(s, c) for s in tr.body) and A.contains(lp, tr):
                okl = False
        copy_iter = isinstance(lp.iter, ast.Call)
        okl = okl and copy_iter
    rep.ob("R17.1", "Server.close: every tracked client socket is shut down and closed (over a copy of the set)", okl,
           "for c in set(self.clients): shutdown (errors swallowed); c.close()" if okl else
           "close() does not shut down and close each tracked client socket", ctx.loc(loops[0]) if loops else fc.loc)

    # ------------------------------------------------------------------ R17.4
    fo = ctx.func(SRV + ".OneShotServer._accept_method")
    go = ctx.cfg(fo, raises="default")
    rep.analysed(fo, go)
    closes = [n for n in go.live if n.kind == "stmt" and n.ast is not None and A.find_calls(n.ast, "self.close")]
    serve = [n for n in go.live if n.kind == "stmt" and n.ast is not None and A.find_calls(n.ast, "self._authenticate_and_serve_client")]
    bad = None
    for s in serve:
        for t, l in s.succ:
            p = Q.find_path(t, [go.exit, go.excexit], avoid=closes, skip_first=False)
            if p:
                bad = [s] + p
    rep.ob("R17.4", "OneShotServer: closes itself after serving its client, whether that succeeded or failed",
           bool(serve) and bool(closes) and bad is None,
           "try: serve finally: self.close()" if serve and closes and bad is None else
           "the one-shot server keeps listening when serving its client %s" % ("fails" if closes else "finishes"), fo.loc,
           witness=ctx.path(bad) if bad else None)
    cnt = Q.count_on_paths(go, go.entry, lambda n: n in serve)
    at = cnt.get(go.exit.id, frozenset())
    rep.ob("R17.4", "OneShotServer: serves exactly one connection per accept", at == frozenset([1]),
           "one serve call on every normal path" if at == frozenset([1]) else "serve counts %s" % sorted(at), fo.loc)
    _accept_rechecks_state(ctx, rep)


def _accept_rechecks_state(ctx, rep):
    """R17.6: a socket obtained from listener.accept() is tracked and served only after the server's state has been looked at
    again: close() from another thread may have swept self.clients while accept() was blocked; a socket registered after that
    sweep is served (or parked) by a server that reports closed, its client never sees end-of-stream."""
    rep.rule("R17.6", "Server.accept re-examines `active` between obtaining a socket and tracking/serving it")
    f = ctx.func(SRV + ".Server.accept")
    g = ctx.cfg(f)
    rep.analysed(f, g)
    acc = [n for n in g.live if n.ast is not None and n.kind == "stmt" and A.find_calls(n.ast, "self.listener.accept")]
    sinks = [n for n in g.live if n.ast is not None and n.kind == "stmt" and (
        A.find_calls(n.ast, "self.clients.add") or A.find_calls(n.ast, "self._accept_method"))]
    tests = {n.id for n in g.live if n.ast is not None and n.kind == "test" and any(
        K.self_attr(x, "active") or K.self_attr(x, "_closed") for x in A.walk(n.ast))}
    rep.floor("R17.6", "listener.accept() sites in Server.accept", len(acc), 1)
    rep.floor("R17.6", "tracking / hand-off sites in Server.accept", len(sinks), 2)
    wit = None
    for a in acc:
        for t, l in a.succ:
            if l == "exc":
                continue
            p = Q.find_path_ef([t], lambda x: x in sinks, lambda u, v, l2: l2 != "exc" and v.id not in tests, skip_first=False)
            if p is not None and t.id not in tests:
                wit = [a] + p
    rep.ob("R17.6", "Server.accept: `active` is tested on every path from a successful accept() to tracking / serving the socket",
           bool(acc) and bool(sinks) and wit is None,
           "every such path passes a test of self.active" if wit is None else
           "a socket accepted while close() was sweeping the client set is added to self.clients and handed to _accept_method "
           "without looking at self.active again: the client of a closed server keeps being served and never sees end-of-stream",
           f.loc, witness=ctx.path(wit) if wit else None)

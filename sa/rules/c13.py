"""C13 - threads sharing a connection never cross, duplicate or lose replies.

Decides the receive-lock / condition / publication discipline (R13.1-R13.7), not the schedules."""
import ast

from .. import astutil as A
from .. import cfgq as Q
from ..loader import AnalysisError
from ..report import Report
from . import common as K


def blocking_lock_escape(ctx, rep, rule):
    """the receive lock of serve() is taken by a non-blocking try-acquire only; a helper that is handed the lock and may block on
    it (acquire_lock(self._recvlock, wait_for_lock, timeout)) turns every waiter into a thread blocked on the lock itself: when
    the receiver hands the lock over the waiter does not re-check its result - it goes straight into poll() for its whole
    remaining timeout although its reply has just been dispatched. Returns True when such a hand-off was reported."""
    f = ctx.func(K.CONN + ".serve")
    locks = set(K.fields_constructed_with(ctx, K.CONN, {"Lock", "RLock"}))
    found = False
    for c in A.calls(f.node):
        for i, a in enumerate(c.args):
            fld = K.self_attr(a)
            if fld not in locks:
                continue
            r = ctx.repo.resolve_name(f.module, A.call_name(c) or "")
            if not r or r[0] != "func":
                continue
            # every definition of that helper (compat defines it per interpreter version): does it acquire its parameter with a
            # blocking flag that is not the constant False at this call site?
            defs = [fu for q, fu in ctx.repo.funcs.items() if fu.module is r[1].module and fu.name == r[1].name]
            blocking = None
            for fu in defs:
                ps = A.params(fu.node)
                if i >= len(ps):
                    continue
                for ac in A.calls(fu.node):
                    if isinstance(ac.func, ast.Attribute) and ac.func.attr == "acquire" and isinstance(ac.func.value, ast.Name) and \
                            ac.func.value.id == ps[i]:
                        b = ac.args[0] if ac.args else None
                        if b is None:
                            blocking = "always"
                        elif isinstance(b, ast.Name) and b.id in ps and ps.index(b.id) < len(c.args):
                            v = ctx.try_fold(c.args[ps.index(b.id)], f.module, default="?")
                            if v is not False:
                                blocking = "when `%s` is true" % A.src(c.args[ps.index(b.id)])
                        elif ctx.try_fold(b, fu.module, default="?") is not False:
                            blocking = "always"
            if blocking:
                found = True
                rep.ob(rule, "Connection.serve: the receive lock is only ever try-acquired (a waiter sleeps on the condition, never on "
                       "the lock)", False,
                       "`%s` hands self.%s to %s, which acquires it blocking (%s): a waiter blocked on the lock itself takes it the "
                       "moment the receiver lets go and polls the channel for its whole remaining timeout, although the receiver "
                       "has just dispatched the waiter's reply" % (A.src(c)[:70], fld, r[1].name, blocking), ctx.loc(c), kind="site")
    return found


def condition_released(ctx, rep, rule):
    """the waiters' condition is never left held when serve() ends - by return or by exception - whichever way it is taken
    (`with`, or acquire()/release()): a thread that returns still owning the condition's lock keeps every later waiter from
    re-acquiring it after being notified"""
    from . import hygiene as H_
    f = ctx.func(K.CONN + ".serve")
    for cf_ in K.fields_constructed_with(ctx, K.CONN, {"Condition"}):
        g_, must_, may_, eff_ = H_.lock_state(ctx, f, cf_)
        leaks = [x for x in (g_.exit, g_.excexit) if may_.get(x.id)]
        wit = None
        if leaks:
            acq = [n for n in g_.live if eff_(n) is True]
            rel = [n for n in g_.live if eff_(n) is False]
            for a_ in acq:
                wit = wit or Q.find_path(a_, leaks, avoid=rel, skip_first=True)
        rep.ob(rule, "Connection.serve: the waiters' condition self.%s is released on every exit" % cf_, not leaks,
               "not held at the normal nor at the exceptional exit" if not leaks else
               "serve() can return while still holding self.%s: the thread keeps the condition's lock, a waiter that is notified "
               "later can never re-acquire it and sleeps through its reply" % cf_, f.loc,
               witness=ctx.path(wit) if wit else None, kind="site")


def serve_slots(ctx):
    """(func, cfg, lock field, condition field, acquire edges, fail edges, release nodes, held region)"""
    f = ctx.func(K.CONN + ".serve")
    g = ctx.cfg(f)
    acq = K.method_calls_on_self_field(f.node, "acquire")
    if not acq:
        raise AnalysisError("serve(): no acquisition of a receive lock found")
    lock = K.one([fld for fld, _ in acq], "receive-lock field acquired in serve")
    conds = K.fields_constructed_with(ctx, K.CONN, {"Condition"})
    cond = K.one(conds, "Condition field of Connection")
    acq_nodes = [n for n in g.live if n.ast is not None and n.kind in ("stmt", "test")
                 and A.find_calls(n.ast, "self.%s.acquire" % lock)]
    rel_nodes = [n for n in g.live if n.ast is not None and n.kind == "stmt"
                 and A.find_calls(n.ast, "self.%s.release" % lock)]
    acq_edges, fail_edges = [], []
    for n in acq_nodes:
        if n.kind == "test":
            acq_edges.append((n, "true"))
            fail_edges.append((n, "false"))
        else:
            acq_edges.append((n, "next"))
    held = Q.region_after(acq_edges, rel_nodes)
    return f, g, lock, cond, acq, acq_nodes, acq_edges, fail_edges, rel_nodes, held


def run(ctx, rep):
    rep.rule("R13.1", "receive-lock pairing in serve(): released on every exit after a successful try-acquire, never on the failed branch")
    rep.rule("R13.2", "one receiver: the channel is polled/read only inside the acquire->release region of serve()")
    rep.rule("R13.3", "dispatch happens outside (after) the receive lock; each received packet reaches exactly one _dispatch")
    rep.rule("R13.4", "no lost wake-up: failed try-acquire and wait() share one `with condition:` block; notify_all is issued "
                      "holding the condition, after the release, on every exit of the locked region")
    rep.rule("R13.5", "publication order in AsyncResult.__call__: value fields are written before the ready flag")
    rep.rule("R13.6", "correlation is atomic: single next() for sequence numbers, single dict.pop for callback lookup, "
                      "registration before transmission")
    rep.rule("R13.7", "the background server only goes through serve() and stop() joins its thread")
    rep.rule("R13.8", "requests issued concurrently are all transmitted: send-layer hand-off discipline (= R12.1-R12.5)")
    rep.rule("R13.9", "receive lock, condition, pending-request table and sequence counter are the constructors the hand-off relies on")
    rep.rule("R13.10", "a result keeps its connection for as long as somebody may wait on it (the waiter tests the flag, then serves that connection)")
    rep.assume("schedules are not enumerated: only the lock/condition/publication discipline is decided",
               "Lock.release / Condition.notify_all do not raise when used as checked by R13.1/R13.4",
               "the documented caveat of serve_threaded (nested sync requests) is out of scope")

    K.connection_state(ctx, rep, "R13.9", ["_recvlock", "_recv_event", "_request_callbacks", "_seqcounter"])
    condition_released(ctx, rep, "R13.4")
    f, g, lock, cond, acq, acq_nodes, acq_edges, fail_edges, rel_nodes, held = serve_slots(ctx)
    rep.analysed(f, g)
    rep.floor("R13.1", "release sites of the receive lock in serve()", len(rel_nodes), 1)
    for fld, c in acq:
        nb = K.nonblocking_acquire(c)
        rep.ob("R13.1", "serve(): acquisition of %s is a try-lock" % fld, nb,
               "acquire(False): a thread that cannot receive waits on the condition instead" if nb else
               "blocking acquire of the receive lock: a nested serve() on the same thread deadlocks", ctx.loc(c), kind="site")
    exits = [g.exit, g.excexit]
    for (n, lab) in acq_edges:
        bad = None
        for s in [t for t, l in n.succ if l == lab]:
            p = Q.find_path(s, exits, avoid=rel_nodes, skip_first=False)
            if p:
                bad = p
                break
        rep.ob("R13.1", "serve(): receive lock released on every exit after `%s`" % A.norm(n.ast), bad is None,
               "every path from the successful try-acquire to an exit (normal, EOFError, any other failure) passes "
               "through release()" if bad is None else "a path leaves serve() holding the receive lock: no thread can receive any more",
               ctx.loc(n), witness=ctx.path(bad) if bad else None)
    aset = {(n.id, lab) for n, lab in acq_edges}
    for r in rel_nodes:
        p = Q.find_path_ef(g.entry, lambda x: x is r, lambda a, b, l: (a.id, l) not in aset)
        rep.ob("R13.1", "serve(): release (copy %s) only after a successful acquire" % (r.cont or "plain"), p is None,
               "release() is reachable only through the acquired edge" if p is None else
               "release() can run on the path that failed to acquire (releases another thread's lock)",
               ctx.loc(r), witness=ctx.path(p) if p else None)

    # ---- R13.2
    rx_nodes = [n for n in g.live if n.ast is not None and n.kind in ("stmt", "test") and
                (A.find_calls(n.ast, "self._channel.poll") or A.find_calls(n.ast, "self._channel.recv"))]
    rep.floor("R13.2", "channel poll/recv sites in serve()", len(rx_nodes), 1)
    for n in rx_nodes:
        rep.ob("R13.2", "serve(): `%s` under the receive lock" % n.text()[:60], n in held,
               "the channel is read inside the acquire->release region" if n in held else
               "the channel is polled/read without holding the receive lock (two threads can split one packet)", ctx.loc(n))
    outside = [c for fu, c in ctx.call_sites("._channel.poll", "._channel.recv", "._channel.stream.read",
                                             "._channel.stream.poll")
               if fu is None or fu.qual != f.qual]
    rep.ob("R13.2", "package: readers of a connection's channel", not outside,
           "Connection.serve is the only function reading a connection's channel" if not outside else
           "the channel of a connection is read outside serve(): %s" % ", ".join(ctx.loc(c) for c in outside),
           ctx.loc(outside[0]) if outside else f.loc, kind="site")

    # ---- R13.3
    disp = [n for n in g.live if n.ast is not None and n.kind in ("stmt", "test") and A.find_calls(n.ast, "self._dispatch")]
    rep.floor("R13.3", "_dispatch call sites in serve()", len(disp), 1)
    dom = Q.dominators(g)
    rd = Q.ReachingDefs(g)
    for d in disp:
        outside_lock = d not in held
        after_rel = any(r.id in dom[d.id] for r in rel_nodes) or Q.find_path_ef(
            g.entry, lambda x: x is d, lambda a, b, l: a.id not in {r.id for r in rel_nodes}) is None
        rep.ob("R13.3", "serve(): `%s` runs after the receive lock was released" % A.norm(d.ast)[:60],
               outside_lock and after_rel,
               "dispatch is outside the locked region and every path to it passes a release()" if outside_lock and after_rel
               else "a packet is dispatched while the receive lock is held: a handler that makes a nested request "
                    "waits for a reply nobody can receive (self-deadlock)", ctx.loc(d))
        # ... nor with the waiters' condition held: the handler may run for long and make nested requests; every other thread
        # that wants to sleep on (or notify) the condition is stuck until it ends, and sleeps through its own reply
        for cf_ in K.fields_constructed_with(ctx, K.CONN, {"Condition"}):
            from . import hygiene as H_
            g2_, must2_, may2_, _eff = H_.lock_state(ctx, f, cf_)
            held_c = [n_ for n_ in g2_.live if n_.ast is not None and A.find_calls(n_.ast, "self._dispatch") and may2_.get(n_.id)]
            rep.ob("R13.3", "serve(): dispatch runs without the waiters' condition self.%s held" % cf_, not held_c,
                   "the condition is held only around wait()/notify_all()" if not held_c else
                   "`%s` runs inside `with self.%s`: while a handler runs (possibly for long, possibly making nested requests) no "
                   "other thread can wait on or notify the condition - a waiter whose reply is received meanwhile is not woken"
                   % (A.norm(held_c[0].ast)[:50], cf_), ctx.loc(held_c[0]) if held_c else ctx.loc(d))
        for c in A.find_calls(d.ast, "self._dispatch"):
            okd = False
            if len(c.args) == 1 and isinstance(c.args[0], ast.Name):
                defs = rd.at(d, c.args[0].id)
                okd = bool(defs) and all(x != "param" and x in rx_nodes for x in defs)
            rep.ob("R13.3", "serve(): what is dispatched is the packet just received", okd,
                   "the argument's only reaching definition is the receive statement" if okd else
                   "the dispatched value is not (only) the packet received under the lock", ctx.loc(c))
    ids = {n.id for n in disp}
    cnt = Q.count_on_paths(g, g.entry, lambda n: n.id in ids)
    at = cnt.get(g.exit.id, frozenset())
    okc = at <= frozenset([0, 1])
    rep.ob("R13.3", "serve(): a received packet is dispatched at most once", okc,
           "dispatch counts at the normal exit: %s" % sorted(at) if okc else
           "one serve() call can dispatch %s times (duplicate delivery)" % sorted(at), f.loc)
    # data-received path: from the truthy edge of the test on the received value, exactly one dispatch
    data_tests = []
    for n in g.live:
        if n.kind == "test" and isinstance(n.ast, ast.Name):
            defs = rd.at(n, n.ast.id)
            if defs and all(x != "param" and x in rx_nodes for x in defs):
                data_tests.append(n)
    for t in data_tests:
        starts = [x for x, l in t.succ if l == "true"]
        for s in starts:
            c2 = Q.count_on_paths(g, s, lambda n: n.id in ids, labels=("next", "true", "false"))
            at2 = c2.get(g.exit.id, frozenset())
            ok1 = at2 == frozenset([1])
            rep.ob("R13.3", "serve(): a non-empty packet reaches exactly one _dispatch", ok1,
                   "from the data-received edge every normal path dispatches once" if ok1 else
                   "a packet consumed from the channel can be dropped without being dispatched (counts %s): "
                   "its requester never gets the reply" % sorted(at2), ctx.loc(t))
    if not data_tests:
        # no emptiness test on the received value: dispatch must then be unconditional after the receive
        rep.info("serve(): no truth test on the received value found; relying on the at-most-once count")

    # ---- R13.4
    wait_calls = [c for c in A.calls(f.node) if A.call_name(c) == "self.%s.wait" % cond]
    rep.floor("R13.4", "wait() on the receive condition in serve()", len(wait_calls), 1)

    def enclosing_with_cond(node):
        for a in A.ancestors(node):
            if a is f.node:
                return None
            if isinstance(a, ast.With) and any(K.self_attr(it.context_expr, cond) for it in a.items):
                return a
        return None
    for fld, c in acq:
        w1 = enclosing_with_cond(c)
        ok_w = w1 is not None and all(enclosing_with_cond(w) is w1 for w in wait_calls)
        rep.ob("R13.4", "serve(): failed try-acquire and wait() are atomic under the condition", ok_w,
               "the try-acquire test and the wait() lie in the same `with self.%s:` block, so a notify_all between "
               "them is impossible" % cond if ok_w else
               "the try-acquire and the wait() are not in one `with self.%s:` block: the holder can release and notify "
               "in between, and the waiter sleeps through the wake-up" % cond, ctx.loc(c))
    notif = [n for n in g.live if n.ast is not None and n.kind == "stmt" and A.find_calls(n.ast, "self.%s.notify_all" % cond)]
    notif1 = [n for n in g.live if n.ast is not None and n.kind == "stmt" and A.find_calls(n.ast, "self.%s.notify" % cond)]
    if notif1 and not notif:
        rep.ob("R13.4", "serve(): all waiters are woken", False,
               "notify() wakes a single waiter; the others keep sleeping although the lock is free", ctx.loc(notif1[0]), kind="site")
    rep.floor("R13.4", "notify_all sites in serve()", len(notif) + len(notif1), 1)
    for n in notif:
        c = A.find_calls(n.ast, "self.%s.notify_all" % cond)[0]
        okh = enclosing_with_cond(c) is not None
        rep.ob("R13.4", "serve(): notify_all (copy %s) is issued holding the condition" % (n.cont or "plain"), okh,
               "inside `with self.%s:`" % cond if okh else "notify_all without holding the condition raises RuntimeError",
               ctx.loc(n))
        okr = any(r.id in dom[n.id] for r in rel_nodes)
        rep.ob("R13.4", "serve(): notify_all (copy %s) comes after the release" % (n.cont or "plain"), okr,
               "a release() dominates the notification, so a woken waiter finds the lock free" if okr else
               "waiters are notified before the lock is released: they retry, fail the try-lock and go back to sleep "
               "with nobody left to wake them", ctx.loc(n))
    for (n, lab) in acq_edges:
        bad = None
        for s in [t for t, l in n.succ if l == lab]:
            p = Q.find_path(s, exits, avoid=notif, skip_first=False)
            if p:
                # exceptional exits where release itself failed are not interesting; require that the path
                # passed a release (i.e. the lock was really given up without telling anyone)
                bad = p
                break
        rep.ob("R13.4", "serve(): every exit of the locked region notifies the waiters", bad is None,
               "every path from the successful try-acquire to an exit passes through notify_all()" if bad is None else
               "the receive lock can be released without notifying the threads waiting for it", ctx.loc(n),
               witness=ctx.path(bad) if bad else None)

    # ---- R13.5
    fc = ctx.func("rpyc.core.async_.AsyncResult.__call__")
    gc = ctx.cfg(fc)
    rep.analysed(fc, gc)
    domc = Q.dominators(gc)

    def stores(field):
        return [n for n in gc.live if n.kind == "stmt" and isinstance(n.ast, ast.Assign)
                and any(K.self_attr(t, field) for t in n.ast.targets)]
    ready = stores("_is_ready")
    rep.floor("R13.5", "stores of the ready flag in AsyncResult.__call__", len(ready), 1)
    for r in ready:
        for fld in ("_is_exc", "_obj"):
            okp = any(s.id in domc[r.id] for s in stores(fld))
            rep.ob("R13.5", "AsyncResult.__call__: %s is written before the ready flag" % fld, okp,
                   "the store of self.%s dominates `self._is_ready = True` (readers test the flag first)" % fld if okp else
                   "the ready flag is published before self.%s: a thread that sees ready can read a stale value" % fld,
                   ctx.loc(r))
    # who-may-write
    writers = []
    for m in ctx.repo.modules.values():
        for n in ast.walk(m.tree):
            if isinstance(n, ast.Attribute) and n.attr in ("_is_ready", "_obj", "_is_exc") \
                    and isinstance(n.ctx, ast.Store):
                fq = getattr(A.enclosing(n, ast.FunctionDef), "_func", None)
                if fq is None or fq.qual not in ("rpyc.core.async_.AsyncResult.__init__",
                                                 "rpyc.core.async_.AsyncResult.__call__"):
                    writers.append(n)
    rep.ob("R13.5", "package: result fields are written only by __init__ and __call__", not writers,
           "no other writer" if not writers else "result state written at %s" % ", ".join(ctx.loc(w) for w in writers),
           ctx.loc(writers[0]) if writers else fc.loc, kind="site")

    # ---- R13.6 (re-uses the C08 rules for the shared constructs)
    from . import c08
    sub = Report("C08", rep.tier)
    c08.run(ctx, sub)
    n6 = 0
    for o in sub.obs:
        take = o.rule == "R08.5" or (o.rule == "R08.3" and ("_seq_request_callback" in o.key or "package:" in o.key)) or \
            (o.rule == "R08.4" and "registered" in o.key)
        if take:
            n6 += 1
            rep.ob("R13.6", o.key, o.ok, o.msg, o.loc, o.witness, o.nontrivial, o.kind)
    rep.floor("R13.6", "correlation obligations shared with C08", n6, 5)

    # ---- R13.7
    fb = ctx.func("rpyc.utils.helpers.BgServingThread._bg_server")
    # the connection may be held in a local for the life of the loop (`conn = self._conn`)
    conn_alias = {t.id for n in A.walk(fb.node) if isinstance(n, ast.Assign) and K.self_attr(n.value, "_conn")
                  for t in n.targets if isinstance(t, ast.Name)}
    uses = []
    for c in A.calls(fb.node):
        d = A.call_name(c) or ""
        if d.startswith("self._conn."):
            uses.append(d)
        elif "." in d and d.split(".")[0] in conn_alias and d.count(".") == 1:
            uses.append("self._conn." + d.split(".", 1)[1])
    okb = bool(uses) and all(u in ("self._conn.serve", "self._conn.poll", "self._conn.poll_all") for u in uses)
    chan = [n for n in A.walk(fb.node) if isinstance(n, ast.Attribute) and n.attr in ("_channel", "_recvlock", "_sendlock")]
    rep.ob("R13.7", "BgServingThread._bg_server only goes through serve()", okb and not chan,
           "connection methods used: %s" % sorted(set(uses)) if okb and not chan else
           "the background thread touches the connection other than through serve(): %s" % sorted(set(uses)),
           fb.loc, kind="site")
    fst = ctx.func("rpyc.utils.helpers.BgServingThread.stop")
    okj = bool(A.find_calls(fst.node, "self._thread.join"))
    gst = ctx.cfg(fst)
    flag_off = [n for n in gst.live if n.kind == "stmt" and isinstance(n.ast, ast.Assign)
                and any(K.self_attr(t, "_active") for t in n.ast.targets)]
    joins = [n for n in gst.live if n.kind == "stmt" and n.ast is not None and A.find_calls(n.ast, "self._thread.join")]
    doms = Q.dominators(gst)
    oko = okj and bool(flag_off) and all(any(fo.id in doms[j.id] for fo in flag_off) for j in joins)
    rep.ob("R13.7", "BgServingThread.stop clears the flag and then joins the thread", oko,
           "self._active = False dominates self._thread.join()" if oko else
           "stop() does not (first clear the flag and then) join the serving thread", fst.loc)

    # ---- R13.8
    K.share(ctx, rep, "c12", lambda o: o.rule in ("R12.1", "R12.2", "R12.3", "R12.5"), "R13.8", floor=8)
    from . import hygiene as H
    H.bound_once(ctx, rep, "R13.10", "rpyc.core.async_.AsyncResult", ["_conn"],
                 "a waiter that saw 'not ready' calls self._conn.serve() next; if another thread publishes the reply in between and "
                 "drops the connection the waiter fails with AttributeError instead of getting its reply")
    _close_only_on_eof(ctx, rep)
    _serve_threaded_model(ctx, rep)
    rep.rule("R13.15", "each receiver gets its own bytes from the stream; closing a socket wakes the threads blocked on it (= R05.1, R05.3, R05.9)")
    rep.rule("R13.13", "every request has a result object of its own, which is what the pending table holds (= R01.4)")
    K.share(ctx, rep, "c01", lambda o: o.rule == "R01.4" and ("sync_request" in o.key or "callback registered" in o.key), "R13.13", floor=2)
    rep.rule("R13.12", "completion callbacks: each runs exactly once even when its registration races with the delivery (= R15.3)")
    K.share(ctx, rep, "c15", lambda o: o.rule == "R15.3" and "callbacks run exactly once" in o.key, "R13.12", floor=1)
    # what a receiver decodes after releasing the receive lock are its own bytes (each read returns fresh bytes, exactly as many
    # as asked), and closing a socket another thread sleeps on wakes that thread (shutdown before close) (= R05.1, R05.9, R05.3)
    K.share(ctx, rep, "c05", lambda o: (o.rule in ("R05.1", "R05.9") and "SocketStream.read" in o.key) or
            (o.rule == "R05.3" and "SocketStream.close" in o.key), "R13.15", floor=3)


def _close_only_on_eof(ctx, rep):
    """R13.11: serve() tears the connection down (close -> _cleanup clears the pending-request table of EVERY thread) only for the
    transport's end-of-stream signal. A wider handler closes a healthy connection because one thread's completion callback or
    a nested request raised an unrelated OSError/TimeoutError - the other threads' outstanding requests are lost although the
    peer answers them."""
    rep.rule("R13.11", "serve() closes the connection only on the transport's EOFError: no wider handler around dispatch/receive "
                       "calls close()")
    import builtins as _b
    f = ctx.func(K.CONN + ".serve")
    rep.analysed(f)
    n_h = 0
    for h in A.walk(f.node):
        if not isinstance(h, ast.ExceptHandler):
            continue
        closes = any(A.find_calls(st, "self.close") or A.find_calls(st, "self._cleanup") for st in h.body)
        if not closes:
            continue
        n_h += 1
        if h.type is None:
            names = ["BaseException"]
        else:
            elts = h.type.elts if isinstance(h.type, ast.Tuple) else [h.type]
            names = [A.dotted(e) or A.src(e) for e in elts]
        wide = []
        for nm in names:
            base = nm.split(".")[-1]
            cls_ = getattr(_b, base, None) if nm == base else None
            if nm in ("socket.error", "select.error", "select_error", "IOError", "EnvironmentError", "socket.timeout"):
                cls_ = OSError
            if isinstance(cls_, type) and issubclass(cls_, EOFError):
                continue
            kc = ctx.repo.resolve_class(f.module, nm)
            if kc is not None and any("EOFError" in [A.dotted(b) for b in k_.node.bases] for k_ in ctx.repo.mro(kc)):
                continue
            wide.append(nm)
        rep.ob("R13.11", "Connection.serve: the handler `except %s` that closes the connection catches the end-of-stream signal only"
               % (A.src(h.type) if h.type is not None else ""), not wide,
               "EOFError" if not wide else
               "the handler also catches %s: any such error escaping the dispatch of ONE message (a completion callback that fails "
               "with FileNotFoundError, a nested request that times out - TimeoutError is an OSError) closes the connection and "
               "clears every thread's pending requests, although the transport is healthy and the peer answers them" % wide,
               ctx.loc(h), kind="site")
    rep.floor("R13.11", "closing handlers in Connection.serve", n_h, 2)


class _State(dict):
    """fields of the model connection; a private method the index no longer lists (a dissolved helper handed to spawn() as a
    thread target) is an opaque callable - the model never runs the threads"""
    def __contains__(self, k):
        return dict.__contains__(self, k) or (isinstance(k, str) and k.startswith("_") and not k.startswith("__"))

    def __getitem__(self, k):
        if dict.__contains__(self, k):
            return dict.__getitem__(self, k)
        return lambda *a, **kw: None


def _serve_threaded_model(ctx, rep):
    """R13.14: Connection.serve_threaded(n) evaluated with a model `spawn` (records the order of events, returns a thread object
    whose join() records too): all n serving threads exist before the first join() - a request that blocks in its handler then
    leaves n-1 threads to dispatch the others - each is joined once and the connection is closed afterwards."""
    from .. import miniinterp as MI
    rep.rule("R13.14", "serve_threaded(n) starts all n serving threads before it waits for any of them, joins each once and closes")
    f = ctx.func(K.CONN + ".serve_threaded")
    rep.analysed(f)
    bad = []
    try:
        for n in (1, 3):
            ev = []

            class _T:
                mi_native = True

                def __init__(self, i):
                    self.i = i

                def join(self, *a):
                    ev.append(("join", self.i))

                def is_alive(self):
                    return False

            def spawn_(target, *a, **k):
                t = _T(len([e for e in ev if e[0] == "spawn"]))
                ev.append(("spawn", t.i))
                return t
            hooks = {"spawn": spawn_, "self.close": lambda *a: ev.append(("close",)),
                     "threading.Thread": lambda *a, **k: (_ for _ in ()).throw(AnalysisError("serve_threaded builds Thread objects itself"))}
            cm_ = {n_: m_.node for n_, m_ in ctx.cls(K.CONN).methods.items() if n_ not in ("serve_threaded", "close", "serve")}
            extra = {"__calls__": hooks, "__max_iter__": 100, "__globals__": {}, "__methods__": cm_}
            extra["__global_lookup__"] = K.module_function_lookup(ctx, f.module, extra)
            try:
                MI.call_method(f.node, _State({"closed": False}), [n], extra)
            except MI.Raised as r_:
                bad.append("serve_threaded(%d) raises %s" % (n, r_.name))
                continue
            want = [("spawn", i) for i in range(n)] + [("join", i) for i in range(n)] + [("close",)]
            spawns = [e for e in ev if e[0] == "spawn"]
            first_join = next((k for k, e in enumerate(ev) if e[0] == "join"), len(ev))
            if len(spawns) != n or any(e[0] == "spawn" for e in ev[first_join:]):
                bad.append("serve_threaded(%d): events %s - a serving thread is only started after another one has been waited for "
                           "(the connection is served by one thread at a time)" % (n, ev[:8]))
            elif sorted(e for e in ev if e[0] == "join") != [("join", i) for i in range(n)] or ev[-1:] != [("close",)]:
                bad.append("serve_threaded(%d): events %s, expected %s" % (n, ev[:10], want))
    except AnalysisError as e_:
        rep.undecided("R13.14", "serve_threaded model", str(e_))
        return
    rep.ob("R13.14", "serve_threaded: all threads started, then all joined, then close", not bad,
           "thread counts 1 and 3 evaluated" if not bad else "; ".join(bad)[:500], f.loc, kind="model")

"""C15 - asynchronous results: one final outcome, callbacks once, timeouts exact.

Timing is runtime; the state machine is shape (R15.1-R15.6)."""
import ast

from .. import astutil as A
from .. import cfgq as Q
from ..loader import AnalysisError
from . import common as K
from ..safeeval import ev, CannotEval
from .. import safeeval as SE

AR = "rpyc.core.async_.AsyncResult"


def norm_bool(e):
    return A.src(e).replace("(", "").replace(")", "")


def run(ctx, rep):
    TTL = K.expiry_field(ctx)
    rep.rule("R15.1", "a late reply is discarded: the expired test dominates every state write and callback invocation and returns")
    rep.rule("R15.2", "the outcome is written once and published last; only __init__/__call__ write it (= R13.5)")
    rep.rule("R15.3", "callbacks run once, in registration order; registering after readiness runs at once")
    rep.rule("R15.4", "waiting raises the timeout error iff still not ready; expired/ready never serve after expiry")
    rep.rule("R15.5", "Timeout helper: absolute deadline, expired iff finite and now >= deadline, time left clamped at 0, copy keeps the deadline")
    rep.rule("R15.6", "a synchronous request is an asynchronous one carrying the configured timeout; timed() sets the expiry on what it returns")
    rep.assume("exactness against a real clock and negative-timeout semantics are not decided")

    # ------------------------------------------------------------------ R15.1 / R15.3 (model evaluation of the result object)
    from .. import miniinterp as MI
    arc = ctx.cls(AR)
    for mname in ("__init__", "__call__", "add_callback", "expired"):
        if mname in arc.methods:
            rep.analysed(arc.methods[mname])
    fc = ctx.func(AR + ".__call__")
    fa = ctx.func(AR + ".add_callback")
    meths = {n: m.node for n, m in arc.methods.items()}

    class _TTL:
        mi_native = True

        def __init__(self):
            self.is_expired = False
            self.built_from = []

        def expired(self):
            return self.is_expired

    class _Conn:
        """the connection as the result object sees it: its configuration (library defaults) and nothing else"""
        mi_native = True

        def __init__(self):
            self._config = dict(ctx.const(K.PROTO, "DEFAULT_CONFIG") or {})

        def __eq__(self, o):
            return o == "CONN" or o is self

        def __hash__(self):
            return hash("CONN")

    def fresh_result():
        ttl = _TTL()
        state = {}

        def mk(*a):
            ttl.built_from.append(a)
            return ttl
        class _MLock:
            """a lock created by the result object: re-acquiring a plain Lock on the same (single) thread of the model never
            returns"""
            mi_native = True

            def __init__(self, reentrant):
                self.reentrant, self.depth = reentrant, 0

            def acquire(self, *a, **k):
                if self.depth and not self.reentrant:
                    if a and a[0] is False:
                        return False
                    raise MI.Raised("<self-deadlock>")
                self.depth += 1
                return True

            def release(self):
                self.depth -= 1

            def mi_enter(self):
                self.acquire()
                return self

            def mi_exit(self, *a):
                self.release()
                return False
        extra = {"__calls__": {"Timeout": mk, "Lock": lambda: _MLock(False), "threading.Lock": lambda: _MLock(False),
                               "RLock": lambda: _MLock(True), "threading.RLock": lambda: _MLock(True),
                               "weakref.proxy": lambda o, *a: _Weak(o), "weakref.ref": lambda o, *a: _Weak(o),
                               "proxy": lambda o, *a: _Weak(o), "ref": lambda o, *a: _Weak(o)},
                 "__methods__": meths, "__max_iter__": 200}
        conn_ = _Conn()
        MI.call_method(meths["__init__"], state, [conn_], extra)
        held_strongly[:] = [any(v is conn_ for v in state.values())]
        return state, ttl, extra
    held_strongly = []

    class _Weak:
        """what weakref.proxy / weakref.ref give: no ownership of the referent"""
        mi_native = True

        def __init__(self, o):
            self.referent = o

    def add_cb(state, extra, fn):
        MI.call_method(meths["add_callback"], state, [fn], extra)

    def deliver(state, extra, is_exc, obj):
        MI.call_method(meths["__call__"], state, [is_exc, obj], extra)

    def outcome(state):
        return {k: state.get(k) for k in ("_is_ready", "_is_exc", "_obj")}
    bad1, bad3 = [], []
    try:
        fresh_result()
        rep.ob("R15.1", "AsyncResult.__init__: a pending result holds its connection strongly", bool(held_strongly and held_strongly[0]),
               "self._conn is the connection object itself" if held_strongly and held_strongly[0] else
               "the result object keeps no strong reference to its connection (a weak proxy / nothing): a caller that holds only the "
               "result loses the connection to the garbage collector - Connection.__del__ closes it under the pending request and "
               "wait()/value/ready raise ReferenceError instead of the outcome or the timeout", arc.methods["__init__"].loc, kind="model")
    except (MI.Raised, AnalysisError):
        pass
    try:
        # (0) a new result has no deadline of its own: only set_expiry() gives it one
        state, ttl, extra = fresh_result()
        finite = [a for a in ttl.built_from if a != (None,)]
        rep.ob("R15.1", "AsyncResult.__init__: a new result has no deadline until set_expiry() is called", not finite,
               "its expiry is built from `None`" if not finite else
               "a new result starts with the deadline Timeout(%s): a reply to a plain asynchronous request arriving after it is "
               "discarded" % ", ".join(repr(x) for x in finite[0]), arc.methods["__init__"].loc)
        # (a) callbacks registered before the reply: each once, in order, with the result object; the list ends empty
        state, ttl, extra = fresh_result()
        log = []
        add_cb(state, extra, lambda r: log.append(("a", r)))
        add_cb(state, extra, lambda r: log.append(("b", r)))
        if log:
            bad3.append("a callback registered before the reply is invoked at registration time")
        deliver(state, extra, False, "VALUE")
        if [x[0] for x in log] != ["a", "b"] or any(x[1] != "__SELF__" for x in log):
            bad3.append("callbacks registered as a, b before the reply are invoked as %s" % [x[0] for x in log])
        if outcome(state) != {"_is_ready": True, "_is_exc": False, "_obj": "VALUE"}:
            bad1.append("after a reply in time the result is %s" % outcome(state))
        if [v for k, v in state.items() if isinstance(v, list) and v]:
            bad3.append("callbacks stay registered after delivery (they would run again on a duplicate reply)")
        # (b) registering after the reply: invoked at once, exactly once, not kept
        log2 = []
        add_cb(state, extra, lambda r: log2.append("c"))
        if log2 != ["c"] or [v for k, v in state.items() if isinstance(v, list) and v]:
            bad3.append("a callback registered after the reply is invoked %d time(s) at registration%s" % (
                len(log2), " and kept in the list" if [v for k, v in state.items() if isinstance(v, list) and v] else ""))
        # (c) an exception reply
        state, ttl, extra = fresh_result()
        deliver(state, extra, True, "EXC")
        if outcome(state) != {"_is_ready": True, "_is_exc": True, "_obj": "EXC"}:
            bad1.append("after an exception reply the result is %s" % outcome(state))
        # (d) a reply after the expiry is discarded entirely
        state, ttl, extra = fresh_result()
        log4 = []
        add_cb(state, extra, lambda r: log4.append("late"))
        before = outcome(state)
        ttl.is_expired = True
        deliver(state, extra, False, "LATE")
        if outcome(state) != before or log4:
            bad1.append("a reply arriving after the expiry is accepted: result %s, callbacks run %s" % (outcome(state), log4))
        # (e) a callback that registers another callback while the reply is being delivered
        state, ttl, extra = fresh_result()
        log5 = []

        def first(r):
            log5.append("first")
            add_cb(state, extra, lambda r2: log5.append("nested"))
        add_cb(state, extra, first)
        add_cb(state, extra, lambda r: log5.append("second"))
        deliver(state, extra, False, "V")
        if sorted(log5) != ["first", "nested", "second"]:
            bad3.append("a callback registered from inside a running callback: invocations %s (each of first/second/nested must run "
                        "exactly once)" % log5)
        # (f) a registration that races with the delivery: another thread has read "not ready" in add_callback and appends its
        #     callback while the delivering thread is inside an earlier callback - the live list must still be the one iterated
        state, ttl, extra = fresh_result()
        log6 = []
        lists = [k for k, v in state.items() if isinstance(v, list)]
        if len(lists) == 1:
            def racing(r):
                log6.append("early")
                state[lists[0]].append(lambda r2: log6.append("racing"))
            add_cb(state, extra, racing)
            deliver(state, extra, False, "V")
            if log6 != ["early", "racing"]:
                bad3.append("a callback appended by a concurrent add_callback() (which saw 'not ready') while the reply is being "
                            "delivered is never invoked: invocations %s" % log6)
    except MI.Raised as r_:
        if r_.name == "<self-deadlock>":
            bad3.append("a callback that calls add_callback() on its own result blocks for ever on the result's non-reentrant lock "
                        "(delivery never completes, later callbacks never run, the serving thread hangs)")
        else:
            bad1.append("delivery raises %s" % r_.name)
    except RecursionError:
        bad3.append("a callback that registers another callback during delivery re-enters the delivery without bound")
    except AnalysisError as e_:
        rep.undecided("R15.1", "the AsyncResult model", str(e_))
    rep.ob("R15.1", "AsyncResult.__call__: a reply in time is recorded; a reply after the expiry is discarded without any effect", not bad1,
           "value / exception / late reply evaluated on the model result object" if not bad1 else "; ".join(bad1), fc.loc, kind="table")
    # ------------------------------------------------------------------ R15.2
    K.share(ctx, rep, "c13", lambda o: o.rule == "R13.5", "R15.2", floor=3)

    # ------------------------------------------------------------------ R15.3
    rep.ob("R15.3", "callbacks run exactly once, in registration order; after the reply they run at registration; nothing stays registered",
           not bad3, "before/after/nested registration evaluated on the model result object" if not bad3 else "; ".join(bad3),
           fa.loc, kind="table")
    others = []
    for m in ctx.repo.modules.values():
        for n in ast.walk(m.tree):
            if isinstance(n, ast.Attribute) and n.attr == "_callbacks":
                fq = getattr(A.enclosing(n, ast.FunctionDef), "_func", None)
                if fq is None or fq.qual not in (AR + ".__init__", AR + ".__call__", AR + ".add_callback"):
                    others.append(n)
    rep.ob("R15.3", "package: the callback list is touched only by __init__/__call__/add_callback", not others,
           "no other user" if not others else "also used at %s" % ", ".join(ctx.loc(n) for n in others),
           ctx.loc(others[0]) if others else fc.loc, kind="site")

    # ------------------------------------------------------------------ R15.4
    fw = ctx.func(AR + ".wait")
    gw = ctx.cfg(fw)
    rep.analysed(fw, gw)
    # model evaluation of wait() (sa/miniinterp.py): the reply arrives during the k-th serve() call (or never), the deadline
    # passes after the d-th serve() call (or never); time only advances inside serve()
    from .. import miniinterp as MI
    bad_w = []
    rows_w = 0
    for ready_after in (0, 1, 2, 3, None):
        for expire_after in (0, 1, 2, 3, None):
            if ready_after is None and expire_after is None:
                continue
            rows_w += 1
            try:
                state = fresh_result()[0]      # every field as __init__ leaves it
            except (MI.Raised, AnalysisError):
                state = {}
            state.update({"_is_ready": ready_after == 0, TTL: "TTL", "_conn": "CONN"})
            served = []

            def serve(*a, state=state, served=served, ready_after=ready_after):
                served.append(a)
                if ready_after is not None and len(served) >= ready_after:
                    state["_is_ready"] = True
            hooks = {"self._conn.serve": serve, "self.%s.timeleft" % TTL: lambda: 5.0, "time.time": lambda: 0.0,
                     "self.%s.expired" % TTL: lambda served=served, expire_after=expire_after:
                         expire_after is not None and len(served) >= expire_after}
            try:
                MI.call_method(fw.node, state, [], {"__calls__": hooks, "__max_iter__": 50})
                got = "returns"
            except MI.Raised as r:
                got = "raises " + r.name
            # reference
            n_ref, ready = 0, ready_after == 0
            while not ready and not (expire_after is not None and n_ref >= expire_after):
                n_ref += 1
                if ready_after is not None and n_ref >= ready_after:
                    ready = True
            want = "returns" if ready else "raises AsyncResultTimeout"
            args_ok = all(len(a) >= 1 and a[0] == "TTL" for a in served)
            if got != want or len(served) != n_ref or not args_ok:
                bad_w.append("reply during serve #%s, deadline after serve #%s: wait() %s after %d serve() call(s)%s, expected %s after %d"
                             % (ready_after, expire_after, got, len(served), "" if args_ok else " (not given the result's own expiry)",
                                want, n_ref))
    rep.ob("R15.4", "AsyncResult.wait: serves while not ready and not expired, then raises the timeout error iff still not ready",
           not bad_w, "%d schedules of reply/deadline agree with the reference loop; every serve() gets the result's own expiry" % rows_w
           if not bad_w else "; ".join(bad_w[:3]), fw.loc, kind="table")
    imp = ctx.module("rpyc.core.async_").imports.get("AsyncResultTimeout")
    rep.ob("R15.4", "AsyncResultTimeout is the package's TimeoutError", imp == "rpyc.lib.compat.TimeoutError",
           "from rpyc.lib.compat import TimeoutError as AsyncResultTimeout" if imp == "rpyc.lib.compat.TimeoutError" else
           "AsyncResultTimeout is %s" % imp, "rpyc/core/async_.py", kind="site")
    fe = ctx.func(AR + ".expired")
    re_ = [n for n in A.walk(fe.node) if isinstance(n, ast.Return)]
    oke = len(re_) >= 1
    try:
        for ready in (False, True):
            for expd in (False, True):
                got = bool(SE.run(fe.node, {"self._is_ready": ready}, {"self.%s.expired" % TTL: lambda e=expd: e}))
                oke = oke and got == ((not ready) and expd)
    except (CannotEval, IndexError):
        oke = False
    rep.ob("R15.4", "AsyncResult.expired: ready wins over expiry", oke, "`%s`" % A.src(re_[0].value) if oke else
           "expired is `%s`, not (not ready and deadline passed)" % (A.src(re_[0].value) if re_ else None), fe.loc, kind="table")
    fr = ctx.func(AR + ".ready")
    rep.analysed(fr)
    # model evaluation of the `ready` property: (flag, deadline passed, does polling deliver the reply)
    bad_r, bad_p = [], []
    try:
        for flag in (False, True):
            for expd in (False, True):
                for arrives in (False, True):
                    try:
                        state = fresh_result()[0]
                    except (MI.Raised, AnalysisError):
                        state = {}
                    state.update({"_is_ready": flag, TTL: "TTL", "_conn": "CONN"})
                    polled = []

                    def poll(*a, state=state, polled=polled, arrives=arrives):
                        polled.append(a)
                        if arrives:
                            state["_is_ready"] = True
                    hooks = {"self._conn.poll_all": poll, "self._conn.serve": poll, "self._conn.poll": poll,
                             "self.%s.expired" % TTL: lambda expd=expd: expd}
                    try:
                        got = MI.call_method(fr.node, state, [], {"__calls__": hooks, "__methods__": meths, "__max_iter__": 50})
                    except MI.Raised as r_:
                        got = "raises " + r_.name
                    want = True if flag else False if expd else arrives
                    if got is not want:
                        bad_r.append("flag=%s, deadline passed=%s, reply arrives while polling=%s: ready is %r, expected %r" % (
                            flag, expd, arrives, got, want))
                    want_polls = 0 if (flag or expd) else 1
                    if len(polled) != want_polls:
                        bad_p.append("flag=%s, deadline passed=%s: polls the connection %d time(s), expected %d" % (
                            flag, expd, len(polled), want_polls))
    except AnalysisError as e_:
        rep.undecided("R15.4", "AsyncResult.ready model", str(e_))
    rep.ob("R15.4", "AsyncResult.ready: never serves once ready or expired", not bad_p,
           "poll_all() only when not ready and not expired (8 states)" if not bad_p else "; ".join(bad_p[:2]), fr.loc, kind="table")
    rep.ob("R15.4", "AsyncResult.ready: True if ready, False if expired, else the flag after polling", not bad_r,
           "8 states agree" if not bad_r else "; ".join(bad_r[:2]), fr.loc, kind="table")

    # the `error` property: asking whether the outcome is an exception is asking for the outcome - it looks (polls) like `ready`
    # does, and answers for what has arrived by then
    fer = arc.methods.get("error")
    if fer is not None:
        rep.analysed(fer)
        bad_e = []
        try:
            for flag, is_exc in ((False, False), (True, False), (True, True)):
                for arrives in (None, "value", "exception"):
                    try:
                        state = fresh_result()[0]
                    except (MI.Raised, AnalysisError):
                        state = {}
                    state.update({"_is_ready": flag, "_is_exc": is_exc, TTL: "TTL", "_conn": "CONN"})
                    polled = []

                    def poll(*a, state=state, polled=polled, arrives=arrives):
                        polled.append(a)
                        if arrives and not state["_is_ready"]:
                            state["_is_ready"] = True
                            state["_is_exc"] = arrives == "exception"
                    hooks = {"self._conn.poll_all": poll, "self._conn.serve": poll, "self._conn.poll": poll,
                             "self.%s.expired" % TTL: lambda: False}
                    try:
                        got = MI.call_method(fer.node, state, [], {"__calls__": hooks, "__methods__": meths, "__max_iter__": 50})
                    except MI.Raised as r_:
                        got = "raises " + r_.name
                    want = is_exc if flag else (arrives == "exception")
                    if bool(got) is not want or isinstance(got, str):
                        bad_e.append("outcome stored=%s, reply arriving while polling=%s: error is %r, expected %r (%d poll(s))" % (
                            ("exception" if is_exc else "value") if flag else "none", arrives, got, want, len(polled)))
        except AnalysisError as e_:
            rep.undecided("R15.4", "AsyncResult.error model", str(e_))
        rep.ob("R15.4", "AsyncResult.error: true iff the outcome - looked for like `ready` does - is an exception", not bad_e,
               "9 states agree" if not bad_e else "; ".join(bad_e[:2]), fer.loc, kind="table")

    # ------------------------------------------------------------------ R15.5
    # waiting polls the connection's descriptor whatever its number (= R16.7)
    K.share(ctx, rep, "c16", lambda o: o.rule == "R16.7", "R15.4", floor=2)
    T = "rpyc.lib.Timeout"
    fx = ctx.func(T + ".expired")
    rx = [n for n in A.walk(fx.node) if isinstance(n, ast.Return)]
    okx = len(rx) >= 1
    rows = 0
    try:
        for finite, tmax in ((True, 10.0), (False, None)):
            for now in (9.0, 10.0, 11.0):
                rows += 1
                got = bool(SE.run(fx.node, {"self.finite": finite, "self.tmax": tmax}, {"time.time": lambda n=now: n}))
                okx = okx and got == (finite and now >= tmax)
    except (CannotEval, IndexError):
        okx = False
    rep.ob("R15.5", "Timeout.expired: finite and now >= deadline", okx, "`%s` agrees on %d valuations" % (A.src(rx[0].value), rows)
           if okx else "expired is `%s`: it must be true exactly when finite and now >= deadline (a `>` reports the expiry late; "
           "without the finite guard an unlimited timeout compares with None)" % (A.src(rx[0].value) if rx else None), fx.loc,
           kind="table")
    ft = ctx.func(T + ".timeleft")
    rt = [n for n in A.walk(ft.node) if isinstance(n, ast.Return)]
    okt = len(rt) >= 1
    try:
        for finite, tmax in ((True, 10.0), (False, None)):
            for now in (4.0, 10.0, 13.0):
                got = SE.run(ft.node, {"self.finite": finite, "self.tmax": tmax}, {"time.time": lambda n=now: n})
                want = max(0, tmax - now) if finite else None
                okt = okt and got == want
    except (CannotEval, IndexError):
        okt = False
    rep.ob("R15.5", "Timeout.timeleft: remaining time clamped at 0, None when unlimited", okt,
           "agrees on 6 valuations" if okt else "timeleft is not max(0, deadline - now) / None when unlimited", ft.loc, kind="table")
    fi = ctx.func(T + ".__init__")
    rep.analysed(fi)

    def mk_timeout(arg):
        st = {}
        MI.call_method(fi.node, st, [arg], {"__calls__": {"time.time": lambda: 100.0},
                                            "__isinstance__": lambda v, t: isinstance(v, MI.ModelObj) and t == "Timeout"})
        return st
    bad_i = []
    try:
        for fin, tmax in ((True, 55.0), (False, None), (True, 0.0)):
            st = mk_timeout(MI.ModelObj("Timeout", {"finite": fin, "tmax": tmax}))
            if st.get("finite") != fin or st.get("tmax") != tmax:
                bad_i.append("Timeout(Timeout(finite=%s, tmax=%s)) -> %s" % (fin, tmax, st))
        okcp = not bad_i
        rep.ob("R15.5", "Timeout(Timeout): copying keeps the absolute deadline (nested serve calls do not restart the clock)", okcp,
               "finite and tmax copied" if okcp else "; ".join(bad_i), fi.loc, kind="table")
        bad_f = []
        for tv in (None, -1, -0.5, 0, 2.5, 30):
            st = mk_timeout(tv)
            want_fin = tv is not None and tv >= 0
            want = {"finite": want_fin, "tmax": (100.0 + tv) if want_fin else None}
            if {"finite": bool(st.get("finite")), "tmax": st.get("tmax")} != want:
                bad_f.append("Timeout(%r) at t=100 -> %s, expected %s" % (tv, st, want))
        rep.ob("R15.5", "Timeout(seconds): finite iff a non-negative number; deadline = now + seconds", not bad_f,
               "6 arguments evaluated" if not bad_f else "; ".join(bad_f[:3]), fi.loc, kind="table")
    except MI.Raised as r:
        rep.ob("R15.5", "Timeout(...): construction does not fail", False, "Timeout.__init__ raises %s on a plain argument" % r.name, fi.loc)

    # ------------------------------------------------------------------ R15.6
    fs = ctx.func(K.CONN + ".sync_request")
    okk = False
    tv = None
    for n in A.walk(fs.node):
        if isinstance(n, ast.Assign) and isinstance(n.value, ast.Subscript) and K.self_attr(n.value.value, "_config") \
                and A.const_str(n.value.slice) == "sync_request_timeout":
            tv = n.targets[0].id
    for c in A.find_calls(fs.node, "self.async_request"):
        for kw in c.keywords:
            if kw.arg == "timeout" and (A.src(kw.value) == tv or "sync_request_timeout" in A.src(kw.value)):
                okk = True
    ram = K.request_api_model(ctx)
    if "error" not in ram:
        okk = ram["sync"]["expiry"] == [[30]]
    rep.ob("R15.6", "sync_request carries the connection's configured timeout", okk,
           "async_request(..., timeout=self._config['sync_request_timeout'])" if okk else
           "sync_request ignores the configured sync_request_timeout", fs.loc)
    far = ctx.func(K.CONN + ".async_request")
    gar = ctx.cfg(far)
    domar = Q.dominators(gar)
    se = [n for n in gar.live if n.kind == "stmt" and n.ast is not None and any(
        isinstance(c.func, ast.Attribute) and c.func.attr == "set_expiry" for c in A.calls(n.ast))]
    okse = len(se) == 1
    if okse:
        c = {A.src(x.ast): pol for x, pol in Q.dominating_conditions(gar, se[0], domar)}
        call = [c_ for c_ in A.calls(se[0].ast) if isinstance(c_.func, ast.Attribute) and c_.func.attr == "set_expiry"][0]
        pops = [n for n in A.walk(far.node) if isinstance(n, ast.Assign) and isinstance(n.targets[0], ast.Name) and any(
            isinstance(cc.func, ast.Attribute) and cc.func.attr in ("pop", "get") and cc.args and ctx.try_fold(cc.args[0]) == "timeout"
            and (len(cc.args) == 1 and cc.func.attr == "get" or len(cc.args) == 2 and ctx.try_fold(cc.args[1]) is None
                 and isinstance(cc.args[1], ast.Constant))
            for cc in A.calls(n.value))]
        tvar = pops[0].targets[0].id if pops else None
        # tests are in positive form in the CFG: `timeout is not None` is the false edge of `timeout is None`
        okse = bool(pops) and c.get("%s is None" % tvar) is False and A.src(call.args[0]) == tvar
    if "error" not in ram:
        okse = ram["async", None]["expiry"] == [[]] and ram["async", 0]["expiry"] == [[0]] and ram["async", 5]["expiry"] == [[5]] and \
            ram["async", "bogus"]["returned"] == ("raises", "TypeError") and ram["async", "bogus"]["issued"] == 0
    rep.ob("R15.6", "async_request applies the expiry iff a timeout was given", okse,
           "`if timeout is not None: res.set_expiry(timeout)`" if okse else
           "async_request does not apply the given timeout exactly when one was given (`is not None`): a timeout of 0 must expire at once",
           far.loc)
    fse = ctx.func(AR + ".set_expiry")
    oks = any(isinstance(n, ast.Assign) and K.self_attr(n.targets[0], TTL) and
              A.src(n.value) == "Timeout(%s)" % A.params(fse.node)[1] for n in A.walk(fse.node))
    rep.ob("R15.6", "set_expiry stores an absolute deadline", oks, "self.%s = Timeout(timeout)" % TTL if oks else
           "set_expiry no longer stores Timeout(timeout)", fse.loc)
    ftm = ctx.func("rpyc.utils.helpers.timed.__call__")
    body = [s for s in ftm.node.body if not (isinstance(s, ast.Expr) and isinstance(s.value, ast.Constant))]
    rcv = A.params(ftm.node)[0]
    va_ = ftm.node.args.vararg.arg if ftm.node.args.vararg else "?"
    kw_ = ftm.node.args.kwarg.arg if ftm.node.args.kwarg else "?"
    okt = len(body) == 3 and isinstance(body[0], ast.Assign) and A.src(body[0].value) == "%s.proxy(*%s, **%s)" % (rcv, va_, kw_) and \
        A.norm(body[1]) == "%s.set_expiry(%s.timeout)" % (body[0].targets[0].id, rcv) and \
        isinstance(body[2], ast.Return) and A.src(body[2].value) == body[0].targets[0].id
    rep.ob("R15.6", "timed.__call__: starts the call, sets the expiry on that result, returns it", okt,
           "res = self.proxy(*args, **kwargs); res.set_expiry(self.timeout); return res" if okt else "timed.__call__ changed", ftm.loc)
    tcls = ctx.cls("rpyc.utils.helpers.timed")
    shared_t = [m for m in ("__new__", "__call__") if m == "__new__" and m in tcls.methods]
    meta = [k for k in tcls.node.keywords if k.arg == "metaclass"]
    rep.ob("R15.6", "timed: every wrapper is its own object holding its own timeout (no instance sharing)", not shared_t and not meta,
           "timed defines no __new__/metaclass: timed(f, t1) and timed(f, t2) are distinct objects" if not shared_t and not meta else
           "timed overrides instance creation (%s): a wrapper handed out twice is re-initialised by the second call, so results "
           "issued through the first one expire with the second one's timeout" % (shared_t + ["metaclass"] * bool(meta)),
           ctx.loc(tcls.node), kind="site")
    fti = ctx.func("rpyc.utils.helpers.timed.__init__")
    tp_ = A.params(fti.node)
    tset = [n for n in A.walk(fti.node) if isinstance(n, ast.Assign) and K.self_attr(n.targets[0], "timeout")]
    okti = len(tset) == 1 and isinstance(tset[0].value, ast.Name) and tset[0].value.id in tp_
    rep.ob("R15.6", "timed.__init__: keeps the relative timeout (the deadline starts at each call, not at wrapper creation)", okti,
           "self.timeout = timeout" if okti else
           "timed stores `%s`: an absolute deadline fixed at creation makes every later call expire early (or at birth)"
           % (A.src(tset[0].value) if tset else None), fti.loc)
    # set_expiry is always given a relative number of seconds, never a Timeout object built earlier
    for fu_, c_ in ctx.call_sites(".set_expiry"):
        a0 = c_.args[0] if c_.args else None
        bad_ = isinstance(a0, ast.Call) and (A.call_name(a0) or "").endswith("Timeout")
        rep.ob("R15.6", "%s: set_expiry receives seconds, not a pre-built deadline" % (fu_.qual.split(".", 2)[-1] if fu_ else "?"),
               not bad_, "`%s`" % A.norm(c_)[:60], ctx.loc(c_), kind="site", nontrivial=False)
    K.share(ctx, rep, "c14", lambda o: o.rule == "R14.2", "R15.6", floor=3)
    # "the connection's configured timeout" is what the caller configured: the constructor applies the caller's values as given
    K.share(ctx, rep, "c06", lambda o: o.rule == "R06.9", "R15.6", floor=1)
    # a pending result nobody else refers to is kept alive by the pending-request table until its reply (and its callbacks) ran
    K.share(ctx, rep, "c01", lambda o: o.rule == "R01.4" and "callback registered for the request" in o.key, "R15.3", floor=1)
    from . import hygiene as H
    H.private_state(ctx, rep, "R15.3", "rpyc.core.async_.AsyncResult")

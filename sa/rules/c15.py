"""C15 - asynchronous results: one final outcome, callbacks once, timeouts exact.

Timing is runtime; the state machine is shape (R15.1-R15.6)."""
import ast

from .. import astutil as A
from .. import cfgq as Q
from ..loader import AnalysisError
from . import common as K
from ..safeeval import ev, CannotEval
from .. import safeeval as SE

AR = "rpyc.core.async_.AsyncResult"


def norm_bool(e):
    return A.src(e).replace("(", "").replace(")", "")


def run(ctx, rep):
    TTL = K.expiry_field(ctx)
    rep.rule("R15.1", "a late reply is discarded: the expired test dominates every state write and callback invocation and returns")
    rep.rule("R15.2", "the outcome is written once and published last; only __init__/__call__ write it (= R13.5)")
    rep.rule("R15.3", "callbacks run once, in registration order; registering after readiness runs at once")
    rep.rule("R15.4", "waiting raises the timeout error iff still not ready; expired/ready never serve after expiry")
    rep.rule("R15.5", "Timeout helper: absolute deadline, expired iff finite and now >= deadline, time left clamped at 0, copy keeps the deadline")
    rep.rule("R15.6", "a synchronous request is an asynchronous one carrying the configured timeout; timed() sets the expiry on what it returns")
    rep.assume("exactness against a real clock and negative-timeout semantics are not decided")

    # ------------------------------------------------------------------ R15.1
    fc = ctx.func(AR + ".__call__")
    g = ctx.cfg(fc)
    rep.analysed(fc, g)
    dom = Q.dominators(g)
    exp_tests = [n for n in g.live if n.kind == "test" and A.src(n.ast) == "self.expired"]
    if exp_tests:
        t = exp_tests[0]
        okr = all(isinstance(s.ast, ast.Return) for s, l in t.succ if l == "true")
        rep.ob("R15.1", "AsyncResult.__call__: an expired result returns at once", okr,
               "`if self.expired: return`" if okr else "the expired branch does not return immediately", ctx.loc(t))
    else:
        rep.ob("R15.1", "AsyncResult.__call__: an expired result returns at once", False,
               "__call__ no longer tests self.expired: a reply arriving after the expiry is accepted and its callbacks run",
               fc.loc)
    effects = [n for n in g.live if n.kind in ("stmt", "for", "iter") and n.ast is not None and (
        (isinstance(n.ast, ast.Assign) and any(K.self_attr(x) for x in n.ast.targets)) or
        isinstance(n.ast, ast.Delete) or (n.kind == "stmt" and A.calls(n.ast) and not isinstance(n.ast, ast.Return)))]
    rep.floor("R15.1", "state writes / callback invocations in AsyncResult.__call__", len(effects), 4)
    bad = []
    for e in effects:
        conds = {A.src(x.ast): pol for x, pol in Q.dominating_conditions(g, e, dom)}
        if conds.get("self.expired") is not False:
            bad.append(e)
    rep.ob("R15.1", "AsyncResult.__call__: every effect happens only if the result had not expired", not bad,
           "%d effects, all dominated by the negative edge of the expired test" % len(effects) if not bad else
           "a reply arriving after the expiry still %s" % "; ".join(b.text()[:40] for b in bad),
           ctx.loc(bad[0]) if bad else fc.loc)

    # ------------------------------------------------------------------ R15.2
    K.share(ctx, rep, "c13", lambda o: o.rule == "R13.5", "R15.2", floor=3)

    # ------------------------------------------------------------------ R15.3
    loops = [n for n in A.walk(fc.node) if isinstance(n, ast.For)]
    okl = len(loops) == 1 and A.src(loops[0].iter) == "self._callbacks" and len(loops[0].body) == 1 and \
        isinstance(loops[0].body[0], ast.Expr) and isinstance(loops[0].body[0].value, ast.Call) and \
        A.src(loops[0].body[0].value.func) == A.src(loops[0].target) and \
        [A.src(a) for a in loops[0].body[0].value.args] == ["self"]
    rep.ob("R15.3", "AsyncResult.__call__: callbacks are invoked in a plain forward loop, each once, with the result", okl,
           "for cb in self._callbacks: cb(self)" if okl else
           "callbacks are not invoked by a plain forward iteration over the registration list", ctx.loc(loops[0]) if loops else fc.loc)
    clears = [n for n in g.live if n.kind == "stmt" and n.ast is not None and (
        (isinstance(n.ast, ast.Delete) and "self._callbacks" in A.src(n.ast)) or A.find_calls(n.ast, "self._callbacks.clear")
        or (isinstance(n.ast, ast.Assign) and any(K.self_attr(x, "_callbacks") for x in n.ast.targets)))]
    ready_sets = [n for n in g.live if n.kind == "stmt" and isinstance(n.ast, ast.Assign) and any(
        K.self_attr(x, "_is_ready") for x in n.ast.targets)]
    p = None
    if ready_sets:
        p = Q.find_path(ready_sets[0], [g.exit], avoid=clears, labels=("next", "true", "false"))
    okc = bool(clears) and p is None
    rep.ob("R15.3", "AsyncResult.__call__: the callback list is emptied after delivery", okc,
           "the list is cleared on every normal path after the result became ready" if okc else
           "callbacks stay registered after delivery (they run again / leak)", ctx.loc(clears[0]) if clears else fc.loc,
           witness=ctx.path(p) if p else None)
    if loops and clears:
        fornode = [n for n in g.live if n.kind == "for"]
        oko = all(any(fn.id in dom[c.id] for fn in fornode) for c in clears)
        rep.ob("R15.3", "AsyncResult.__call__: the list is emptied after (not before) the callbacks ran", oko,
               "the loop dominates the clearing statement" if oko else "the list is emptied before the callbacks run", ctx.loc(clears[0]))
    fa = ctx.func(AR + ".add_callback")
    ga = ctx.cfg(fa)
    rep.analysed(fa, ga)
    doma = Q.dominators(ga)
    ap = A.params(fa.node)
    calls_now = [n for n in ga.live if n.kind == "stmt" and n.ast is not None and any(
        isinstance(c.func, ast.Name) and c.func.id == ap[1] for c in A.calls(n.ast))]
    regs = [n for n in ga.live if n.kind == "stmt" and n.ast is not None and any(
        isinstance(c.func, ast.Attribute) and c.func.attr in ("append", "insert", "appendleft", "add") and
        K.self_attr(c.func.value, "_callbacks") for c in A.calls(n.ast))]
    ok = len(calls_now) == 1 and len(regs) == 1
    if ok:
        c1 = {A.src(x.ast): pol for x, pol in Q.dominating_conditions(ga, calls_now[0], doma)}
        c2 = {A.src(x.ast): pol for x, pol in Q.dominating_conditions(ga, regs[0], doma)}
        ok = c1.get("self._is_ready") is True and c2.get("self._is_ready") is False
        reg = [c for c in A.calls(regs[0].ast) if isinstance(c.func, ast.Attribute)][0]
        ok = ok and reg.func.attr == "append" and [A.src(a) for a in reg.args] == [ap[1]]
        now = [c for c in A.calls(calls_now[0].ast) if isinstance(c.func, ast.Name)][0]
        ok = ok and [A.src(a) for a in now.args] == ["self"]
    rep.ob("R15.3", "add_callback: runs at once iff already ready, otherwise appends at the end", ok,
           "if self._is_ready: func(self) else: self._callbacks.append(func)" if ok else
           "add_callback no longer (runs-now-if-ready | appends-in-order)", fa.loc)
    others = []
    for m in ctx.repo.modules.values():
        for n in ast.walk(m.tree):
            if isinstance(n, ast.Attribute) and n.attr == "_callbacks":
                fq = getattr(A.enclosing(n, ast.FunctionDef), "_func", None)
                if fq is None or fq.qual not in (AR + ".__init__", AR + ".__call__", AR + ".add_callback"):
                    others.append(n)
    rep.ob("R15.3", "package: the callback list is touched only by __init__/__call__/add_callback", not others,
           "no other user" if not others else "also used at %s" % ", ".join(ctx.loc(n) for n in others),
           ctx.loc(others[0]) if others else fc.loc, kind="site")

    # ------------------------------------------------------------------ R15.4
    fw = ctx.func(AR + ".wait")
    gw = ctx.cfg(fw)
    rep.analysed(fw, gw)
    # model evaluation of wait() (sa/miniinterp.py): the reply arrives during the k-th serve() call (or never), the deadline
    # passes after the d-th serve() call (or never); time only advances inside serve()
    from .. import miniinterp as MI
    bad_w = []
    rows_w = 0
    for ready_after in (0, 1, 2, 3, None):
        for expire_after in (0, 1, 2, 3, None):
            if ready_after is None and expire_after is None:
                continue
            rows_w += 1
            state = {"_is_ready": ready_after == 0, TTL: "TTL", "_conn": "CONN"}
            served = []

            def serve(*a, state=state, served=served, ready_after=ready_after):
                served.append(a)
                if ready_after is not None and len(served) >= ready_after:
                    state["_is_ready"] = True
            hooks = {"self._conn.serve": serve, "self.%s.timeleft" % TTL: lambda: 5.0, "time.time": lambda: 0.0,
                     "self.%s.expired" % TTL: lambda served=served, expire_after=expire_after:
                         expire_after is not None and len(served) >= expire_after}
            try:
                MI.call_method(fw.node, state, [], {"__calls__": hooks, "__max_iter__": 50})
                got = "returns"
            except MI.Raised as r:
                got = "raises " + r.name
            # reference
            n_ref, ready = 0, ready_after == 0
            while not ready and not (expire_after is not None and n_ref >= expire_after):
                n_ref += 1
                if ready_after is not None and n_ref >= ready_after:
                    ready = True
            want = "returns" if ready else "raises AsyncResultTimeout"
            args_ok = all(len(a) >= 1 and a[0] == "TTL" for a in served)
            if got != want or len(served) != n_ref or not args_ok:
                bad_w.append("reply during serve #%s, deadline after serve #%s: wait() %s after %d serve() call(s)%s, expected %s after %d"
                             % (ready_after, expire_after, got, len(served), "" if args_ok else " (not given the result's own expiry)",
                                want, n_ref))
    rep.ob("R15.4", "AsyncResult.wait: serves while not ready and not expired, then raises the timeout error iff still not ready",
           not bad_w, "%d schedules of reply/deadline agree with the reference loop; every serve() gets the result's own expiry" % rows_w
           if not bad_w else "; ".join(bad_w[:3]), fw.loc, kind="table")
    imp = ctx.module("rpyc.core.async_").imports.get("AsyncResultTimeout")
    rep.ob("R15.4", "AsyncResultTimeout is the package's TimeoutError", imp == "rpyc.lib.compat.TimeoutError",
           "from rpyc.lib.compat import TimeoutError as AsyncResultTimeout" if imp == "rpyc.lib.compat.TimeoutError" else
           "AsyncResultTimeout is %s" % imp, "rpyc/core/async_.py", kind="site")
    fe = ctx.func(AR + ".expired")
    re_ = [n for n in A.walk(fe.node) if isinstance(n, ast.Return)]
    oke = len(re_) >= 1
    try:
        for ready in (False, True):
            for expd in (False, True):
                got = bool(SE.run(fe.node, {"self._is_ready": ready}, {"self.%s.expired" % TTL: lambda e=expd: e}))
                oke = oke and got == ((not ready) and expd)
    except (CannotEval, IndexError):
        oke = False
    rep.ob("R15.4", "AsyncResult.expired: ready wins over expiry", oke, "`%s`" % A.src(re_[0].value) if oke else
           "expired is `%s`, not (not ready and deadline passed)" % (A.src(re_[0].value) if re_ else None), fe.loc, kind="table")
    fr = ctx.func(AR + ".ready")
    gr = ctx.cfg(fr)
    domr = Q.dominators(gr)
    polls = [n for n in gr.live if n.kind == "stmt" and n.ast is not None and (
        A.find_calls(n.ast, "self._conn.poll_all") or A.find_calls(n.ast, "self._conn.serve") or A.find_calls(n.ast, "self._conn.poll"))]
    okp = bool(polls)
    for pn in polls:
        c = {A.src(x.ast): pol for x, pol in Q.dominating_conditions(gr, pn, domr)}
        okp = okp and c.get("self._is_ready") is False and c.get("self.%s.expired()" % TTL) is False
    rep.ob("R15.4", "AsyncResult.ready: never serves once ready or expired", okp,
           "poll_all() only when not ready and not expired" if okp else "ready polls the connection although ready/expired", fr.loc)
    outs = []
    for n in gr.live:
        if n.kind == "stmt" and isinstance(n.ast, ast.Return):
            c = {A.src(x.ast): pol for x, pol in Q.dominating_conditions(gr, n, domr)}
            outs.append((A.src(n.ast.value), c.get("self._is_ready"), c.get("self.%s.expired()" % TTL)))
    okro = ("True", True, None) in outs and ("False", False, True) in outs and ("self._is_ready", False, False) in outs
    rep.ob("R15.4", "AsyncResult.ready: True if ready, False if expired, else the flag after polling", okro,
           "three return sites with the expected guards" if okro else "ready returns %s" % outs, fr.loc)

    # ------------------------------------------------------------------ R15.5
    T = "rpyc.lib.Timeout"
    fx = ctx.func(T + ".expired")
    rx = [n for n in A.walk(fx.node) if isinstance(n, ast.Return)]
    okx = len(rx) >= 1
    rows = 0
    try:
        for finite, tmax in ((True, 10.0), (False, None)):
            for now in (9.0, 10.0, 11.0):
                rows += 1
                got = bool(SE.run(fx.node, {"self.finite": finite, "self.tmax": tmax}, {"time.time": lambda n=now: n}))
                okx = okx and got == (finite and now >= tmax)
    except (CannotEval, IndexError):
        okx = False
    rep.ob("R15.5", "Timeout.expired: finite and now >= deadline", okx, "`%s` agrees on %d valuations" % (A.src(rx[0].value), rows)
           if okx else "expired is `%s`: it must be true exactly when finite and now >= deadline (a `>` reports the expiry late; "
           "without the finite guard an unlimited timeout compares with None)" % (A.src(rx[0].value) if rx else None), fx.loc,
           kind="table")
    ft = ctx.func(T + ".timeleft")
    rt = [n for n in A.walk(ft.node) if isinstance(n, ast.Return)]
    okt = len(rt) >= 1
    try:
        for finite, tmax in ((True, 10.0), (False, None)):
            for now in (4.0, 10.0, 13.0):
                got = SE.run(ft.node, {"self.finite": finite, "self.tmax": tmax}, {"time.time": lambda n=now: n})
                want = max(0, tmax - now) if finite else None
                okt = okt and got == want
    except (CannotEval, IndexError):
        okt = False
    rep.ob("R15.5", "Timeout.timeleft: remaining time clamped at 0, None when unlimited", okt,
           "agrees on 6 valuations" if okt else "timeleft is not max(0, deadline - now) / None when unlimited", ft.loc, kind="table")
    fi = ctx.func(T + ".__init__")
    rep.analysed(fi)

    def mk_timeout(arg):
        st = {}
        MI.call_method(fi.node, st, [arg], {"__calls__": {"time.time": lambda: 100.0},
                                            "__isinstance__": lambda v, t: isinstance(v, MI.ModelObj) and t == "Timeout"})
        return st
    bad_i = []
    try:
        for fin, tmax in ((True, 55.0), (False, None), (True, 0.0)):
            st = mk_timeout(MI.ModelObj("Timeout", {"finite": fin, "tmax": tmax}))
            if st.get("finite") != fin or st.get("tmax") != tmax:
                bad_i.append("Timeout(Timeout(finite=%s, tmax=%s)) -> %s" % (fin, tmax, st))
        okcp = not bad_i
        rep.ob("R15.5", "Timeout(Timeout): copying keeps the absolute deadline (nested serve calls do not restart the clock)", okcp,
               "finite and tmax copied" if okcp else "; ".join(bad_i), fi.loc, kind="table")
        bad_f = []
        for tv in (None, -1, -0.5, 0, 2.5, 30):
            st = mk_timeout(tv)
            want_fin = tv is not None and tv >= 0
            want = {"finite": want_fin, "tmax": (100.0 + tv) if want_fin else None}
            if {"finite": bool(st.get("finite")), "tmax": st.get("tmax")} != want:
                bad_f.append("Timeout(%r) at t=100 -> %s, expected %s" % (tv, st, want))
        rep.ob("R15.5", "Timeout(seconds): finite iff a non-negative number; deadline = now + seconds", not bad_f,
               "6 arguments evaluated" if not bad_f else "; ".join(bad_f[:3]), fi.loc, kind="table")
    except MI.Raised as r:
        rep.ob("R15.5", "Timeout(...): construction does not fail", False, "Timeout.__init__ raises %s on a plain argument" % r.name, fi.loc)

    # ------------------------------------------------------------------ R15.6
    fs = ctx.func(K.CONN + ".sync_request")
    okk = False
    tv = None
    for n in A.walk(fs.node):
        if isinstance(n, ast.Assign) and isinstance(n.value, ast.Subscript) and K.self_attr(n.value.value, "_config") \
                and A.const_str(n.value.slice) == "sync_request_timeout":
            tv = n.targets[0].id
    for c in A.find_calls(fs.node, "self.async_request"):
        for kw in c.keywords:
            if kw.arg == "timeout" and (A.src(kw.value) == tv or "sync_request_timeout" in A.src(kw.value)):
                okk = True
    rep.ob("R15.6", "sync_request carries the connection's configured timeout", okk,
           "async_request(..., timeout=self._config['sync_request_timeout'])" if okk else
           "sync_request ignores the configured sync_request_timeout", fs.loc)
    far = ctx.func(K.CONN + ".async_request")
    gar = ctx.cfg(far)
    domar = Q.dominators(gar)
    se = [n for n in gar.live if n.kind == "stmt" and n.ast is not None and any(
        isinstance(c.func, ast.Attribute) and c.func.attr == "set_expiry" for c in A.calls(n.ast))]
    okse = len(se) == 1
    if okse:
        c = {A.src(x.ast): pol for x, pol in Q.dominating_conditions(gar, se[0], domar)}
        call = [c_ for c_ in A.calls(se[0].ast) if isinstance(c_.func, ast.Attribute) and c_.func.attr == "set_expiry"][0]
        pops = [n for n in A.walk(far.node) if isinstance(n, ast.Assign) and isinstance(n.targets[0], ast.Name) and any(
            isinstance(cc.func, ast.Attribute) and cc.func.attr in ("pop", "get") and cc.args and ctx.try_fold(cc.args[0]) == "timeout"
            and (len(cc.args) == 1 and cc.func.attr == "get" or len(cc.args) == 2 and ctx.try_fold(cc.args[1]) is None
                 and isinstance(cc.args[1], ast.Constant))
            for cc in A.calls(n.value))]
        tvar = pops[0].targets[0].id if pops else None
        # tests are in positive form in the CFG: `timeout is not None` is the false edge of `timeout is None`
        okse = bool(pops) and c.get("%s is None" % tvar) is False and A.src(call.args[0]) == tvar
    rep.ob("R15.6", "async_request applies the expiry iff a timeout was given", okse,
           "`if timeout is not None: res.set_expiry(timeout)`" if okse else
           "async_request does not apply the given timeout exactly when one was given (`is not None`): a timeout of 0 must expire at once",
           far.loc)
    fse = ctx.func(AR + ".set_expiry")
    oks = any(isinstance(n, ast.Assign) and K.self_attr(n.targets[0], TTL) and
              A.src(n.value) == "Timeout(%s)" % A.params(fse.node)[1] for n in A.walk(fse.node))
    rep.ob("R15.6", "set_expiry stores an absolute deadline", oks, "self.%s = Timeout(timeout)" % TTL if oks else
           "set_expiry no longer stores Timeout(timeout)", fse.loc)
    ftm = ctx.func("rpyc.utils.helpers.timed.__call__")
    body = [s for s in ftm.node.body if not (isinstance(s, ast.Expr) and isinstance(s.value, ast.Constant))]
    rcv = A.params(ftm.node)[0]
    va_ = ftm.node.args.vararg.arg if ftm.node.args.vararg else "?"
    kw_ = ftm.node.args.kwarg.arg if ftm.node.args.kwarg else "?"
    okt = len(body) == 3 and isinstance(body[0], ast.Assign) and A.src(body[0].value) == "%s.proxy(*%s, **%s)" % (rcv, va_, kw_) and \
        A.norm(body[1]) == "%s.set_expiry(%s.timeout)" % (body[0].targets[0].id, rcv) and \
        isinstance(body[2], ast.Return) and A.src(body[2].value) == body[0].targets[0].id
    rep.ob("R15.6", "timed.__call__: starts the call, sets the expiry on that result, returns it", okt,
           "res = self.proxy(*args, **kwargs); res.set_expiry(self.timeout); return res" if okt else "timed.__call__ changed", ftm.loc)
    tcls = ctx.cls("rpyc.utils.helpers.timed")
    shared_t = [m for m in ("__new__", "__call__") if m == "__new__" and m in tcls.methods]
    meta = [k for k in tcls.node.keywords if k.arg == "metaclass"]
    rep.ob("R15.6", "timed: every wrapper is its own object holding its own timeout (no instance sharing)", not shared_t and not meta,
           "timed defines no __new__/metaclass: timed(f, t1) and timed(f, t2) are distinct objects" if not shared_t and not meta else
           "timed overrides instance creation (%s): a wrapper handed out twice is re-initialised by the second call, so results "
           "issued through the first one expire with the second one's timeout" % (shared_t + ["metaclass"] * bool(meta)),
           ctx.loc(tcls.node), kind="site")
    fti = ctx.func("rpyc.utils.helpers.timed.__init__")
    tp_ = A.params(fti.node)
    tset = [n for n in A.walk(fti.node) if isinstance(n, ast.Assign) and K.self_attr(n.targets[0], "timeout")]
    okti = len(tset) == 1 and isinstance(tset[0].value, ast.Name) and tset[0].value.id in tp_
    rep.ob("R15.6", "timed.__init__: keeps the relative timeout (the deadline starts at each call, not at wrapper creation)", okti,
           "self.timeout = timeout" if okti else
           "timed stores `%s`: an absolute deadline fixed at creation makes every later call expire early (or at birth)"
           % (A.src(tset[0].value) if tset else None), fti.loc)
    # set_expiry is always given a relative number of seconds, never a Timeout object built earlier
    for fu_, c_ in ctx.call_sites(".set_expiry"):
        a0 = c_.args[0] if c_.args else None
        bad_ = isinstance(a0, ast.Call) and (A.call_name(a0) or "").endswith("Timeout")
        rep.ob("R15.6", "%s: set_expiry receives seconds, not a pre-built deadline" % (fu_.qual.split(".", 2)[-1] if fu_ else "?"),
               not bad_, "`%s`" % A.norm(c_)[:60], ctx.loc(c_), kind="site", nontrivial=False)
    K.share(ctx, rep, "c14", lambda o: o.rule == "R14.2", "R15.6", floor=3)
    from . import hygiene as H
    H.private_state(ctx, rep, "R15.3", "rpyc.core.async_.AsyncResult")

"""C04 - the value serializer is lossless and exact about what it accepts.

Decides table/shape agreement of the two halves of brine (R04.1-R04.7); round-trip equality of
runtime values is not decided (struct/codec behaviour is trusted)."""
import ast
import builtins
import struct

from .. import astutil as A
from .. import brine_model as B
from .. import callgraph
from .. import cfgq as Q
from ..constfold import StructVal
from ..loader import AnalysisError

BR = B.BRINE
TOTAL_ERROR_POLICIES = {"surrogatepass"}     # lossless and total for str<->utf-8 in both directions


class Model:
    """everything the C04/C19 rules need, extracted once per run"""
    def __init__(self, ctx):
        self.ctx = ctx
        mod = ctx.module(BR)
        self.mod = mod
        self.tags = {n: ctx.const(BR, n) for n in mod.toplevel if n.startswith("TAG_")}
        self.imm = ctx.const(BR, "IMM_INTS")
        self.imm_loader = ctx.const(BR, "IMM_INTS_LOADER")
        if not isinstance(self.imm, dict):
            # the writer's table is a sequence indexed by a function of the value: what it writes is decided per value on the
            # dump paths (R04.3); as a table, take the one the reader implements
            if not isinstance(self.imm_loader, dict):
                raise AnalysisError("neither IMM_INTS nor IMM_INTS_LOADER folds to a mapping")
            self.imm = {v: k for k, v in self.imm_loader.items()}
        self.dumpers = {}      # type -> (Func, [DumpPath])
        for key, fn in B.registry_functions(ctx, "_dump_registry"):
            t = ctx.fold(key, mod)
            if not isinstance(t, type):
                raise AnalysisError("dump registry key `%s` does not fold to a type" % A.src(key))
            ex = B.DumpExec(ctx)
            self.dumpers[t] = (fn, ex.run(fn))
        self.loaders = {}      # tag byte -> (Func, term)   (the last registration wins, as in Python)
        self.loader_dups = []
        self.n_load_funcs = 0
        for key, fn in B.registry_functions(ctx, "_load_registry"):
            t = ctx.fold(key, mod)
            if not isinstance(t, bytes):
                raise AnalysisError("load registry key `%s` does not fold to bytes" % A.src(key))
            self.n_load_funcs += 1
            if t in self.loaders:
                self.loader_dups.append((t, self.loaders[t][0], fn))
            try:
                self.loaders[t] = (fn, B.simplify(B.LoadExec(ctx).run(fn)))
            except AnalysisError as e_:
                # not summarisable: the rows that need this loader's shape are undecided, the other rules still run
                self.loaders[t] = (fn, ("unknown", str(e_)))

    def samples(self, t):
        """valuations that exercise every guard outcome of the dumper for type t (exact for interval guards:
        every constant in a guard contributes c-1, c, c+1)"""
        fn, paths = self.dumpers[t]
        consts = B.guard_constants(self.ctx, paths)
        uses_len = any(isinstance(n, ast.Call) and A.call_name(n) == "len" for p in paths for g, _ in p.guards
                       for n in ast.walk(g))
        uses_in = any(isinstance(n, ast.Compare) and isinstance(n.ops[0], (ast.In, ast.NotIn)) for p in paths
                      for g, _ in p.guards for n in ast.walk(g))
        uses_truth = any(isinstance(g, ast.Name) for p in paths for g, _ in p.guards)
        obj_ = B.obj_param(fn.node)
        called = {id(c.func) for p in paths for g, _ in p.guards for c in ast.walk(g) if isinstance(c, ast.Call)}
        attr_names = sorted({n.attr for p in paths for g, _ in p.guards for n in ast.walk(g)
                             if isinstance(n, ast.Attribute) and isinstance(n.value, ast.Name) and n.value.id == obj_
                             and id(n) not in called})
        if attr_names:
            # guards on fields of the value (a slice's start/stop/step): None, a falsy non-None value and a truthy one for each
            import itertools as _it
            return [{"attrs": dict(zip(attr_names, combo))} for combo in _it.product((None, 0, 5), repeat=len(attr_names))]
        vals = []
        pts = {0, 1, 2, 3, 4, 5, 6, 17, 254, 255, 256, 257, 65535, 65536, 70000, 2 ** 32 - 1}
        for c in consts:
            if c >= 0:
                pts |= {max(0, c - 1), c, c + 1}
        if uses_in or t is int:
            keys = sorted(k for k in self.imm)
            vs = {keys[0] - 1, keys[0], keys[0] + 1, -1, 0, 1, keys[-1] - 1, keys[-1], keys[-1] + 1,
                  10 ** 3, -10 ** 3, 10 ** 254, 10 ** 255, 10 ** 256, -10 ** 253, -10 ** 254, -10 ** 255}
            # interval guards on the value itself: every constant of a guard (and its negation: `-0x30` is a unary minus)
            for c in consts:
                if c < 10 ** 6:
                    vs |= {c - 1, c, c + 1, -c - 1, -c, -c + 1}
            vs |= {keys[0] - len(keys), keys[0] - len(keys) - 1, keys[0] - len(keys) + 1, keys[0] - 2 * len(keys)}   # (index wrap-around)
            for v in sorted(vs):
                vals.append({"value": v, "len": len(str(v))})
        elif uses_len:
            for m in sorted(pts):
                vals.append({"len": m})
        elif uses_truth:
            vals = [{"truth": True}, {"truth": False}]
        else:
            vals = [{}]
        return vals


def chosen_paths(ctx, m, t, fn, paths, rep=None, rule=None):
    """(valuation, path) pairs to judge for the dumper of type t: one per sample valuation when the guards can be evaluated;
    when a guard depends on the VALUE in a way the evaluator does not model (`F4.unpack(F4.pack(obj))[0] == obj`), every path
    is judged on its own - a type with one published wire form must emit it on all of them"""
    obj = B.obj_param(fn.node)
    out = []
    try:
        vals = list(m.samples(t))
        for val in vals:
            B.select_path(ctx, paths, val, obj)          # dry run: can every guard be evaluated?

        def lazily():
            # select_path materialises the chosen path FOR the valuation (the same path object serves several valuations):
            # it must be re-selected right before it is judged
            for val in vals:
                yield val, B.select_path(ctx, paths, val, obj)
        return lazily()
    except AnalysisError as e_:
        out = []
        for p_ in paths:
            try:
                B.materialise(ctx, p_, {}, obj)
            except AnalysisError:
                if rep is not None:
                    rep.undecided(rule, "dumper of %s" % t.__name__, str(e_))
                return []
            out.append(({}, p_))
        if rep is not None:
            rep.info("%s: guards of the %s dumper are not evaluable (%s); every path judged separately" % (rule, t.__name__, e_))
        return out


def term_eq(a, b):
    """structural equality of loader terms ignoring the arity annotation of `item`"""
    if isinstance(a, tuple) and isinstance(b, tuple):
        if a and b and a[0] == "item" and b[0] == "item":
            return term_eq(a[1], b[1]) and a[2] == b[2]
        return len(a) == len(b) and all(term_eq(x, y) for x, y in zip(a, b))
    return type(a) is type(b) and a == b or (a is b)


def bytes_term(items, val, first_read=1, probs=None):
    """expected loader term for a byte-string payload layout (after the tag). returns (term, payload expr, next read#)"""
    kinds = [it[0] for it in items]
    if kinds == []:
        return ("const", b""), None, first_read
    if kinds == ["raw"]:
        return ("read", first_read, ("const", val.get("len"))), items[0][1], first_read + 1
    if kinds == ["pack", "raw"]:
        fmt = items[0][1]
        size = struct.calcsize(fmt)
        args = items[0][2]
        if probs is not None and not (len(args) == 1 and A.src(args[0]) == "len(%s)" % A.src(items[1][1])):
            probs.append("the length field packs `%s`, which is not the length of the bytes written after it (`%s`): for text whose "
                         "encoded form is longer than its character count the reader stops short / misreads what follows"
                         % (", ".join(A.src(a) for a in args), A.src(items[1][1])[:60]))
        u = ("item", ("unpack", fmt, ("read", first_read, ("const", size))), 0, 1)
        return ("read", first_read + 1, u), items[1][1], first_read + 2
    return None, None, first_read


def expected_term(model, t, path, val):
    """(term, problems[]) expected for the loader of the tag this dump path emits"""
    items = path.items
    probs = []
    if not items or items[0][0] != "bytes" or len(items[0][1]) != 1:
        return None, ["the path does not start with a one-byte tag"]
    rest = items[1:]
    kinds = [it[0] for it in rest]
    obj = B.obj_param(model.dumpers[t][0].node)
    if t is str:
        # TAG + <bytes layout of obj.encode(codec)> ; the reader decodes one nested value
        tb, payload, _ = bytes_term(rest[1:] if rest and rest[0][0] == "bytes" else rest, val, probs=probs)
        if not rest or rest[0][0] != "bytes" or tb is None:
            return None, ["text is not written as TAG + a nested byte string"]
        enc = None
        if payload is not None and isinstance(payload, ast.Call) and isinstance(payload.func, ast.Attribute) \
                and payload.func.attr == "encode":
            codec = model.ctx.try_fold(payload.args[0]) if payload.args else "utf-8"
            errors = model.ctx.try_fold(payload.args[1]) if len(payload.args) > 1 else "strict"
            for kw in payload.keywords:
                if kw.arg == "errors":
                    errors = model.ctx.try_fold(kw.value)
                if kw.arg == "encoding":
                    codec = model.ctx.try_fold(kw.value)
            enc = (B.norm_codec(codec), errors)
        elif payload is None:
            # empty text: the encode call is only visible in the guard `len(obj.encode(..)) == 0`
            for g, pol in path.guards:
                for c in ast.walk(g):
                    if isinstance(c, ast.Call) and isinstance(c.func, ast.Attribute) and c.func.attr == "encode":
                        codec = model.ctx.try_fold(c.args[0]) if c.args else "utf-8"
                        errors = model.ctx.try_fold(c.args[1]) if len(c.args) > 1 else "strict"
                        for kw in c.keywords:
                            if kw.arg == "errors":
                                errors = model.ctx.try_fold(kw.value)
                        enc = (B.norm_codec(codec), errors)
        if enc is None:
            return None, ["text payload is not obj.encode(<codec>)"]
        return ("decode", ("load", 1), enc[0], enc[1]), probs
    if kinds == [] or kinds in (["raw"], ["pack", "raw"]):
        if kinds == []:
            consts = {type(None): None, type(NotImplemented): NotImplemented, type(Ellipsis): Ellipsis,
                      bytes: b"", tuple: ()}
            if t is bool:
                return ("const", bool(val.get("truth"))), probs
            if t in consts:
                return ("const", consts[t]), probs
            return None, ["a bare tag is emitted for a type with more than one value"]
        tb, payload, _ = bytes_term(rest, val, probs=probs)
        if kinds == ["pack", "raw"]:
            la = rest[0][2]
            if len(la) != 1 or A.src(la[0]) != "len(%s)" % A.src(payload):
                probs.append("the packed length `%s` is not the length of the payload `%s` that follows"
                             % (", ".join(A.src(x) for x in la), A.src(payload)))
        if t is int:
            okdec = None
            try:
                from .. import miniinterp as MId
                from . import common as K
                okdec = True
                for v_ in (10 ** 30 + 7, -(10 ** 260), 12345678901234567890, -987654321098765432109876543210):
                    ex_ = {"__globals__": {obj: v_}}
                    ex_["__global_lookup__"] = K.module_function_lookup(model.ctx, model.mod, ex_)
                    got_ = MId.eval_expr(payload, ex_)
                    if not (isinstance(got_, (bytes, bytearray)) and bytes(got_) == str(v_).encode("ascii")):
                        okdec = False
            except (MId.Raised, AnalysisError, Exception):
                okdec = None
            if okdec is None:
                okdec = A.src(payload) in ("BYTES_LITERAL(str(%s))" % obj, "str(%s).encode('ascii')" % obj)
            if not okdec:
                probs.append("integer payload `%s` is not the decimal text of the value" % A.src(payload))
            return ("ctor", "int", tb), probs
        if t is bytes:
            if A.src(payload) != obj:
                probs.append("byte-string payload `%s` is not the value itself" % A.src(payload))
            return tb, probs
        return None, ["unexpected raw payload for %s" % t.__name__]
    if kinds == ["children"] or kinds == ["pack", "children"]:
        it = rest[-1][1]
        if A.src(it) != obj:
            probs.append("the elements dumped are those of `%s`, not of the value" % A.src(it))
        if kinds == ["children"]:
            k = val.get("len")
            return B.simplify(("tuple",) + tuple(("load", i + 1) for i in range(k))), probs
        fmt = rest[0][1]
        la = rest[0][2]
        if len(la) != 1 or A.src(la[0]) != "len(%s)" % A.src(it):
            probs.append("the packed count `%s` is not the number of elements that follow" % ", ".join(A.src(x) for x in la))
        size = struct.calcsize(fmt)
        return ("tuple_n", ("item", ("unpack", fmt, ("read", 1, ("const", size))), 0, 1)), probs
    if kinds == ["child"]:
        ch = rest[0][1]
        if isinstance(ch, ast.Tuple):
            names = [A.src(e) for e in ch.elts]
            if t is slice:
                if names != ["%s.start" % obj, "%s.stop" % obj, "%s.step" % obj]:
                    probs.append("slice fields are dumped as %s, not (start, stop, step)" % names)
                return ("ctor", "slice") + tuple(("item", ("load", 1), i, 3) for i in range(3)), probs
            return None, ["unexpected tuple child for %s" % t.__name__]
        if isinstance(ch, ast.Call) and A.call_name(ch) == "tuple" and len(ch.args) == 1 and A.src(ch.args[0]) == obj:
            return ("ctor", t.__name__, ("load", 1)), probs
        return None, ["unexpected child `%s`" % A.src(ch)]
    if kinds == ["pack"]:
        fmt = rest[0][1]
        args = [A.src(a) for a in rest[0][2]]
        size = struct.calcsize(fmt)
        u = ("unpack", fmt, ("read", 1, ("const", size)))
        if t is float:
            if args != [obj]:
                probs.append("float packs %s" % args)
            return ("item", u, 0, None), probs
        if t is complex:
            if args != ["%s.real" % obj, "%s.imag" % obj]:
                probs.append("complex packs %s, not (real, imag)" % args)
            return ("ctor", "complex", ("item", u, 0, 2), ("item", u, 1, 2)), probs
        return None, ["unexpected struct payload for %s" % t.__name__]
    return None, ["unsupported wire layout %s" % kinds]


def show(term):
    return repr(term)


def run(ctx, rep, model=None):
    rep.rule("R04.1", "predicate/encoder domain agreement: the exact types dumpable() accepts are the keys of the dump registry; "
                      "containers are accepted only if all items are")
    rep.rule("R04.2", "refusal is TypeError: _dump dispatches on type(obj) with a default whose every path raises TypeError")
    rep.rule("R04.3", "writer/reader wire-shape agreement: every tag a dumper can emit has a loader that consumes the same "
                      "struct/length/children and rebuilds the registered type")
    rep.rule("R04.4", "tag space is unambiguous: distinct single bytes, disjoint from the injective immediate-int range")
    rep.rule("R04.5", "every length field is bounded by its guard (I1 only for <= 255; fixed-size tags only for their size)")
    rep.rule("R04.6", "dumpers are total on their registered type (no partial operation such as strict str.encode)")
    rep.rule("R04.7", "the decoder has no effects: its call-graph closure only reads the stream and builds plain immutable values")
    rep.assume("struct '!d' packing is bit-exact; zlib/struct behave as documented",
               "objects larger than 4 GiB and the interpreter's int-to-str digit limit are out of scope (property wording)",
               "guard chains compare lengths with integer constants only: sampling c-1, c, c+1 for every constant is exhaustive")
    # the codec keeps no state between calls: a module-level cache written while encoding/decoding is shared by every connection
    # and thread of the process (check-then-use races, stale entries keyed by id()) (= R16.3 for brine.py)
    rep.rule("R04.8", "the codec is stateless: no module-level table of brine.py is written by dump/load/dumpable (= R16.3)")
    from . import common as K0
    K0.share(ctx, rep, "c16", lambda o: o.rule == "R16.3" and "rpyc.core.brine" in o.key, "R04.8")
    m = model or Model(ctx)
    mod = m.mod
    rep.analysed(module=mod)
    rep.floor("R04.3", "registered dumpers", len(m.dumpers), 12)
    rep.floor("R04.3", "registered loaders", m.n_load_funcs, 26)
    for t, (fn, paths) in m.dumpers.items():
        rep.analysed(fn)
    for tag, (fn, term) in m.loaders.items():
        rep.analysed(fn)

    # ------------------------------------------------------------------ R04.1 (partial evaluation over the exact type)
    from . import common as K
    fd = ctx.func(BR + ".dumpable")
    prm = A.params(fd.node)[0]
    gd = ctx.cfg(fd)
    rep.analysed(fd, gd)
    isinst = [c for c in A.calls(fd.node) if A.call_name(c) in ("isinstance", "issubclass")]
    keys = set(m.dumpers)

    class _Foreign(object):
        pass
    universe = set(keys) | {list, dict, set, bytearray, object, type, _Foreign}
    accepted = set()
    verdicts = {}
    for T in sorted(universe, key=lambda t: t.__name__):
        dec = K.exact_type_decider(ctx, gd, prm, T)
        ok_e = Q.valuation_edges(dec)
        nodes = Q.reach_ef([gd.entry], lambda a, b, l: l != "exc" and ok_e(a, b, l))
        rets = [n for n in nodes if n.kind == "stmt" and isinstance(n.ast, ast.Return)]
        kinds = set()
        for r in rets:
            v = r.ast.value
            if isinstance(v, ast.Constant) and v.value is True:
                kinds.add("true")
            elif isinstance(v, ast.Constant) and v.value is False:
                kinds.add("false")
            else:
                kinds.add("expr")
        verdicts[T] = (kinds, rets, nodes, ok_e)
        if kinds - {"false"}:
            accepted.add(T)
    accepted_real = accepted - {_Foreign}
    ok = accepted == keys
    rep.ob("R04.1", "brine: dumpable() domain == dump registry keys", ok,
           "%d exact types on both sides; every other type is refused" % len(keys) if ok else
           "dumpable() accepts %s but the dump registry has %s: only-in-predicate %s (declared serializable, dump raises), "
           "only-in-registry %s (serializable values sent by reference)" % (
               sorted(x.__name__ for x in accepted), sorted(x.__name__ for x in keys),
               sorted(x.__name__ for x in accepted - keys), sorted(x.__name__ for x in keys - accepted)),
           fd.loc, kind="table")
    rep.floor("R04.1", "exact types accepted by dumpable()", len(accepted), 3)
    rep.ob("R04.1", "brine.dumpable: classification is by exact type", not isinst,
           "no isinstance/issubclass in dumpable()" if not isinst else
           "dumpable() uses isinstance: instances of subclasses (enum members, named tuples, bool-likes) are declared "
           "serializable and would be sent by value / fail to dump", ctx.loc(isinst[0]) if isinst else fd.loc, kind="site")
    simple = {type(None), int, bool, float, bytes, str, complex, type(NotImplemented), type(Ellipsis)}
    for T in sorted(keys & simple, key=lambda t: t.__name__):
        kinds = verdicts[T][0]
        rep.ob("R04.1", "brine.dumpable: a %s is always serializable" % T.__name__, kinds == {"true"},
               "only `return True` is reachable" if kinds == {"true"} else "for %s dumpable() can answer %s" % (T.__name__, sorted(kinds)),
               fd.loc, kind="table", nontrivial=False)

    def must_pass_positive(T, call_src):
        """every path (under type T) to a non-False return passes the positive edge of a test `dumpable(<call_src>)`,
        or the return value itself contains that call"""
        kinds, rets, nodes, ok_e = verdicts[T]
        tests = {n.id for n in nodes if n.kind == "test" and any(
            A.call_name(c) == "dumpable" and c.args and A.src(c.args[0]) == call_src for c in A.calls(n.ast))}
        for r in rets:
            v = r.ast.value
            if isinstance(v, ast.Constant) and v.value is False:
                continue
            if any(A.call_name(c) == "dumpable" and c.args and A.src(c.args[0]) == call_src for c in A.calls(v)) and not any(
                    isinstance(x, ast.BoolOp) and isinstance(x.op, ast.Or) for x in A.walk(v)):
                continue
            # paths that avoid the *positive* edge: remove positive edges and see whether r is still reachable
            p = Q.find_path_ef(gd.entry, lambda x: x is r,
                               lambda a, b, l: l != "exc" and ok_e(a, b, l) and not (a.id in tests and l == "true"))
            if p is not None:
                return False
        return True
    # model evaluation of the predicate itself on nested plain values (the structural rules below are kept for the shapes they
    # recognise; this one decides whatever the spelling: generator, map(), explicit loop, early returns)
    from .. import miniinterp as MI

    class _Opaque:
        pass
    OP = _Opaque()
    samples_d = [1, -7, 10 ** 40, "a", "", b"x", None, True, 2.5, 1j, Ellipsis, NotImplemented, (), (1, "a"), (1, (2, (3,))),
                 (1, [2]), ([], 1), (([],), (1,)), ((1,), ([],)), (("a", [1]), ("b", 2)), (1, OP, 3), frozenset(), frozenset({1, "a"}),
                 frozenset({(1, 2), (3,)}), frozenset({(1, OP)}), slice(1, 2, 3), slice(None, None, None), slice(OP, 1, None),
                 slice(1, OP, 2), slice(1, 2, OP), slice((1, 2), "a", None), (slice(1, [], 2),), [1], {}, {1}, OP, bytearray(b"x"),
                 (1, frozenset({(2, OP)})), frozenset({frozenset({1})}), (True, 1, 1.0), range(3)]
    plain_types = set(keys)

    def ref_dumpable(v):
        t = type(v)
        if t not in plain_types:
            return False
        if t in (tuple, frozenset):
            return all(ref_dumpable(x) for x in v)
        if t is slice:
            return ref_dumpable(v.start) and ref_dumpable(v.stop) and ref_dumpable(v.step)
        return True
    bad_m = []
    try:
        extra_m = {"__calls__": {"type": type}, "__max_iter__": 2000}
        extra_m["__global_lookup__"] = K.module_function_lookup(ctx, mod, extra_m)
        for v in samples_d:
            try:
                got = MI.call_function(fd.node, [v], extra_m)
            except MI.Raised as r_:
                got = "raises " + r_.name
            if got is not ref_dumpable(v) and not (got in (True, False) and bool(got) == ref_dumpable(v) and type(got) is bool):
                bad_m.append("dumpable(%s) is %r, expected %r" % (_show_val(v, OP), got, ref_dumpable(v)))
        rep.ob("R04.1", "brine.dumpable: evaluated on nested plain values and impostors, it accepts exactly the values whose every "
               "part has a registered exact type", not bad_m,
               "%d values (tuples, frozensets and slices with an unserializable part in every position, bool/int/float triples, "
               "subclass-free impostors)" % len(samples_d) if not bad_m else "; ".join(bad_m[:3]), fd.loc, kind="model")
        model_decides = True
    except AnalysisError as e_:
        rep.undecided("R04.1", "brine.dumpable model", str(e_))
        model_decides = False
    for ct in sorted(keys & {tuple, frozenset}, key=lambda t: t.__name__):
        kinds, rets, nodes, ok_e = verdicts[ct]
        okc = False
        for r in rets:
            v = r.ast.value
            if isinstance(v, ast.Call) and A.call_name(v) == "all" and len(v.args) == 1 and \
                    isinstance(v.args[0], (ast.GeneratorExp, ast.ListComp)) and A.call_name(v.args[0].elt) == "dumpable" and \
                    A.src(v.args[0].generators[0].iter) == prm and not v.args[0].generators[0].ifs and \
                    A.src(v.args[0].elt.args[0]) == A.src(v.args[0].generators[0].target):
                okc = True
        okc = okc and "true" not in kinds
        if not okc and model_decides and not bad_m:
            continue          # another spelling of the same predicate: decided by the model evaluation above
        rep.ob("R04.1", "brine.dumpable: a %s is accepted only if all its parts are" % ct.__name__, okc,
               "all(dumpable(item) for item in obj)" if okc else "a %s can be declared serializable without checking every item"
               % ct.__name__, fd.loc)
    if slice in keys:
        okc = all(must_pass_positive(slice, "%s.%s" % (prm, fld)) for fld in ("start", "stop", "step"))
        rep.ob("R04.1", "brine.dumpable: a slice is accepted only if all its parts are", okc,
               "start, stop and step are each checked on every accepting path" if okc else
               "a slice can be declared serializable without all three fields being checked", fd.loc)
    kinds = verdicts[_Foreign][0]
    okl = kinds == {"false"}
    rep.ob("R04.1", "brine.dumpable: everything else is refused", okl,
           "for any other type only `return False` is reachable" if okl else "an unregistered type can be declared serializable",
           fd.loc)

    # ------------------------------------------------------------------ R04.2  (model evaluation of the two dispatchers)
    from .. import miniinterp as MI
    f_dump = ctx.func(BR + "._dump")
    oprm = B.obj_param(f_dump.node)
    dump_stream_first = A.params(f_dump.node)[0] != oprm       # (the dispatcher takes (stream, obj) on this tree)
    rep.analysed(f_dump)

    _sent = {}

    def sentinel_globals(name):
        vals = mod.toplevel.get(name)
        if vals and isinstance(vals[-1], ast.Call) and A.call_name(vals[-1]) == "object" and not vals[-1].args:
            return True, _sent.setdefault(name, MI.ModelObj("sentinel " + name))
        v = ctx.try_fold(ast.Name(id=name, ctx=ast.Load()), mod)
        if v is not None:
            return True, v
        return False, None
    # the undumpable default: the function every path of which raises TypeError
    refusers = []
    for q, fu in ctx.repo.funcs.items():
        if fu.module is mod and fu.parent is None and fu.cls is None:
            gu = ctx.cfg(fu, raises="default")
            raised = set()
            for n in gu.live:
                if isinstance(n.ast, ast.Raise):
                    raised |= set(n.raises or ())
            if gu.exit not in Q.reach(gu.entry, labels=("next", "true", "false")) and raised == {TypeError}:
                refusers.append(fu.name)
    T1, T2, T3 = MI.ModelObj("type:registered"), MI.ModelObj("type:other-registered"), MI.ModelObj("type:unregistered")
    calls_d = []
    def _by_name(a, k):
        # registered functions all take (obj, stream): the call may name its arguments
        return tuple(a) + tuple(k[n_] for n_ in ("obj", "stream")[len(a):] if n_ in k)
    reg = {T1: lambda *a, **k: calls_d.append(("dumper1",) + _by_name(a, k)),
           T2: lambda *a, **k: calls_d.append(("dumper2",) + _by_name(a, k))}

    def refuse(*a, **k):
        calls_d.append(("refused",) + _by_name(a, k))
        raise MI.Raised("TypeError")
    glob = {"_dump_registry": reg}
    for r_ in refusers:
        glob[r_] = refuse
    bad_d = []
    for tp, want in ((T1, "dumper1"), (T2, "dumper2"), (T3, "refused")):
        del calls_d[:]
        obj = MI.ModelObj("value", cls=tp)
        stream = []
        try:
            MI.call_function(f_dump.node, [stream, obj] if dump_stream_first else [obj, stream],
                             {"__globals__": glob, "__global_lookup__": sentinel_globals})
            out = "returns"
        except MI.Raised as r_:
            out = "raises " + r_.name
        except AnalysisError as e_:
            rep.undecided("R04.2", "the dispatch of brine._dump", str(e_))
            bad_d = None
            break
        good = (want != "refused" and out == "returns" and len(calls_d) == 1 and calls_d[0][0] == want and len(calls_d[0]) == 3 and
                any(x is obj for x in calls_d[0][1:]) and any(x is stream for x in calls_d[0][1:]) and not stream) or \
               (want == "refused" and out == "raises TypeError" and not stream and all(c[0] == "refused" for c in calls_d))
        if not good:
            bad_d.append("a value of %s: %s, calls %s, emitted %r" % (tp.name, out, [c[0] for c in calls_d], stream))
    if bad_d is None:
        bad_d = []
        refusers = refusers or ["<undecided>"]
    rep.ob("R04.2", "brine._dump: dispatch key is the exact type of the value", not bad_d,
           "model: the dumper registered for type(obj) is called once with (obj, stream); an unregistered type is refused with "
           "TypeError; _dump emits nothing itself" if not bad_d else "; ".join(bad_d), f_dump.loc, kind="table")
    rep.ob("R04.2", "brine._dump: values of any other type are refused with TypeError", bool(refusers) and not bad_d,
           "default %s: every path raises TypeError" % refusers if refusers and not bad_d else
           "no refusing default (a function whose every path raises TypeError) is consulted for unregistered types", f_dump.loc)

    # every use of the value in the dispatcher goes through its exact type or into the selected dumper: no lookup, comparison
    # or emission keyed by the value itself happens before the type is known (1 == True == 1.0 would share an entry)
    stray = []
    for n in A.walk(f_dump.node):
        if isinstance(n, ast.Name) and n.id == oprm and isinstance(n.ctx, ast.Load):
            par = getattr(n, "_parent", None)
            if isinstance(par, ast.Call) and A.call_name(par) == "type" and par.args and par.args[0] is n:
                continue
            if isinstance(par, ast.Call) and any(a is n for a in par.args) and A.call_name(par) not in ("len", "str", "repr", "hash", "id"):
                # handed to the selected dumper (the model evaluation above checks which callee that is)
                continue
            if isinstance(par, ast.keyword) and isinstance(getattr(par, "_parent", None), ast.Call) and \
                    A.call_name(par._parent) not in ("len", "str", "repr", "hash", "id"):
                continue          # the same, passed by keyword
            stray.append(n)
    emits = [c for c in A.calls(f_dump.node) if isinstance(c.func, ast.Attribute) and c.func.attr in ("append", "extend", "write")]
    ok_only = not stray and not emits
    rep.ob("R04.2", "brine._dump: nothing is decided or emitted from the value before its exact type is known", ok_only,
           "the value is only passed to type() and to the selected dumper" if ok_only else
           "_dump uses the raw value (`%s`) / emits bytes itself before dispatching on the exact type: an equality-keyed "
           "shortcut makes True, 1 and 1.0 (or 0.0 and -0.0) share an encoding" % (
               A.src(getattr(stray[0], "_parent", stray[0]))[:60] if stray else A.src(emits[0])[:60]),
           ctx.loc(stray[0] if stray else emits[0]) if (stray or emits) else f_dump.loc, kind="site")
    # dump() builds its output in a list created by this very call: a buffer that outlives the call (module level, thread local,
    # attribute) is shared with a dump() re-entered on the same thread (a proxy finalizer sending its release during a GC pass)
    f_api = ctx.func(BR + ".dump")
    g_api = ctx.cfg(f_api)
    rd_api = Q.ReachingDefs(g_api)
    okbuf = False
    whyb = "dump() does not hand a list to _dump"
    for n in g_api.live:
        if n.ast is None or n.kind not in ("stmt", "test"):
            continue
        for c in A.find_calls(n.ast, "_dump"):
            if len(c.args) == 2:
                buf = K.resolve_expr(rd_api, n, c.args[0 if dump_stream_first else 1])
                okbuf = isinstance(buf, ast.List) and not buf.elts or (isinstance(buf, ast.Call) and A.call_name(buf) == "list" and not buf.args)
                whyb = "the buffer handed to _dump is `%s`" % A.src(buf)[:60]
    rep.ob("R04.2", "brine.dump: the output buffer is created by the call itself", okbuf,
           "stream = [] per call" if okbuf else whyb + ": a nested dump on the same thread (finalizer sending a release notice while a "
           "message is being encoded) clears and refills the outer message - the value never reaches the peer", f_api.loc, kind="site")
    # no equality-keyed memoisation anywhere in the codec
    memo = []
    for q, f in sorted(ctx.repo.funcs.items()):
        if f.module is not mod:
            continue
        for d in f.node.decorator_list:
            dn = A.dotted(d.func if isinstance(d, ast.Call) else d) or ""
            if dn.split(".")[-1] in ("lru_cache", "cache", "memoize", "memoized", "cached"):
                memo.append((f, d))
    rep.ob("R04.2", "brine: no function of the codec is memoised by argument equality", not memo,
           "no lru_cache/cache decorator in %s" % mod.relpath if not memo else
           "%s is wrapped in %s: cache keys compare by == and hash, so values that are equal but of different exact type or sign "
           "(True/1/1.0, 0.0/-0.0, IntEnum members, str subclasses, frozensets of such) get each other's answer"
           % (memo[0][0].name, A.src(memo[0][1])), ctx.loc(memo[0][1]) if memo else mod.relpath, kind="site")

    # ------------------------------------------------------------------ R04.4
    vals = list(m.tags.items())
    bad = [n for n, v in vals if not (isinstance(v, bytes) and len(v) == 1)]
    rep.ob("R04.4", "brine: every TAG_* is a single byte", not bad,
           "%d tags, all one byte" % len(vals) if not bad else "not single bytes: %s" % bad, mod.relpath, kind="table")
    byv = {}
    for n, v in vals:
        byv.setdefault(v, []).append(n)
    dup = {v: ns for v, ns in byv.items() if len(ns) > 1}
    rep.ob("R04.4", "brine: TAG_* values are pairwise distinct", not dup,
           "%d distinct values" % len(byv) if not dup else "tags sharing a byte: %s" % dup, mod.relpath, kind="table")
    rep.ob("R04.4", "brine: one loader per tag byte", not m.loader_dups,
           "%d loaders, distinct tags" % len(m.loaders) if not m.loader_dups else
           "two loaders are registered for the same tag byte (the later one silently replaces the earlier): %s"
           % ", ".join("%r: %s / %s" % (t, a.name, b.name) for t, a, b in m.loader_dups), mod.relpath, kind="table")
    immv = list(m.imm.values())
    inj = len(set(immv)) == len(immv) and all(isinstance(v, bytes) and len(v) == 1 for v in immv)
    rep.ob("R04.4", "brine: IMM_INTS is injective into single bytes", inj,
           "%d immediate ints -> %d distinct bytes" % (len(immv), len(set(immv))) if inj else
           "two immediate integers share an encoding", mod.relpath, kind="table")
    clash = set(immv) & set(byv)
    rep.ob("R04.4", "brine: immediate-int bytes are disjoint from the tag bytes", not clash,
           "no overlap" if not clash else "bytes used both as tag and as immediate int: %s" % sorted(clash),
           mod.relpath, kind="table")
    inv = m.imm_loader == {v: k for k, v in m.imm.items()}
    rep.ob("R04.4", "brine: IMM_INTS_LOADER is the inverse of IMM_INTS", inv,
           "%d entries" % len(m.imm_loader) if inv else "IMM_INTS_LOADER is not the inverse map", mod.relpath, kind="table")
    rep.floor("R04.4", "immediate ints", len(m.imm), 200)
    # _load: model evaluation - one tag byte is read; immediate ints come from the loader table, every other tag goes to
    # its registered loader (with the stream), an unknown tag is refused
    f_load = ctx.func(BR + "._load")
    sp = A.params(f_load.node)[0]
    bad_l = []
    for tag, want in ((b"\x55", ("imm", 5)), (b"\x01", ("loader", "L1")), (b"\xee", ("raise", None))):
        reads = []
        lcalls = []

        def rd_(n, tag=tag, reads=reads):
            reads.append(n)
            return tag
        stream_obj = MI.ModelObj("stream")
        glob_l = {"IMM_INTS_LOADER": {b"\x55": 5}, "_load_registry": {b"\x01": lambda stream=None, lcalls=lcalls: (lcalls.append(stream), "L1")[1]}}
        try:
            got = MI.call_function(f_load.node, [stream_obj], {"__calls__": {"%s.read" % sp: rd_}, "__globals__": glob_l,
                                                             "__global_lookup__": sentinel_globals})
            out = ("imm", got) if not lcalls else ("loader", got)
        except MI.Raised as r_:
            out = ("raise", None)
        except AnalysisError as e_:
            rep.undecided("R04.4", "the dispatch of brine._load", str(e_))
            bad_l = []
            break
        if out != want or reads != [1] or (want[0] == "loader" and lcalls != [stream_obj]):
            bad_l.append("tag %r: %s after reads %s" % (tag, out, reads))
    okl = not bad_l
    rep.ob("R04.4", "brine._load: reads one tag byte and dispatches through both tables", okl,
           "tag = stream.read(1); IMM_INTS_LOADER / _load_registry" if okl else "_load no longer reads a 1-byte tag and "
           "consults both tables: %s" % "; ".join(bad_l), f_load.loc, kind="table")

    # ------------------------------------------------------------------ R04.3 / R04.5 / R04.6
    rows = 0
    checked_tags = set()
    for t, (fn, paths) in sorted(m.dumpers.items(), key=lambda kv: kv[0].__name__):
        if not paths:
            raise AnalysisError("dumper %s has no emitting path" % fn.qual)
        seen_paths = set()
        for val, p in chosen_paths(ctx, m, t, fn, paths, rep, "R04.3"):
            rows += 1
            pid = id(p)
            # R04.5 for this valuation
            for it in p.items:
                if it[0] == "pack" and "len" in val and any(isinstance(x, ast.Call) and A.call_name(x) == "len"
                                                             for a in it[2] for x in ast.walk(a)):
                    cap = {"!B": 255, "!H": 65535, "!L": 2 ** 32 - 1, "!I": 2 ** 32 - 1, "!Q": 2 ** 64 - 1}.get(it[1])
                    if cap is None:
                        raise AnalysisError("length packed with unknown format %r in %s" % (it[1], fn.qual))
                    okb = val["len"] <= cap
                    if not okb or pid not in seen_paths:
                        rep.ob("R04.5", "%s: length %s packed as %s fits" % (fn.name, val["len"] if not okb else "class", it[1]),
                               okb, "guarded: sampled lengths on this path never exceed %d" % cap if okb else
                               "a length of %d reaches %s.pack (max %d): struct.error at run time for a value dumpable() accepts"
                               % (val["len"], it[1], cap), ctx.loc(p.nodes[-1]) if p.nodes else fn.loc)
            first = p.items[0] if p.items else None
            if first and first[0] == "imm":
                try:
                    byte_ = B.imm_byte(ctx, first, val, B.obj_param(fn.node))
                    okimm = isinstance(byte_, bytes) and m.imm_loader.get(byte_) == val.get("value") and \
                        type(m.imm_loader.get(byte_)) is int
                    why_ = "int %s is written as %r, which the reader decodes as %r" % (val.get("value"), byte_, m.imm_loader.get(byte_))
                except LookupError:
                    okimm = False
                    why_ = "the lookup `%s[%s]` fails for int %s, which the guards send down this path" % (
                        first[2], A.src(first[1]), val.get("value"))
                if pid not in seen_paths or not okimm:
                    rep.ob("R04.3", "%s: immediate ints are written as the byte the reader maps back to them" % fn.name, okimm,
                           "one byte looked up by the value" if okimm else why_, ctx.loc(p.nodes[0]), kind="table")
                seen_paths.add(pid)
                continue
            exp, probs = expected_term(m, t, p, val)
            tag = first[1] if first and first[0] == "bytes" else None
            key = "%s -> tag %s (%s)" % (fn.name, tag.hex() if tag else "?", _valdesc(val))
            if exp is None:
                rep.ob("R04.3", key, False, "; ".join(probs), ctx.loc(p.nodes[0]) if p.nodes else fn.loc)
                continue
            ld = m.loaders.get(tag)
            if ld is None:
                rep.ob("R04.3", key, False, "the dumper emits tag %r for which no loader is registered" % tag,
                       ctx.loc(p.nodes[0]))
                continue
            lfn, term = ld
            if term[0] == "unknown":
                rep.undecided("R04.3", key, term[1])
                checked_tags.add(tag)
                continue
            same = term_eq(term, exp)
            if t is str and same is False and term[0] == "decode" and exp[0] == "decode":
                pass
            okrow = same and not probs
            if pid not in seen_paths or not okrow:
                rep.ob("R04.3", key, okrow,
                       "loader %s rebuilds %s" % (lfn.name, show(exp)) if okrow else
                       ("; ".join(probs) if probs else
                        "writer/reader disagree: %s writes a layout whose reader should be %s but loader %s computes %s"
                        % (fn.name, show(exp), lfn.name, show(term))), ctx.loc(lfn.node), kind="table")
            checked_tags.add(tag)
            seen_paths.add(pid)
            # R04.6 partial operations on this path
            for it in p.items:
                for e in ([it[1]] if it[0] in ("raw", "child", "children") else (it[2] if it[0] == "pack" else [])):
                    for c in ast.walk(e):
                        if isinstance(c, ast.Call) and isinstance(c.func, ast.Attribute) and c.func.attr == "encode":
                            errors = ctx.try_fold(c.args[1]) if len(c.args) > 1 else "strict"
                            for kw in c.keywords:
                                if kw.arg == "errors":
                                    errors = ctx.try_fold(kw.value)
                            okt = errors in TOTAL_ERROR_POLICIES
                            rep.ob("R04.6", "%s: `%s` is total on %s" % (fn.name, A.src(c), t.__name__), okt,
                                   "error policy %r is total and lossless" % errors if okt else
                                   "str.encode with error policy %r raises UnicodeEncodeError for text with lone surrogates, "
                                   "which dumpable() declares serializable (dumpable('\\ud800') is True, dump raises)" % errors,
                                   ctx.loc(p.nodes[0]) if p.nodes else fn.loc)
        rep.floor("R04.3", "dump paths exercised for %s" % t.__name__, len(seen_paths), 1)
        mm_ = getattr(ctx, "_imm_mismatch", {}).get(fn.qual)
        if mm_ is not None:
            rep.ob("R04.3", "%s: the immediate lookup covers exactly the immediate table" % fn.name, False, mm_[1], ctx.loc(mm_[0]),
                   kind="table")
        if t in (float, complex):
            # struct packs a Python float without loss or failure only with the 8-byte format: 'f'/'e' raise OverflowError for
            # finite doubles beyond their range (and round the rest)
            from ..constfold import StructVal as _SV
            for c_ in A.calls(fn.node):
                if isinstance(c_.func, ast.Attribute) and c_.func.attr == "pack":
                    sv = ctx.try_fold(c_.func.value, fn.module)
                    if isinstance(sv, _SV):
                        narrow = [ch for ch in sv.format if ch in "fe"]
                        rep.ob("R04.6", "%s: `%s` is total on %s" % (fn.name, A.src(c_)[:40], t.__name__), not narrow,
                               "format %r holds every float" % sv.format if not narrow else
                               "format %r cannot hold every float: struct raises OverflowError for finite values beyond its range "
                               "(1e300), which dumpable() declares serializable - the refusal is not a TypeError" % sv.format,
                               ctx.loc(c_), kind="site")
    rep.extra.setdefault("table_rows", {})["R04.3 dump valuations"] = rows
    # decode side of the text codec must be total/lossless with the same policy
    for tag, (lfn, term) in m.loaders.items():
        if isinstance(term, tuple) and term and term[0] == "decode":
            pass
    unused = set(m.loaders) - checked_tags
    rep.info("loader tags never emitted by a dumper on the sampled valuations: %s" % sorted(x.hex() for x in unused))
    # every loader that no dumper emits must still be shape-sane (decoder of a foreign encoder) - checked by C19 R19.2

    # ------------------------------------------------------------------ R04.7
    cg = callgraph.get(ctx)
    closure = cg.closure([BR + ".load"])
    rep.floor("R04.7", "functions in the decoder closure", len(closure), 28)
    outside = sorted(q for q in closure if not q.startswith(BR + "."))
    rep.ob("R04.7", "brine.load: closure stays inside the codec", not outside,
           "%d functions, all in rpyc.core.brine" % len(closure) if not outside else
           "the decoder reaches %s" % outside, ctx.func(BR + ".load").loc, kind="site")
    allowed_ext = {"BytesIO", "int", "complex", "slice", "frozenset", "tuple", "range", "bytes", "float", "bool", "str"}
    forbidden = {"__import__", "eval", "exec", "compile", "getattr", "setattr", "delattr", "globals", "locals", "vars",
                 "open", "type"}
    bad_calls = []
    n_ext = 0
    for q in sorted(closure):
        f = ctx.repo.funcs[q]
        for c, callees in cg.sites.get(q, ()):
            if callees:
                continue
            n_ext += 1
            d = A.call_name(c)
            if d in allowed_ext:
                continue
            if isinstance(getattr(c, "_parent", None), ast.Raise) and d and isinstance(getattr(builtins, d, None), type) and \
                    issubclass(getattr(builtins, d), BaseException):
                continue          # refusing a malformed stream: building the exception that is raised
            if d is None and isinstance(c.func, ast.Call):
                # registry dispatch handled as resolved; a bare `.get(tag)(stream)` is resolved above
                bad_calls.append((c, "indirect call `%s`" % A.src(c)[:50]))
                continue
            if d and (d.endswith(".read") or d.endswith(".unpack") or d.endswith(".decode")):
                continue
            if d is None and isinstance(c.func, ast.Attribute) and c.func.attr in ("read", "unpack", "decode"):
                continue          # method of an intermediate value (`_load(stream).decode(...)`)
            if d in ("_load_registry.get", "IMM_INTS_LOADER.get"):
                continue
            if d in forbidden or (d and d.split(".")[0] in ("pickle", "importlib", "os", "sys", "subprocess", "marshal")):
                bad_calls.append((c, "forbidden effect `%s`" % d))
                continue
            bad_calls.append((c, "call `%s` outside the reviewed pure set" % (d or A.src(c.func))))
        for n in A.walk(f.node):
            if isinstance(n, (ast.Import, ast.ImportFrom, ast.Global)):
                bad_calls.append((n, "import/global statement in the decoder"))
            # a store through a module-level name (`_state.depth += 1`, `_cache[k] = v`): decoding one packet changes what the
            # next one - of any connection - sees (and an exception between two such stores leaves the state skewed)
            tg = n.targets if isinstance(n, ast.Assign) else [n.target] if isinstance(n, (ast.AugAssign, ast.AnnAssign)) else []
            for t in tg:
                b = t
                while isinstance(b, (ast.Attribute, ast.Subscript)):
                    b = b.value
                if b is not t and isinstance(b, ast.Name) and b.id in f.module.toplevel and b.id not in A.params(f.node) and \
                        b.id not in {x.id for x in A.walk(f.node) if isinstance(x, ast.Name) and isinstance(x.ctx, ast.Store)}:
                    bad_calls.append((n, "store to module-level state `%s`" % A.src(t)))
            # ... or a mutating method call on one (`_table.append(x)`, `_cache.update(...)`): a table filled lazily by whoever
            # decodes first is seen half-built by a second thread decoding at the same time
            if isinstance(n, ast.Call) and isinstance(n.func, ast.Attribute) and isinstance(n.func.value, ast.Name) and \
                    n.func.attr in ("append", "extend", "insert", "update", "setdefault", "pop", "clear", "add", "remove", "discard") and \
                    n.func.value.id in f.module.toplevel and n.func.value.id not in A.params(f.node) and \
                    n.func.value.id not in {x.id for x in A.walk(f.node) if isinstance(x, ast.Name) and isinstance(x.ctx, ast.Store)}:
                bad_calls.append((n, "mutation of module-level state `%s`" % A.src(n)[:50]))
    rep.ob("R04.7", "brine.load: no effectful operation in the decoder closure", not bad_calls,
           "%d unresolved callees, all in the pure set {read, unpack, decode, BytesIO, int, complex, slice, frozenset, "
           "tuple, range}" % n_ext if not bad_calls else
           "; ".join("%s at %s" % (w, ctx.loc(c)) for c, w in bad_calls), ctx.loc(bad_calls[0][0]) if bad_calls
           else ctx.func(BR + ".load").loc,
           # an effect found inside a new helper is an effect of the decoder all the same (no "cannot decide" downgrade)
           kind="model" if any("module-level state" in w or "forbidden effect" in w for _, w in bad_calls) else "path")
    return m


def _show_val(v, op):
    if v is op:
        return "<unserializable>"
    if isinstance(v, tuple):
        return "(" + ", ".join(_show_val(x, op) for x in v) + ("," if len(v) == 1 else "") + ")"
    if isinstance(v, frozenset):
        return "frozenset({" + ", ".join(sorted(_show_val(x, op) for x in v)) + "})"
    if isinstance(v, slice):
        return "slice(%s, %s, %s)" % tuple(_show_val(x, op) for x in (v.start, v.stop, v.step))
    return repr(v)


def _valdesc(val):
    if "value" in val:
        v = val["value"]
        return "int of %d digits" % len(str(abs(v))) if abs(v) > 10 ** 6 else "int %d" % v
    if "len" in val:
        return "len %d" % val["len"]
    if "truth" in val:
        return "truth %s" % val["truth"]
    if "attrs" in val:
        return ", ".join("%s=%r" % kv for kv in sorted(val["attrs"].items()))
    return "any"

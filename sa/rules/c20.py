"""C20 - uploading and downloading files reproduces them byte for byte.

Structural necessary conditions: binary modes, copy-loop discipline, same relative names, filter threaded, sibling
symmetry (R20.1-R20.4). File-system behaviour is trusted."""
import ast

from .. import astutil as A
from .. import cfgq as Q
from ..loader import AnalysisError

CL = "rpyc.utils.classic"


def opens(fn):
    out = []
    for w in A.walk(fn):
        if isinstance(w, ast.With):
            for it in w.items:
                c = it.context_expr
                if isinstance(c, ast.Call) and (A.call_name(c) or "").split(".")[-1] == "open":
                    remote = (A.call_name(c) or "").startswith("conn.")
                    var = it.optional_vars.id if isinstance(it.optional_vars, ast.Name) else None
                    out.append((w, c, remote, var))
    return out


def check_file(ctx, rep, name, src_remote):
    f = ctx.func(CL + "." + name)
    rep.analysed(f)
    prm = A.params(f.node)
    ops = opens(f.node)
    side = {True: "remote", False: "local"}
    other_opens = [c for c in A.calls(f.node) if (A.call_name(c) or "").split(".")[-1] == "open"
                   and not any(c is o[1] for o in ops)]
    rep.ob("R20.1", "%s: both files are opened in `with` statements (closed on every path)" % name, len(ops) == 2 and not other_opens,
           "two with-open blocks" if len(ops) == 2 and not other_opens else
           "a file is opened outside a `with`: it is not closed (flushed) on every path", f.loc, kind="site")
    if len(ops) != 2:
        return None
    srcv = dstv = None
    for w, c, remote, var in ops:
        mode = ctx.try_fold(c.args[1]) if len(c.args) > 1 else None
        for kw in c.keywords:
            if kw.arg == "mode":
                mode = ctx.try_fold(kw.value)
        is_src = remote == src_remote
        want = "r" if is_src else "w"
        ok = isinstance(mode, str) and "b" in mode and want in mode and ("w" in mode) == (not is_src) and "a" not in mode
        rep.ob("R20.1", "%s: the %s %s file is opened in binary %s mode" % (name, side[remote], "source" if is_src else "destination",
                                                                       "read" if is_src else "write"), ok,
               "mode %r" % mode if ok else
               "mode %r: text mode translates line endings / decodes bytes (or the wrong direction/append is used) - the copy "
               "is no longer byte for byte" % (mode,), ctx.loc(c))
        # which path is opened
        pth = A.src(c.args[0]) if c.args else None
        wantp = "remotepath" if remote else "localpath"
        rep.ob("R20.1", "%s: the %s file is opened at the %s path" % (name, side[remote], side[remote]), pth == wantp,
               "open(%s, ...)" % pth if pth == wantp else "the %s side opens `%s`" % (side[remote], pth), ctx.loc(c), kind="site")
        if is_src:
            srcv = var
        else:
            dstv = var
    # R20.2: the copy loop, wherever it lives (in this function or in a helper that is handed both files)
    if srcv is None or dstv is None:
        rep.ob("R20.2", "%s: a single copy loop over the two open files" % name, False, "the open files are not bound to names", f.loc)
        return f
    cf, cs, cd, cn = f, srcv, dstv, "chunk_size"
    if not any(isinstance(n, (ast.While, ast.For)) for n in A.walk(f.node)):
        for c in A.calls(f.node):
            args = [A.src(x) for x in c.args]
            r = ctx.repo.resolve_name(f.module, A.call_name(c)) if A.call_name(c) else None
            callee = r[1] if r and r[0] == "func" else None
            if srcv in args and dstv in args and callee is not None and not c.keywords:
                ps = A.params(callee.node)
                if len(ps) >= len(args) and "chunk_size" in args:
                    cf, cs, cd, cn = callee, ps[args.index(srcv)], ps[args.index(dstv)], ps[args.index("chunk_size")]
                    rep.analysed(cf)
                    break
    copy_loop(ctx, rep, name, cf, cs, cd, cn)
    return f


def _nonempty_label(test, buf):
    """for a CFG test atom on the chunk: the label of the edge taken by a non-empty chunk, else None"""
    e = test
    if isinstance(e, ast.Name) and e.id == buf:
        return "true"
    if isinstance(e, ast.Call) and A.call_name(e) == "len" and len(e.args) == 1 and A.src(e.args[0]) == buf:
        return "true"
    if isinstance(e, ast.Compare) and len(e.ops) == 1:
        l, r, op = A.src(e.left), A.src(e.comparators[0]), e.ops[0]
        empties = ("b''", 'b""', "0")
        if l == "len(%s)" % buf and r == "0" or l == buf and r in ("b''", 'b""'):
            if isinstance(op, ast.Eq):
                return "false"
            if isinstance(op, (ast.NotEq, ast.Gt)):
                return "true"
        if l == "0" and r == "len(%s)" % buf and isinstance(op, ast.Lt):
            return "true"
    return None


def copy_loop(ctx, rep, name, cf, srcv, dstv, chunk):
    g = ctx.cfg(cf, raises=lambda a, k: set())
    where = "" if cf.qual.endswith("." + name) else " (in %s)" % cf.name
    reads = [n for n in g.live if n.kind == "stmt" and isinstance(n.ast, ast.Assign) and isinstance(n.ast.value, ast.Call)
             and A.call_name(n.ast.value) == "%s.read" % srcv]
    other_reads = [n for n in g.live if n.ast is not None and n.kind in ("stmt", "test") and n not in reads and any(
        (A.call_name(c) or "").startswith(srcv + ".") for c in A.calls(n.ast))]
    okr = bool(reads) and not other_reads and all(
        isinstance(n.ast.targets[0], ast.Name) and [A.src(a) for a in n.ast.value.args] == [chunk] and not n.ast.value.keywords
        for n in reads) and len({A.src(n.ast.targets[0]) for n in reads}) == 1
    rep.ob("R20.2", "%s: each iteration reads one chunk of chunk_size from the source" % name, okr,
           "`%s`%s" % (A.norm(reads[0].ast), where) if okr else
           "the source is not read as `buf = src.read(chunk_size)` (and only so)%s" % where,
           ctx.loc(reads[0].ast) if reads else cf.loc)
    if not okr:
        return
    buf = reads[0].ast.targets[0].id
    wnodes = [n for n in g.live if n.kind == "stmt" and n.ast is not None and any(
        A.call_name(c) == "%s.write" % dstv for c in A.calls(n.ast))]
    good_w = [n for n in wnodes if isinstance(n.ast, ast.Expr) and isinstance(n.ast.value, ast.Call) and
              [A.src(x) for x in n.ast.value.args] == [buf] and not n.ast.value.keywords]
    rd = Q.ReachingDefs(g)
    read_ids = {n.id for n in reads}

    def fresh(n):
        ds = rd.at(n, buf)
        return bool(ds) and all(d != "param" and d.id in read_ids for d in ds)
    tests = {n.id: _nonempty_label(n.ast, buf) for n in g.live if n.kind == "test" and _nonempty_label(n.ast, buf) and fresh(n)}
    okw = bool(wnodes) and len(good_w) == len(wnodes) and all(fresh(n) for n in wnodes)
    rep.ob("R20.2", "%s: what is written is the chunk just read and tested" % name, okw and bool(tests),
           "%s.write(%s) with %s defined only by the read" % (dstv, buf, buf) if okw and tests else
           "the destination is written with something other than the chunk just read (or the chunk is never tested)%s" % where,
           ctx.loc(wnodes[0].ast) if wnodes else cf.loc)
    if not (okw and tests):
        return
    normal = lambda a, b, l: l != "exc"
    nonempty = lambda a, b, l: l != "exc" and not (a.id in tests and l != tests[a.id])
    w_ids = {n.id for n in wnodes}
    # (a) a non-empty chunk is written before the next read / the end
    p = Q.find_path_ef(reads, lambda n: n.id in read_ids or n is g.exit,
                       lambda a, b, l: nonempty(a, b, l) and b.id not in w_ids)
    # (b) never written twice
    p2 = Q.find_path_ef(wnodes, lambda n: n.id in w_ids, lambda a, b, l: normal(a, b, l) and b.id not in read_ids)
    # (c) the source is read at least once
    p3 = Q.find_path_ef([g.entry], lambda n: n is g.exit, lambda a, b, l: normal(a, b, l) and b.id not in read_ids)
    # (d) an empty chunk ends the copy
    empty_targets = [t for n in g.live if n.id in tests for t, l in n.succ if l not in ("exc", tests[n.id])]
    p4 = Q.find_path_ef(empty_targets, lambda n: n.id in read_ids, normal, skip_first=False) if empty_targets else None
    okt = p is None and p2 is None and p3 is None and p4 is None and bool(empty_targets)
    wit = p or p2 or p3 or p4
    why = ("a non-empty chunk can reach the next read / the end without being written" if p else
           "a chunk can be written twice" if p2 else "the copy can finish without reading the source" if p3 else
           "an empty chunk does not end the copy" if p4 else "no exit on an empty chunk")
    rep.ob("R20.2", "%s: an empty chunk ends the copy; every other chunk is written, unchanged, before the next read" % name, okt,
           "read -> emptiness test -> write on every path%s" % where if okt else why + where,
           ctx.loc(reads[0].ast), witness=ctx.path(wit) if wit else None)
    # (e) the emptiness test is the only way out: from a read, with the empty edges removed, the end is unreachable
    p5 = Q.find_path_ef(reads, lambda n: n is g.exit, nonempty)
    rep.ob("R20.2", "%s: the emptiness test is the loop's only exit" % name, p5 is None,
           "the end is reachable from a read only through the empty-chunk edge" if p5 is None else
           "the copy loop has another exit (short files)" + where, ctx.loc(reads[0].ast),
           witness=ctx.path(p5) if p5 else None)


def check_dir(ctx, rep, name, local_is_src):
    f = ctx.func(CL + "." + name)
    rep.analysed(f)
    prm = A.params(f.node)
    srcroot, dstroot = ("localpath", "remotepath") if local_is_src else ("remotepath", "localpath")
    src_mod = "os" if local_is_src else "conn.modules.os"
    dst_mod = "conn.modules.os" if local_is_src else "os"
    fors = [n for n in A.walk(f.node) if isinstance(n, ast.For)]
    if len(fors) != 1:
        rep.ob("R20.3", "%s: one listing loop" % name, False, "listing loop not found", f.loc)
        return f
    lp = fors[0]
    okl = A.src(lp.iter) == "%s.listdir(%s)" % (src_mod, srcroot) and isinstance(lp.target, ast.Name)
    rep.ob("R20.3", "%s: lists the source directory" % name, okl, "for fn in %s" % A.src(lp.iter) if okl else
           "the loop lists `%s`, not the source directory" % A.src(lp.iter), ctx.loc(lp))
    fn = A.src(lp.target)
    # destination directory created before, and independently of, the loop
    mk = [c for c in A.calls(f.node) if (A.call_name(c) or "") in ("%s.makedirs" % dst_mod, "%s.mkdir" % dst_mod)]
    okm = len(mk) == 1 and [A.src(a) for a in mk[0].args][:1] == [dstroot] and not A.contains(lp, mk[0]) and \
        mk[0].lineno < lp.lineno
    guard = A.enclosing(mk[0], ast.If) if mk else None
    okg = guard is None or A.src(guard.test) == "not %s.path.isdir(%s)" % (dst_mod, dstroot)
    rep.ob("R20.3", "%s: the destination directory is created before the listing loop (empty directories are reproduced)" % name,
           okm and okg, "`if not isdir(%s): makedirs(%s)` precedes the loop" % (dstroot, dstroot) if okm and okg else
           "the destination directory is created inside/after the loop or under another condition: empty directories are lost",
           ctx.loc(mk[0]) if mk else f.loc)
    # filter guard
    ifs = [n for n in lp.body if isinstance(n, ast.If)]
    okf = len(lp.body) == 1 and len(ifs) == 1 and A.src(ifs[0].test) in ("not filter or filter(%s)" % fn,) and not ifs[0].orelse
    rep.ob("R20.3", "%s: an entry is processed iff there is no filter or the filter accepts its name" % name, okf,
           "`if not filter or filter(%s)`" % fn if okf else
           "the filter condition is `%s`" % (A.src(ifs[0].test) if ifs else "<missing>"), ctx.loc(lp))
    body = ifs[0].body if ifs else lp.body
    joins = {}
    for st in body:
        if isinstance(st, ast.Assign) and isinstance(st.value, ast.Call) and (A.call_name(st.value) or "").endswith("path.join"):
            joins[st.targets[0].id] = st.value
    srcj = [v for v, c in joins.items() if A.call_name(c) == "%s.path.join" % src_mod and [A.src(a) for a in c.args] == [srcroot, fn]]
    dstj = [v for v, c in joins.items() if A.call_name(c) == "%s.path.join" % dst_mod and [A.src(a) for a in c.args] == [dstroot, fn]]
    okj = len(srcj) == 1 and len(dstj) == 1 and len(joins) == 2
    rep.ob("R20.3", "%s: source and destination paths join the respective root with the same entry name" % name, okj,
           "%s = join(%s, %s); %s = join(%s, %s)" % (srcj[0], srcroot, fn, dstj[0], dstroot, fn) if okj else
           "the per-entry paths are %s" % {k: A.src(v) for k, v in joins.items()}, ctx.loc(lp))
    rec_name = "upload" if local_is_src else "download"
    rec = [c for st in body for c in A.calls(st) if A.call_name(c) == rec_name]
    okr = False
    if len(rec) == 1 and okj:
        c = rec[0]
        pos = [A.src(a) for a in c.args]
        kws = {k.arg: A.src(k.value) for k in c.keywords}
        okr = pos[:3] == ["conn", srcj[0], dstj[0]] and kws.get("filter") == "filter" and kws.get("chunk_size") == "chunk_size" \
            and kws.get("ignore_invalid") == "True"
    rep.ob("R20.3", "%s: recursion passes (source path, destination path) in order with the caller's filter and chunk size" % name,
           okr, "%s(conn, src, dst, filter=filter, ignore_invalid=True, chunk_size=chunk_size)" % rec_name if okr else
           "the recursive call is `%s`: nested entries are unfiltered / paths swapped" % (A.src(rec[0]) if rec else "<missing>"),
           ctx.loc(rec[0]) if rec else ctx.loc(lp))
    return f


def check_dispatch(ctx, rep, name, local_is_src):
    f = ctx.func(CL + "." + name)
    rep.analysed(f)
    mod = "os" if local_is_src else "conn.modules.os"
    src = "localpath" if local_is_src else "remotepath"
    a, b = ("localpath", "remotepath") if local_is_src else ("remotepath", "localpath")
    top = [s for s in f.node.body if isinstance(s, ast.If)]
    ok = False
    if top:
        i = top[0]
        c1 = A.src(i.test) == "%s.path.isdir(%s)" % (mod, src)
        d = [c for c in A.calls(ast.Module(body=i.body, type_ignores=[])) if A.call_name(c) == name + "_dir"]
        c2 = len(d) == 1 and [A.src(x) for x in d[0].args] == ["conn", a, b, "filter", "chunk_size"]
        e = i.orelse[0] if i.orelse and isinstance(i.orelse[0], ast.If) else None
        c3 = e is not None and A.src(e.test) == "%s.path.isfile(%s)" % (mod, src)
        fl = [c for c in A.calls(ast.Module(body=e.body, type_ignores=[])) if A.call_name(c) == name + "_file"] if e else []
        c4 = len(fl) == 1 and [A.src(x) for x in fl[0].args] == ["conn", a, b, "chunk_size"]
        ok = c1 and c2 and c3 and c4
    rep.ob("R20.3", "%s: directories go to %s_dir (with the filter), files to %s_file, both with (source, destination, chunk size)"
           % (name, name, name), ok, "isdir -> %s_dir(conn, %s, %s, filter, chunk_size); isfile -> %s_file(conn, %s, %s, chunk_size)"
           % (name, a, b, name, a, b) if ok else "the %s dispatcher changed (filter/chunk size/paths not passed on as given)" % name, f.loc)


def run(ctx, rep):
    rep.rule("R20.1", "binary on both ends: constant binary modes, read on the source, write on the destination, right paths")
    rep.rule("R20.2", "copy-loop discipline: read a chunk, stop only on an empty chunk, write that chunk before the next read; files closed by `with`")
    rep.rule("R20.3", "trees: destination directory created before and independently of the listing; same entry name on both sides; "
                      "filter threaded through every level")
    rep.rule("R20.4", "sibling symmetry: upload* and download* are mirror images (same rule instances on both sides)")
    rep.rule("R20.5", "the chunks travel whole: frame layout agreement of the channel underneath (= R05.4)")
    rep.assume("file-system semantics, symlinks/special files and permissions are out of scope; chunk size does not affect content")
    before = len(rep.obs)
    check_file(ctx, rep, "upload_file", src_remote=False)
    mid = len(rep.obs)
    check_file(ctx, rep, "download_file", src_remote=True)
    end = len(rep.obs)
    n_up, n_down = mid - before, end - mid
    a = len(rep.obs)
    check_dir(ctx, rep, "upload_dir", True)
    b = len(rep.obs)
    check_dir(ctx, rep, "download_dir", False)
    c = len(rep.obs)
    check_dispatch(ctx, rep, "upload", True)
    check_dispatch(ctx, rep, "download", False)
    ok = n_up == n_down and (b - a) == (c - b)
    rep.ob("R20.4", "upload*/download* yield the same rule instances", ok,
           "file: %d/%d, dir: %d/%d obligations" % (n_up, n_down, b - a, c - b) if ok else
           "the two families differ in shape (file: %d vs %d, dir: %d vs %d obligations): one sibling was changed alone"
           % (n_up, n_down, b - a, c - b), "rpyc/utils/classic.py", kind="table")
    from . import common as K
    K.share(ctx, rep, "c05", lambda o: o.rule == "R05.4", "R20.5", floor=5)

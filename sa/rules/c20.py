"""C20 - uploading and downloading files reproduces them byte for byte.

Model evaluation: upload()/download() and the helpers they call are interpreted by sa/miniinterp.py (an AST interpreter over
model values; no repository code is executed) on in-memory file systems and compared with a faithful copy (R20.1, R20.2);
the channel underneath is R05.4 (R20.5). Real file-system behaviour is trusted."""
import ast

from .. import astutil as A
from .. import cfgq as Q
from ..loader import AnalysisError
from .. import miniinterp as MI

CL = "rpyc.utils.classic"


class _FS:
    """in-memory file system of the model: files {path: bytes}, dirs {path}"""
    mi_native = True

    def __init__(self, files=None, dirs=None):
        self.files = dict(files or {})
        self.dirs = set(dirs or ())
        self.opened = []

    @staticmethod
    def norm(p):
        """the path the kernel resolves: repeated and trailing separators do not matter"""
        if not isinstance(p, str):
            raise MI.Raised("TypeError")
        q = "/".join(x for x in p.split("/") if x not in ("", "."))
        return ("/" + q) if p.startswith("/") else q

    def isdir(self, p):
        return self.norm(p) in self.dirs

    def isfile(self, p):
        return self.norm(p) in self.files and not p.endswith("/")

    def listdir(self, p):
        p = self.norm(p)
        if p not in self.dirs:
            raise MI.Raised("OSError")
        pre = p + "/"
        return sorted({x[len(pre):].split("/")[0] for x in list(self.files) + list(self.dirs) if x.startswith(pre)})

    def join(self, a, *b):
        import posixpath
        return posixpath.join(a, *b)

    def makedirs(self, p, mode=0o777, exist_ok=False):
        p = self.norm(p)
        if p in self.files or (p in self.dirs and not exist_ok):
            raise MI.Raised("OSError")
        parts = p.split("/")
        for i in range(1, len(parts) + 1):
            if "/".join(parts[:i]) in self.files:
                raise MI.Raised("OSError")
            self.dirs.add("/".join(parts[:i]))

    def mkdir(self, p, mode=0o777):
        p = self.norm(p)
        if p in self.dirs or p in self.files or ("/" in p and p.rsplit("/", 1)[0] not in self.dirs):
            raise MI.Raised("OSError")
        self.dirs.add(p)

    def getsize(self, p):
        p = self.norm(p)
        if p not in self.files:
            raise MI.Raised("OSError")
        return len(self.files[p])

    def walk(self, top, topdown=True, onerror=None, followlinks=False):
        """os.walk: a generator; with topdown the caller may prune `dirnames` in place before the walk descends"""
        import posixpath
        try:
            names = self.listdir(top)
        except MI.Raised:
            return
        dirs = [n for n in names if self.norm(posixpath.join(top, n)) in self.dirs]
        files = [n for n in names if self.norm(posixpath.join(top, n)) in self.files]
        if topdown:
            yield top, dirs, files
        for n in list(dirs):
            for x in self.walk(posixpath.join(top, n), topdown, onerror, followlinks):
                yield x
        if not topdown:
            yield top, dirs, files

    def glob(self, pattern):
        import fnmatch
        out = []
        for x in list(self.files) + list(self.dirs):
            if x.count("/") != pattern.count("/"):
                continue
            ok = True
            for seg, pseg in zip(x.split("/"), pattern.split("/")):
                if not fnmatch.fnmatchcase(seg, pseg) or (seg.startswith(".") and not pseg.startswith(".")):
                    ok = False
            if ok:
                out.append(x)
        return sorted(out)

    def open(self, p, mode="r", *a, **k):
        f = _File(self, p, mode)
        self.opened.append(f)
        return f


class _NS:
    """namespace object of the model (os, os.path, conn.modules, ...)"""
    mi_native = True

    def __init__(self, **kw):
        self.__dict__.update(kw)


def _os_ns(fs):
    import posixpath
    path = _NS(isdir=fs.isdir, isfile=fs.isfile, join=fs.join, exists=lambda p: fs.norm(p) in fs.files or fs.norm(p) in fs.dirs,
               getsize=fs.getsize, basename=posixpath.basename, dirname=posixpath.dirname, split=posixpath.split, normpath=posixpath.normpath,
               relpath=posixpath.relpath, abspath=posixpath.normpath, isabs=posixpath.isabs, splitext=posixpath.splitext, sep="/")
    path.getmtime = lambda p: _mtime(fs, p)
    path.getatime = path.getmtime
    path.getctime = path.getmtime
    return _NS(path=path, listdir=fs.listdir, makedirs=fs.makedirs, mkdir=fs.mkdir, sep="/", walk=fs.walk,
               stat=lambda p: _NS(st_size=fs.getsize(p), st_mtime=_mtime(fs, p), st_mtime_ns=int(_mtime(fs, p) * 10 ** 9)))


def _mtime(fs, p):
    p = fs.norm(p)
    if p not in fs.files and p not in fs.dirs:
        raise MI.Raised("OSError")
    return getattr(fs, "mtimes", {}).get(p, getattr(fs, "default_mtime", 100.0))


class _Logger:
    """the logging module as the transfer functions see it"""
    mi_native = True

    def __init__(self, debug_on):
        self.debug_on = debug_on

    def isEnabledFor(self, level):
        return self.debug_on or level >= 30

    def getEffectiveLevel(self):
        return 10 if self.debug_on else 30

    def debug(self, *a, **k):
        pass
    info = warning = warn = error = exception = log = debug


def _weakref_ns():
    class _WD(dict):
        """WeakKeyDictionary / WeakValueDictionary of the model: the model objects live as long as the scenario"""
    return _NS(WeakKeyDictionary=lambda *a: _WD(), WeakValueDictionary=lambda *a: _WD(), WeakSet=lambda *a: set(),
               ref=lambda o, *a: (lambda: o))


def _logging_ns(debug_on):
    lg = _Logger(debug_on)
    return _NS(getLogger=lambda *a: lg, DEBUG=10, INFO=20, WARNING=30, ERROR=40, CRITICAL=50, basicConfig=lambda *a, **k: None)


class _File:
    mi_native = True

    def __init__(self, fs, path, mode):
        if path.endswith("/"):
            raise MI.Raised("OSError")
        path = fs.norm(path)
        self.fs, self.path, self.mode = fs, path, mode
        self.closed = False
        self.pos = 0
        if "r" in mode:
            if path not in fs.files:
                raise MI.Raised("OSError")
        elif "w" in mode:
            if path in fs.dirs or ("/" in path and path.rsplit("/", 1)[0] not in fs.dirs):
                raise MI.Raised("OSError")
            fs.files[path] = b""
        elif "a" in mode:
            fs.files.setdefault(path, b"")

    def read(self, n=-1):
        if self.closed or "r" not in self.mode:
            raise MI.Raised("ValueError")
        data = self.fs.files[self.path]
        chunk = data[self.pos:] if n is None or n < 0 else data[self.pos:self.pos + n]
        self.pos += len(chunk)
        self.fs.n_io = getattr(self.fs, "n_io", 0) + 1
        if getattr(self.fs, "fault_at", None) == self.fs.n_io:
            # the operation was carried out by the peer, but its reply did not arrive in time
            raise MI.Raised("AsyncResultTimeout")
        return chunk

    def write(self, b):
        if self.closed or "r" in self.mode:
            raise MI.Raised("ValueError")
        if not isinstance(b, bytes):
            raise MI.Raised("TypeError")
        self.fs.files[self.path] += b
        self.fs.n_io = getattr(self.fs, "n_io", 0) + 1
        if getattr(self.fs, "fault_at", None) == self.fs.n_io:
            raise MI.Raised("AsyncResultTimeout")
        return len(b)

    def close(self):
        self.closed = True

    def mi_enter(self):
        return self

    def mi_exit(self):
        self.closed = True


def _tree(prefix):
    files = {prefix + "/a.bin": bytes(range(256)) * 3, prefix + "/empty": b"", prefix + "/crlf.txt": b"x\r\ny\n\x1a",
             prefix + "/skip.tmp": b"junk", prefix + "/sub/b.dat": b"\x00" * 70 + b"\xff", prefix + "/sub/deep/c": b"c" * 513,
             prefix + "/sub/deep/d.tmp": b"no", prefix + "/cache.tmp/inner": b"hidden", prefix + "/_private": b"p",
             prefix + "/.hidden": b"dot", prefix + "/sub/.cfg": b"k=v", prefix + "/data[1]/x": b"bracket", prefix + "/data1/y": b"plain",
             prefix + "/build/out.o": b"obj", prefix + "/v1..2.txt": b"dots", prefix + "/sub/~bak": b"tilde", prefix + "/sp ace": b"s"}
    dirs = {prefix, prefix + "/sub", prefix + "/sub/deep", prefix + "/hollow", prefix + "/cache.tmp", prefix + "/data[1]",
            prefix + "/data1", prefix + "/build", prefix + "/.git"}
    return files, dirs


def _expected(files, dirs, src, dst, flt):
    """the destination tree a faithful copy produces"""
    of, od = {}, set()

    def rec(s, d):
        if s in dirs:
            od.add(d)
            pre = s + "/"
            for name in sorted({x[len(pre):].split("/")[0] for x in list(files) + list(dirs) if x.startswith(pre)}):
                if flt is None or flt(name):
                    rec(s + "/" + name, d + "/" + name)
        elif s in files:
            of[d] = files[s]
    rec(src, dst)
    return of, od


def _glookup(ctx, mod, extra=None):
    memo = {}

    def look(n):
        v = ctx.try_fold(ast.Name(id=n, ctx=ast.Load()), mod)
        if v is not None:
            return True, v
        if n in memo:
            return True, memo[n]
        exprs = mod.toplevel.get(n)
        if exprs and extra is not None:
            try:
                memo[n] = MI.eval_expr(exprs[-1], extra)
                return True, memo[n]
            except (AnalysisError, MI.Raised, TypeError, AttributeError):
                return False, None
        return False, None
    return look


def model_copy(ctx, rep, direction):
    """interpret upload()/download() (and the helpers they call) on the in-memory file systems and compare the outcome with a
    faithful copy, for several chunk sizes, with and without a name filter, for trees and for single files"""
    mod = ctx.module(CL)
    fnodes = {f.name: f for q, f in ctx.repo.funcs.items() if f.module is mod and f.parent is None and f.cls is None}
    top = fnodes[direction]
    rep.analysed(top)
    for nm in (direction + "_file", direction + "_dir"):
        if nm in fnodes:
            rep.analysed(fnodes[nm])
    connp = A.params(top.node)[0]
    bad = []
    runs = 0
    flt_tmp = lambda name: not (name.endswith(".tmp") or name.startswith("_") or name == "build")
    for chunk, debug_on, stale in [(c_, False, False) for c_ in (1, 64, 256, 768, 1000, 16000)] + [(256, True, False), (256, False, True)]:
        for flt_name, flt in (("no filter", None), ("filter", flt_tmp)):
            for what in ("tree", "file", "empty file", "file during which one reply of the peer times out", "tree named with a trailing separator",
                         "tree whose own name the filter would reject as an entry", "file whose own name the filter would reject as an entry"):
                if chunk == 1 and what.startswith("tree"):
                    continue
                if (what.endswith("separator") or what.endswith("as an entry") or what.endswith("times out")) and \
                        (chunk != 256 or stale or debug_on):
                    continue
                if what.endswith("as an entry") and flt is None:
                    continue
                runs += 1
                sfiles, sdirs = _tree("src")
                src_fs = _FS(sfiles, sdirs)
                dst_fs = _FS({}, {"out"})
                if stale:
                    # an earlier copy is already there: same names and sizes, other content, not older than the source
                    of_, od_ = _expected(sfiles, sdirs, {"tree": "src", "file": "src/a.bin", "empty file": "src/empty"}.get(what, "src"),
                                         "out/copy", flt)
                    dst_fs = _FS({k_: bytes((x_ ^ 0x55) for x_ in v_) for k_, v_ in of_.items()}, {"out"} | od_)
                    dst_fs.default_mtime = 200.0
                local, remote = (src_fs, dst_fs) if direction == "upload" else (dst_fs, src_fs)
                conn_obj = _NS(modules=_NS(os=_os_ns(remote), glob=_NS(glob=remote.glob)), builtin=_NS(open=remote.open),
                               builtins=_NS(open=remote.open))
                extra = {"__calls__": {}, "__max_iter__": 5000}
                glob = {"os": _os_ns(local), "open": local.open, "glob": _NS(glob=local.glob), "logging": _logging_ns(debug_on), "weakref": _weakref_ns()}
                for nm, f in fnodes.items():
                    glob[nm] = (lambda f: lambda *a, **k: MI.call_function(f.node, list(a), extra, k))(f)
                extra["__globals__"] = glob
                extra["__global_lookup__"] = _glookup(ctx, mod, extra)
                if what.endswith("times out"):
                    remote.fault_at = 2          # the second read()/write() on the peer's file object
                s_path = {"tree": "src", "file": "src/a.bin", "empty file": "src/empty",
                          "file during which one reply of the peer times out": "src/a.bin",
                          "tree whose own name the filter would reject as an entry": "src/cache.tmp",
                          "file whose own name the filter would reject as an entry": "src/skip.tmp"}.get(what, "src/")
                # (the caller names source and destination; the filter selects among the ENTRIES of a directory)
                d_path = "out/copy.tmp" if what.endswith("as an entry") else "out/copy"
                try:
                    kw = {"chunk_size": chunk}
                    if flt is not None:
                        kw["filter"] = flt
                    MI.call_function(top.node, [conn_obj, s_path, d_path], extra, kw)
                    out = None
                except MI.Raised as r:
                    out = "raises %s" % r.name
                want_f, want_d = _expected(sfiles, sdirs, s_path.rstrip("/"), d_path, flt)
                got_f = {k: v for k, v in dst_fs.files.items()}
                got_d = {d for d in dst_fs.dirs if d != "out"}
                label = "%s of a %s, chunk size %d, %s%s%s" % (direction, what, chunk, flt_name, ", debug logging enabled" if debug_on else "",
                                                           ", over an earlier copy with the same names and sizes" if stale else "")

                if what.endswith("times out"):
                    # a transfer that reports the failure is fine; one that claims success must have produced a faithful copy
                    if not out and got_f != want_f:
                        bad.append("%s: returns normally although the copy differs (%s)" % (label, "; ".join(
                            "%s: %d bytes instead of %d" % (k_, len(got_f.get(k_, b"")), len(want_f.get(k_, b"")))
                            for k_ in sorted(set(got_f) | set(want_f)) if got_f.get(k_) != want_f.get(k_))[:200]))
                elif out:
                    bad.append("%s: %s" % (label, out))
                elif got_f != want_f or got_d != want_d:
                    diff = []
                    for k in sorted(set(got_f) | set(want_f)):
                        if got_f.get(k) != want_f.get(k):
                            diff.append("%s: %s" % (k, "missing" if k not in got_f else "unexpected" if k not in want_f else
                                                    "%d bytes instead of %d%s" % (len(got_f[k]), len(want_f[k]),
                                                                                  "" if len(got_f[k]) != len(want_f[k]) else " (content differs)")))
                    for k in sorted(got_d ^ want_d):
                        diff.append("directory %s %s" % (k, "missing" if k in want_d else "unexpected"))
                    bad.append("%s: %s" % (label, "; ".join(diff[:4])))
                else:
                    leaks = [f for fs in (src_fs, dst_fs) for f in fs.opened if not f.closed]
                    modes = {f.mode for fs in (src_fs, dst_fs) for f in fs.opened}
                    if leaks:
                        bad.append("%s: %d file(s) left open (not flushed/closed on every path)" % (label, len(leaks)))
                    if any("b" not in m_ for m_ in modes):
                        bad.append("%s: file opened in text mode %s (newline translation / decoding: not byte for byte)" % (label, sorted(modes)))
                    if src_fs.files != sfiles or src_fs.dirs != sdirs:
                        bad.append("%s: the source tree was modified" % label)
    # the same transfer again over the SAME connection after the destination tree has been removed in the meantime (whatever the
    # first run remembered about the destination - directories it created, files it considered current - is stale)
    runs += 1
    sfiles, sdirs = _tree("src")
    src_fs = _FS(sfiles, sdirs)
    dst_fs = _FS({}, {"out"})
    local, remote = (src_fs, dst_fs) if direction == "upload" else (dst_fs, src_fs)
    conn_obj = _NS(modules=_NS(os=_os_ns(remote), glob=_NS(glob=remote.glob)), builtin=_NS(open=remote.open), builtins=_NS(open=remote.open))
    extra = {"__calls__": {}, "__max_iter__": 5000}
    glob = {"os": _os_ns(local), "open": local.open, "glob": _NS(glob=local.glob), "logging": _logging_ns(False), "weakref": _weakref_ns()}
    for nm, f in fnodes.items():
        glob[nm] = (lambda f: lambda *a, **k: MI.call_function(f.node, list(a), extra, k))(f)
    extra["__globals__"] = glob
    extra["__global_lookup__"] = _glookup(ctx, mod, extra)
    try:
        MI.call_function(top.node, [conn_obj, "src", "out/copy"], extra, {"chunk_size": 256})
        dst_fs.files.clear()
        dst_fs.dirs.clear()
        dst_fs.dirs.add("out")
        MI.call_function(top.node, [conn_obj, "src", "out/copy"], extra, {"chunk_size": 256})
        want_f, want_d = _expected(sfiles, sdirs, "src", "out/copy", None)
        got_d = {d for d in dst_fs.dirs if d != "out"}
        if dst_fs.files != want_f or got_d != want_d:
            miss = sorted((set(want_f) - set(dst_fs.files)) | {d + "/" for d in want_d - got_d})
            bad.append("%s of a tree repeated on the same connection after the destination was removed: %s missing" % (direction, miss[:5]))
    except MI.Raised as r_:
        bad.append("%s of a tree repeated on the same connection after the destination was removed raises %s" % (direction, r_.name))
    # a transfer that cannot succeed (a nested destination name is occupied by a directory) must not be reported as done
    runs += 1
    sfiles, sdirs = _tree("src")
    src_fs = _FS(sfiles, sdirs)
    dst_fs = _FS({}, {"out", "out/copy", "out/copy/sub", "out/copy/sub/b.dat"})
    local, remote = (src_fs, dst_fs) if direction == "upload" else (dst_fs, src_fs)
    conn_obj = _NS(modules=_NS(os=_os_ns(remote), glob=_NS(glob=remote.glob)), builtin=_NS(open=remote.open), builtins=_NS(open=remote.open))
    extra = {"__calls__": {}, "__max_iter__": 5000}
    glob = {"os": _os_ns(local), "open": local.open, "glob": _NS(glob=local.glob), "logging": _logging_ns(False), "weakref": _weakref_ns()}
    for nm, f in fnodes.items():
        glob[nm] = (lambda f: lambda *a, **k: MI.call_function(f.node, list(a), extra, k))(f)
    extra["__globals__"] = glob
    extra["__global_lookup__"] = _glookup(ctx, mod, extra)
    try:
        MI.call_function(top.node, [conn_obj, "src", "out/copy"], extra, {"chunk_size": 256})
        want_f, want_d = _expected(sfiles, sdirs, "src", "out/copy", None)
        if dst_fs.files != want_f:
            bad.append("%s of a tree whose nested destination `sub/b.dat` is occupied by a directory returns normally although %d file(s) "
                       "were not copied: an I/O error during the transfer is swallowed and the copy is reported as done"
                       % (direction, len(set(want_f) - set(dst_fs.files))))
    except MI.Raised:
        pass
    # an invalid path
    for ignore, want_raise in ((False, True), (True, False)):
        runs += 1
        src_fs, dst_fs = _FS(*_tree("src")), _FS({}, {"out"})
        local, remote = (src_fs, dst_fs) if direction == "upload" else (dst_fs, src_fs)
        conn_obj = _NS(modules=_NS(os=_os_ns(remote), glob=_NS(glob=remote.glob)), builtin=_NS(open=remote.open),
                       builtins=_NS(open=remote.open))
        extra = {"__calls__": {}}
        glob = {"os": _os_ns(local), "open": local.open, "glob": _NS(glob=local.glob), "logging": _logging_ns(False), "weakref": _weakref_ns()}
        for nm, f in fnodes.items():
            glob[nm] = (lambda f: lambda *a, **k: MI.call_function(f.node, list(a), extra, k))(f)
        extra["__globals__"] = glob
        extra["__global_lookup__"] = _glookup(ctx, mod, extra)
        try:
            MI.call_function(top.node, [conn_obj, "src/nothing-here", "out/x"], extra, {"ignore_invalid": ignore})
            raised = None
        except MI.Raised as r:
            raised = r.name
        if (raised == "ValueError") != want_raise or (raised not in (None, "ValueError")):
            bad.append("%s of a path that is neither file nor directory with ignore_invalid=%s: %s" % (
                direction, ignore, "raises %s" % raised if raised else "returns silently"))
    return runs, bad


def _sync_chunk_writes(ctx, rep):
    """rpyc documents that asynchronous requests may be executed in any order (a peer serving with several threads executes
    them concurrently): a transfer that keeps more than one chunk write in flight can land the chunks in the file out of order.
    The transfer functions therefore call the remote file's methods directly (synchronous proxies) - no async_/timed wrapper,
    no asyncreq, in the closure of upload()/download()."""
    from .. import callgraph
    cg = callgraph.get(ctx)
    closure = [q for q in cg.closure([CL + ".upload", CL + ".download"]) if q.startswith(CL + ".")]
    bad = []
    for q in sorted(closure):
        f = ctx.repo.funcs[q]
        for c in A.calls(f.node):
            d = (A.call_name(c) or "").split(".")[-1]
            if d in ("async_", "asyncreq", "timed", "async_request", "_async_request", "BgServingThread"):
                bad.append((c, f))
    rep.floor("R20.6", "functions in the closure of upload()/download()", len(closure), 6)
    rep.ob("R20.6", "upload/download: file chunks are transferred by synchronous calls only", not bad,
           "%d functions, no asynchronous wrapper" % len(closure) if not bad else
           "%s issues `%s`: several chunk writes can be in flight at once, and a peer that serves requests with more than one "
           "thread may execute them out of order - the file arrives with its chunks permuted" % (
               bad[0][1].name, A.src(bad[0][0])[:50]), ctx.loc(bad[0][0]) if bad else ctx.func(CL + ".upload").loc, kind="site")


def run(ctx, rep):
    rep.rule("R20.1", "model evaluation: upload()/download() and their helpers, interpreted (sa/miniinterp.py, no repository code is "
                      "run) on in-memory file systems, reproduce trees and files byte for byte for every chunk size tried (below, at "
                      "and above file sizes, exact multiples), with and without a name filter; binary modes; every file closed; "
                      "the source untouched")
    rep.rule("R20.2", "a path that is neither file nor directory raises ValueError unless ignore_invalid is set")
    rep.rule("R20.5", "the chunks travel whole: frame layout agreement of the channel underneath (= R05.4)")
    rep.rule("R20.6", "the chunks of a file are written by synchronous requests, one after the other (asynchronous requests carry no "
                      "ordering guarantee)")
    _sync_chunk_writes(ctx, rep)
    rep.assume("file-system semantics, symlinks/special files and permissions are out of scope",
               "the model file system implements isdir/isfile/listdir/join/makedirs/mkdir/open(read, write, close) only")
    total = 0
    for direction in ("upload", "download"):
        runs, bad = model_copy(ctx, rep, direction)
        total += runs
        inval = [b for b in bad if "neither file nor directory" in b]
        copy_bad = [b for b in bad if b not in inval]
        rep.ob("R20.1", "%s: trees and files are reproduced byte for byte on the model file systems" % direction, not copy_bad,
               "%d runs (chunk sizes x filter x tree/file/empty file) give exactly the faithful copy" % runs if not copy_bad else
               "; ".join(copy_bad[:3]), ctx.func(CL + "." + direction).loc, kind="table")
        rep.ob("R20.2", "%s: an invalid path raises ValueError unless ignore_invalid" % direction, not inval,
               "ValueError / silent as documented" if not inval else "; ".join(inval), ctx.func(CL + "." + direction).loc, kind="table")
    rep.floor("R20.1", "model runs of upload/download", total, 60)
    from . import common as K
    K.share(ctx, rep, "c05", lambda o: o.rule in ("R05.4", "R05.8"), "R20.5", floor=5)

"""C02 - operating on a proxy is indistinguishable from operating on the target.

Decides that each proxy-side special method is wired to the handler that performs the same Python operation, and that
the proxy never mistakes one of its own attributes for a remote one (R02.1-R02.7). Equivalence of arbitrary operation
sequences is behavioural and not decided."""
import ast

from .. import astutil as A
from .. import cfgq as Q
from ..loader import AnalysisError
from . import c06
from . import c19
from . import common as K

NETREF = "rpyc.core.netref"
BN = NETREF + ".BaseNetref"

# reference: Python data model (does not come from the repository)
DUNDER_OP = {
    "__repr__": "repr", "__str__": "str", "__hash__": "hash", "__dir__": "dir",
    "__getattr__": "getattr", "__getattribute__": "getattr", "__setattr__": "setattr", "__delattr__": "delattr",
}
CMP_OPS = ["__cmp__", "__eq__", "__ne__", "__lt__", "__gt__", "__le__", "__ge__"]


def handler_operation(ctx, h):
    """the Python operation a handler applies to its first operand: 'repr' | 'str' | ... | 'getattr' ... | None"""
    prm = A.params(h.node)
    if len(prm) < 2:
        return None
    obj = prm[1]
    rets = [n for n in A.walk(h.node) if isinstance(n, ast.Return) and n.value is not None]
    if len(rets) != 1:
        return None
    v = rets[0].value
    # tuple(dir(obj)) / bytes(...) wrappers
    inner = v
    while isinstance(inner, ast.Call) and A.call_name(inner) in ("tuple", "list") and len(inner.args) == 1:
        inner = inner.args[0]
    if isinstance(inner, ast.Call):
        d = A.call_name(inner)
        if d in ("repr", "str", "hash", "dir") and len(inner.args) == 1 and A.src(inner.args[0]) == obj:
            return d
        if d == "self._access_attr" and len(inner.args) == 6 and A.src(inner.args[0]) == obj:
            return A.dotted(inner.args[5])
    return None


def _id_pack_model(ctx, rep):
    """R02.13: lib.get_id_pack evaluated on model objects. The identifier a proxy is built from names the class the object
    *presents* (`obj.__class__`, what isinstance() and `.__class__` answer locally - a facade or Mock(spec=X) presents X) while
    the numeric ids are those of the real type and the object itself; a class is named by itself with instance id 0; an object
    that already is a proxy hands back the identifier it was built from."""
    from .. import miniinterp as MI
    rep.rule("R02.13", "the identifier of a lent object names the class it presents (obj.__class__), carries id(type), id(obj); "
                       "classes are (module.name, id(cls), 0); proxies return their own identifier")
    f = ctx.func("rpyc.lib.get_id_pack")
    rep.analysed(f)
    TY = MI.ModelObj("type", {"__module__": "builtins", "__name__": "type"})
    TY.cls = TY
    REAL = MI.ModelObj("class Real", {"__module__": "real.mod", "__name__": "Real"}, cls=TY)
    FACADE = MI.ModelObj("class Facade", {"__module__": "facade.mod", "__name__": "Facade"}, cls=TY)
    PLAIN = MI.ModelObj("Real()", {}, cls=REAL)
    PLAIN.attrs["__class__"] = REAL
    MASKED = MI.ModelObj("instance presenting Facade", {"__module__": "real.mod"}, cls=REAL)
    MASKED.attrs["__class__"] = FACADE
    PROXY = MI.ModelObj("proxy", {"____id_pack__": ("peer.Cls", 11, 22)}, cls=REAL)
    PROXY.attrs["__class__"] = FACADE
    REAL.attrs["__class__"] = TY
    FACADE.attrs["__class__"] = TY
    classes = (TY, REAL, FACADE)

    class _NS:
        mi_native = True

        def __init__(self, **kw):
            self.__dict__.update(kw)
    ident = lambda o: ("id", o.name)
    extra = {"__calls__": {"id": ident, "inspect.ismodule": lambda o: False, "inspect.isclass": lambda o: any(o is c for c in classes)},
             "__isinstance__": lambda v, t: any(v is c for c in classes) if t == "type" else False,
             "__globals__": {"type": TY, "sys": _NS(modules={}),
                             "inspect": _NS(ismodule=lambda o: False, isclass=lambda o: any(o is c for c in classes))},
             "__max_iter__": 50}
    extra["__global_lookup__"] = K.module_function_lookup(ctx, f.module, extra)
    rows = [("an ordinary instance", PLAIN, ("real.mod.Real", ident(REAL), ident(PLAIN))),
            ("an instance whose __class__ presents another class than its type", MASKED, ("facade.mod.Facade", ident(REAL), ident(MASKED))),
            ("a class", REAL, ("real.mod.Real", ident(REAL), 0)),
            ("an object that is a proxy already", PROXY, ("peer.Cls", 11, 22))]
    bad = []
    try:
        for label, o, want in rows:
            try:
                got = MI.call_function(f.node, [o], extra)
            except MI.Raised as r_:
                got = "raises %s" % r_.name
            if got != want:
                bad.append("%s: %r, expected %r" % (label, got, want))
    except AnalysisError as e_:
        rep.undecided("R02.13", "get_id_pack model", str(e_))
        return
    rep.ob("R02.13", "get_id_pack: identifiers of the model objects", not bad,
           "%d kinds of object evaluated" % len(rows) if not bad else "; ".join(bad)[:500], f.loc, kind="model")


class _FalsyClass(object):
    """a class slot holding a class that is falsy (a metaclass with __len__/__bool__, e.g. an empty Enum-like class)"""
    def __bool__(self):
        return False

    def __repr__(self):
        return "<falsy class>"


_FALSY_CLASS = _FalsyClass()


def run(ctx, rep):
    rep.rule("R02.1", "dunder <-> handler <-> builtin agreement against the Python data model")
    rep.rule("R02.2", "rich comparisons send their own name; the handler looks that name up on type(obj) and applies it to (obj, other)")
    rep.rule("R02.3", "local-attribute closure: slots and own methods of BaseNetref are in LOCAL_ATTRS; class_factory skips exactly those")
    rep.rule("R02.4", "generated methods send CALLATTR with their own name and both operand kinds; method discovery covers metaclass and MRO")
    rep.rule("R02.5", "the StopIteration fast path is paired (= R09.7)")
    rep.rule("R02.12", "a result comes back as what it is: values by exact type, everything else (subclasses included) as a reference to "
                       "the target-side object (= R03.1, R03.2)")
    rep.rule("R02.11", "access hooks are the target type's, called with the target: a catch-all __getattr__ of the target is never mistaken for a hook (= R06.4)")
    rep.rule("R02.6", "buffered iteration yields every fetched element in order and stops only on an empty chunk")
    rep.rule("R02.8", "generated proxy classes are reused only for the exact class they were generated for (cache keyed by the "
                      "whole id of a class object, never by name alone)")
    rep.rule("R02.9", "the attribute policy itself does not evaluate the target's attribute (a getter runs exactly once per access) (= R06.3)")
    rep.rule("R02.10", "forwarding special methods have no local short-cut: every path sends exactly one request and returns its reply")
    rep.rule("R02.7", "attribute get/set/del on a proxy: local names stay local, everything else goes to the matching handler with (name[, value])")
    rep.assume("result/exception equality of operations and target state after failed operations are not decided")
    table, rows = c06.handler_table(ctx)
    by_id = {hid: f for hid, _, f, _ in rows if f is not None}
    bn = ctx.cls(BN)
    LOCAL = ctx.const(NETREF, "LOCAL_ATTRS")
    DELETED = ctx.const(NETREF, "DELETED_ATTRS")

    # ------------------------------------------------------------------ R02.1
    n1 = 0
    for meth, op in sorted(DUNDER_OP.items()):
        f = bn.methods.get(meth)
        if f is None:
            rep.ob("R02.1", "BaseNetref.%s exists" % meth, False, "the proxy class no longer defines %s" % meth, bn.node.lineno and
                   ctx.loc(bn.node), kind="site")
            continue
        rep.analysed(f)
        ids = sorted({v for _, v, _ in c19.request_ids(ctx, f.node) if v is not None})
        if len(ids) != 1:
            rep.ob("R02.1", "BaseNetref.%s sends one handler id" % meth, False, "sends %s" % ids, f.loc, kind="table")
            continue
        h = by_id.get(ids[0])
        got = handler_operation(ctx, h) if h is not None else None
        n1 += 1
        ok = got == op
        rep.ob("R02.1", "BaseNetref.%s -> handler %s performs %s()" % (meth, h.name if h else ids[0], op), ok,
               "%s(obj...) on the owner" % op if ok else
               "%s on a proxy is answered by %s, which performs `%s` instead of %s()" % (meth, h.name if h else ids[0], got, op),
               h.loc if h else f.loc, kind="table")
    rep.floor("R02.1", "dunder/handler pairs compared", n1, 8)
    # __call__ (generated) and __exit__
    HCTX = ctx.const("rpyc.core.consts", "HANDLE_CTXEXIT")
    fe = bn.methods.get("__exit__")
    okx = fe is not None and sorted({v for _, v, _ in c19.request_ids(ctx, fe.node)}) == [HCTX]
    hx = by_id.get(HCTX)
    okh = hx is not None and any(A.src(c.args[1]) == "'__exit__'" for c in A.find_calls(hx.node, "self._handle_getattr")
                                 if len(c.args) == 2)
    rep.ob("R02.1", "BaseNetref.__exit__ -> _handle_ctxexit calls the target's __exit__ through the policy", bool(okx and okh),
           "self._handle_getattr(obj, '__exit__')(...)" if okx and okh else "__exit__ is not wired to the target's __exit__",
           hx.loc if hx else "?", kind="table")
    # _handle_ctxexit: model evaluation - the target's __exit__ gets the exception triple (or three Nones) and its answer (which
    # decides whether the exception is swallowed) is what the handler returns
    if hx is not None:
        from .. import miniinterp as MIx
        bad_x = []
        try:
            for label, exc in (("normal exit", None), ("exit with an exception", MIx.Raised("ValueError", "BODY-ERROR"))):
                calls_x = []

                def exit_fn(*a, calls_x=calls_x):
                    calls_x.append(a)
                    return "EXIT-ANSWER"
                asked = []

                def hga(o_, n_, asked=asked):
                    asked.append((o_, n_))
                    return exit_fn
                if exc is not None:
                    exc.mi_traceback = "EXC-TB"
                try:
                    # the triple of the exception in flight, however it is obtained (sys.exc_info() or type(e), e, e.__traceback__)
                    got = MIx.call_method(hx.node, {}, ["TARGET", exc], {"__calls__": {
                        "self._handle_getattr": hga, "sys.exc_info": lambda exc=exc: ("EXC-TYPE", exc, "EXC-TB"),
                        "type": lambda o_, exc=exc: "EXC-TYPE" if o_ is exc else "type-of-%r" % (o_,)}})
                    res = ("value", got)
                except MIx.Raised as r_:
                    res = ("raise", r_.name)
                want_args = (None, None, None) if exc is None else ("EXC-TYPE", exc, "EXC-TB")
                if res != ("value", "EXIT-ANSWER") or calls_x != [want_args] or asked != [("TARGET", "__exit__")]:
                    bad_x.append("%s: handler %s, __exit__ called with %s" % (
                        label, "returns %r" % (res[1],) if res[0] == "value" else "raises %s" % res[1], calls_x))
            rep.ob("R02.1", "_handle_ctxexit: __exit__ receives the exception triple and its answer is returned to the proxy",
                   not bad_x, "normal exit and exit-with-exception evaluated" if not bad_x else
                   "; ".join(bad_x) + " - a remote context manager that swallows the exception is not honoured", hx.loc, kind="table")
        except AnalysisError as e_:
            rep.undecided("R02.1", "_handle_ctxexit", str(e_))
    for hname, op in (("_handle_repr", "repr"), ("_handle_str", "str"), ("_handle_hash", "hash"), ("_handle_dir", "dir")):
        h = ctx.func(K.CONN + "." + hname)
        got = handler_operation(ctx, h)
        rep.ob("R02.1", "%s applies %s() to its operand" % (hname, op), got == op,
               "return %s(obj)" % op if got == op else "%s performs `%s`" % (hname, got), h.loc, kind="table")

    # ------------------------------------------------------------------ R02.2
    HCMP = ctx.const("rpyc.core.consts", "HANDLE_CMP")
    for meth in CMP_OPS:
        f = bn.methods.get(meth)
        if f is None:
            rep.ob("R02.2", "BaseNetref.%s exists" % meth, False, "missing", ctx.loc(bn.node), kind="site")
            continue
        reqs = c19.request_ids(ctx, f.node)
        ok = len(reqs) == 1 and reqs[0][1] == HCMP and len(reqs[0][2]) == 2 and \
            A.src(reqs[0][2][0]) == A.params(f.node)[1] and ctx.try_fold(reqs[0][2][1]) == meth
        rep.ob("R02.2", "BaseNetref.%s sends (other, %r) to the comparison handler" % (meth, meth), ok,
               "syncreq(self, HANDLE_CMP, other, %r)" % meth if ok else
               "%s sends `%s`: the owner applies a different comparison (or to different operands)"
               % (meth, A.src(reqs[0][0]) if reqs else "<nothing>"), f.loc, kind="table")
    hc = ctx.func(K.CONN + "._handle_cmp")
    cp = A.params(hc.node)
    acc = A.find_calls(hc.node, "self._access_attr")
    okc = False
    if len(acc) == 1 and len(acc[0].args) == 6:
        a = acc[0]
        look_ok = A.src(a.args[0]) == "type(%s)" % cp[1] and A.src(a.args[1]) == cp[3]
        # the looked-up operator - directly or through a local - is applied to (obj, other)
        applied = []
        outer = a._parent
        if isinstance(outer, ast.Call) and outer.func is a:
            applied.append(outer)
        st = A.enclosing(a, ast.stmt)
        if isinstance(st, ast.Assign) and st.value is a and isinstance(st.targets[0], ast.Name):
            v = st.targets[0].id
            stores = [n for n in A.walk(hc.node) if isinstance(n, ast.Name) and n.id == v and isinstance(n.ctx, ast.Store)]
            if len(stores) == 1:
                applied += [c for c in A.calls(hc.node) if isinstance(c.func, ast.Name) and c.func.id == v]
        okc = look_ok and len(applied) == 1 and [A.src(x) for x in applied[0].args] == [cp[1], cp[2]] and \
            isinstance(A.enclosing(applied[0], ast.stmt), ast.Return)
    rep.ob("R02.2", "_handle_cmp: looks the operator up on type(obj) through the policy and applies it to (obj, other)", okc,
           "self._access_attr(type(obj), op, ...)(obj, other)" if okc else
           "_handle_cmp no longer applies type(obj).<op> to (obj, other) in that order", hc.loc)

    # ------------------------------------------------------------------ R02.3
    slots = ctx.fold(bn.attrs["__slots__"], bn.module) if "__slots__" in bn.attrs else None
    if slots is None:
        raise AnalysisError("BaseNetref.__slots__ not found")
    miss = sorted(set(slots) - set(LOCAL))
    rep.ob("R02.3", "BaseNetref.__slots__ is a subset of LOCAL_ATTRS", not miss,
           "%d slots, all local" % len(slots) if not miss else
           "slot(s) %s are not in LOCAL_ATTRS: reading them on a proxy goes over the wire (and recurses)" % miss,
           ctx.loc(bn.attrs["__slots__"]), kind="table")
    own = sorted(bn.methods)
    miss = [m for m in own if m not in LOCAL]
    rep.ob("R02.3", "every method defined by BaseNetref is in LOCAL_ATTRS", not miss,
           "%d methods, all local" % len(own) if not miss else
           "method(s) %s are defined on BaseNetref but missing from LOCAL_ATTRS: class_factory overwrites them with a generic "
           "forwarder / __getattribute__ sends them to the peer" % miss, ctx.loc(bn.node), kind="table")
    rep.ob("R02.3", "DELETED_ATTRS is a subset of LOCAL_ATTRS", set(DELETED) <= set(LOCAL),
           "%d names" % len(DELETED), bn.module.relpath, kind="table")
    needed = {"____conn__", "____id_pack__", "____refcount__", "__class__", "__del__", "__getattribute__", "__getattr__",
              "__setattr__", "__delattr__", "__exit__", "__init__", "__weakref__", "__dict__", "__slots__", "__reduce_ex__",
              "__hash__", "__repr__", "__str__", "__dir__", "__eq__", "__ne__", "__lt__", "__gt__", "__le__", "__ge__",
              "__instancecheck__", "__doc__", "__module__", "__new__", "__cmp__"}
    lost = sorted(needed - set(LOCAL))
    rep.ob("R02.3", "LOCAL_ATTRS keeps the names the proxy machinery itself relies on", not lost,
           "all %d machinery names present" % len(needed) if not lost else
           "LOCAL_ATTRS lost %s: the proxy now forwards its own machinery attribute(s) to the peer" % lost,
           bn.module.relpath, kind="table")
    # the converse: a name resolved locally must have a local answer - an implementation on BaseNetref, a slot, or one of the
    # reviewed object-machinery names (confirmed by reading netref.py: __doc__/__module__/__metaclass__/__methods__/__new__/
    # __reduce__/__dict__/__weakref__/__class__ describe the proxy object itself; the DELETED names must not exist at all)
    REVIEWED_LOCAL = {"__class__", "__doc__", "__module__", "__metaclass__", "__methods__", "__new__", "__reduce__", "__dict__",
                      "__weakref__", "__slots__", "__cmp__", "__getattr__"} | set(DELETED)
    extra_local = sorted(set(LOCAL) - set(bn.methods) - set(slots) - REVIEWED_LOCAL)
    rep.ob("R02.3", "every LOCAL_ATTRS name has a local answer (BaseNetref method, slot, or reviewed object machinery)", not extra_local,
           "%d names" % len(LOCAL) if not extra_local else
           "LOCAL_ATTRS contains %s, which BaseNetref does not implement: the operation is answered by object's default on the "
           "proxy instead of reaching the target" % extra_local, bn.module.relpath, kind="table")
    # class_factory: model evaluation (class resolution through the module table, forwarders for exactly the non-local names)
    from .. import miniinterp as MIc
    fcf = ctx.func(NETREF + ".class_factory")
    rep.analysed(fcf)
    THING = MIc.ModelObj("class Thing", {"__class__": "type", "__name__": "Thing"})
    INNER = MIc.ModelObj("class Inner", {"__class__": "type", "__name__": "Inner"})
    INTC = MIc.ModelObj("class int", {"__class__": "type", "__name__": "int"})
    BASE = MIc.ModelObj("BaseNetref")

    class _NSm:
        mi_native = True

        def __init__(self, **kw):
            self.__dict__.update(kw)
    mods = {"pkg": MIc.ModelObj("module pkg", {"__dict__": {"Thing": THING}}),
            "a.b": MIc.ModelObj("module a.b", {"__dict__": {"Inner": INNER}}),
            "a": MIc.ModelObj("module a", {"__dict__": {}})}
    globs = {"_normalized_builtin_types": {"builtins.int": INTC}, "sys": _NSm(modules=mods), "LOCAL_ATTRS": LOCAL,
             "NetrefClass": lambda c_: MIc.ModelObj("descriptor", {"owner": c_}),
             "_make_method": lambda n_, d_: ("forwarder", n_, d_), "BaseNetref": BASE,
             "type": lambda n_, b_, ns_: ("class", n_, tuple(b_), dict(ns_))}
    # the table of builtin types by name, whatever the module calls it: a module-level `{}` that class_factory consults with .get()
    for c_ in A.calls(fcf.node):
        if isinstance(c_.func, ast.Attribute) and c_.func.attr == "get" and isinstance(c_.func.value, ast.Name):
            nm_ = c_.func.value.id
            tl_ = fcf.module.toplevel.get(nm_)
            if tl_ and all(isinstance(v_, ast.Dict) and not v_.keys for v_ in tl_):
                globs[nm_] = globs["_normalized_builtin_types"]
    methods_in = [("go", "doc-go"), ("__len__", "doc-len"), ("__class__", "x"), ("__del__", "y"), ("____conn__", "z"),
                  ("__getattribute__", "w"), ("fetch", None), ("__format__", "f"), ("__sizeof__", "s"), ("__iter__", "i"),
                  ("__call__", "c"), ("__getstate__", "g")]
    want_fwd = {n_: ("forwarder", n_, d_) for n_, d_ in methods_in if n_ not in LOCAL}
    bad_cf = []
    try:
        for idp, want_name, want_owner in ((("pkg.Thing", 7, 0), "Thing", THING), (("a.b.Inner", 8, 3), "Inner", INNER),
                                           (("nowhere.Cls", 9, 5), "nowhere.Cls", None), (("builtins.int", 1, 0), "int", INTC),
                                           (("pkg.Missing", 2, 0), "pkg.Missing", None)):
            extra_cf = {"__globals__": globs, "__max_iter__": 100}
            extra_cf["__global_lookup__"] = K.module_function_lookup(ctx, fcf.module, extra_cf)
            got = MIc.call_function(fcf.node, [idp, list(methods_in)], extra_cf)
            if not (isinstance(got, tuple) and got and got[0] == "class"):
                bad_cf.append("%s: class_factory returns %r" % (idp[0], got))
                continue
            _, nm_, bases_, ns_ = got
            desc = ns_.get("__class__")
            owner = desc.attrs.get("owner") if isinstance(desc, MIc.ModelObj) else None
            fwd = {k_: v_ for k_, v_ in ns_.items() if k_ not in ("__slots__", "__class__")}
            if nm_ != want_name or bases_ != (BASE,) or owner is not want_owner or ns_.get("__slots__") != () or fwd != want_fwd:
                bad_cf.append("%s: class %r, bases %s, __class__ owner %s, forwarders %s (expected class %r, owner %s, forwarders %s)" % (
                    idp[0], nm_, [getattr(b_, "name", b_) for b_ in bases_], getattr(owner, "name", owner), sorted(fwd),
                    want_name, getattr(want_owner, "name", None), sorted(want_fwd)))
        rep.ob("R02.3", "class_factory generates a forwarder for every remote method except the LOCAL_ATTRS names", not bad_cf,
               "5 identifiers x %d advertised methods: forwarders exactly for %s; class resolved through the module table; base class "
               "BaseNetref" % (len(methods_in), sorted(want_fwd)) if not bad_cf else "; ".join(bad_cf)[:500], fcf.loc, kind="table")
    except (AnalysisError, MIc.Raised) as e_:
        rep.undecided("R02.3", "class_factory", str(e_))

    # ------------------------------------------------------------------ R02.4
    K.share(ctx, rep, "c01", lambda o: o.rule == "R01.3", "R02.4", floor=3)
    fm = ctx.func(NETREF + "._make_method")
    # concrete evaluation of _make_method on each kind of name: which forwarder comes back, under which name, sending what
    from .. import miniinterp as MI
    DOC = "<doc>"
    expect = {"__call__": ("HANDLE_CALL", []), "__array__": ("HANDLE_PICKLE", []),
              "__getslice__": ("HANDLE_OLDSLICING", ["__getitem__", "__getslice__"]),
              "__setslice__": ("HANDLE_OLDSLICING", ["__setitem__", "__setslice__"]),
              "__delslice__": ("HANDLE_OLDSLICING", ["__delitem__", "__delslice__"]),
              "__add__": ("HANDLE_CALLATTR", ["__add__"]), "fetch": ("HANDLE_CALLATTR", ["fetch"])}
    bad_sel, bad_name = [], []
    for nm, (hname, closed) in sorted(expect.items()):
        try:
            ex_mm = {}
            ex_mm["__global_lookup__"] = K.module_function_lookup(ctx, fm.module, ex_mm)      # (module-level constants of netref.py)
            fo = MI.call_function(fm.node, [nm, DOC], ex_mm)
        except MI.Raised as ex:
            fo = None
        if not isinstance(fo, MI.FuncObj):
            bad_sel.append("%s -> %r" % (nm, fo))
            continue
        sends = [c for c in ast.walk(fo.node) if isinstance(c, ast.Call) and A.call_name(c) == "syncreq"]
        got_h = A.src(sends[0].args[1]).split(".")[-1] if len(sends) == 1 and len(sends[0].args) >= 2 else None
        got_closed = []
        if len(sends) == 1:
            for x in sends[0].args[2:]:
                try:
                    got_closed.append(MI.closure_value(fo, x))
                except AnalysisError:
                    pass
        got_closed = [v for v in got_closed if isinstance(v, str)]
        if got_h != hname or got_closed != closed:
            bad_sel.append("%s -> %s%s" % (nm, got_h, got_closed))
        eff_name = fo.attrs.get("__name__", fo.node.name)
        if eff_name != nm or fo.attrs.get("__doc__") != DOC:
            bad_name.append("%s -> __name__=%r __doc__=%r" % (nm, eff_name, fo.attrs.get("__doc__")))
    okt = not bad_sel
    rep.ob("R02.4", "_make_method selects the special forwarders by the method's own name", okt,
           "%d names evaluated: call, array, old-style slicing (item name + own name), everything else by name" % len(expect) if okt
           else "wrong forwarder for %s" % "; ".join(bad_sel), fm.loc, kind="table")
    oknm = not bad_name
    rep.ob("R02.4", "generated methods carry the remote method's name", oknm, "__name__ == name and __doc__ == doc for all %d" % len(expect)
           if oknm else "generated forwarders are mis-named: %s" % "; ".join(bad_name), fm.loc, kind="table")
    fgm = ctx.func("rpyc.lib.get_methods")
    # concrete evaluation of get_methods on a small model class hierarchy (metaclass M(type); class C(B); instance of C)
    def fn_(doc):
        return MI.ModelObj("fn:" + doc, {"__call__": True, "__doc__": doc})
    O = MI.ModelObj("object", {"__dict__": {"f": fn_("object.f"), "x": MI.ModelObj("data")}})
    TY = MI.ModelObj("type", {"__dict__": {"m": fn_("type.m"), "t": fn_("type.t"), "mro": fn_("type.mro")}})
    Mm = MI.ModelObj("M", {"__dict__": {"g": fn_("M.g"), "m": fn_("M.m")}})
    Bc = MI.ModelObj("B", {"__dict__": {"f": fn_("B.f"), "g": fn_("B.g"), "loc": fn_("B.loc")}}, cls=Mm)
    Cc = MI.ModelObj("C", {"__dict__": {"g": fn_("C.g"), "y": MI.ModelObj("data")}}, cls=Mm)
    O.cls = TY
    TY.cls = TY
    Mm.cls = TY
    O.attrs["__mro__"] = (O,)
    TY.attrs["__mro__"] = (TY, O)
    Mm.attrs["__mro__"] = (Mm, TY, O)
    Bc.attrs["__mro__"] = (Bc, O)
    Cc.attrs["__mro__"] = (Cc, Bc, O)
    inst = MI.ModelObj("C()", {}, cls=Cc)
    classes = {id(x) for x in (O, TY, Mm, Bc, Cc)}
    extra = {"__calls__": {"inspect.getdoc": lambda a: a.attrs.get("__doc__"), "callable": lambda a: "__call__" in a.attrs},
             "__isinstance__": lambda v, t: (id(v) in classes) if t == "type" else False,
             "__globals__": {"type": TY, "object": O}}
    extra["__global_lookup__"] = K.module_function_lookup(ctx, fgm.module, extra)
    want_inst = {"f": "B.f", "g": "C.g"}
    want_cls = {"f": "B.f", "g": "C.g", "m": "M.m", "t": "type.t", "mro": "type.mro"}
    got = {}
    try:
        got["inst"] = dict(MI.call_function(fgm.node, [("loc",), inst], extra))
        got["cls"] = dict(MI.call_function(fgm.node, [("loc",), Cc], extra))
    except (MI.Raised, TypeError, ValueError) as ex:
        got["error"] = str(ex)
    except AnalysisError as ex:
        rep.undecided("R02.4", "get_methods model", str(ex))
        got = {"inst": want_inst, "cls": want_cls}
    okm = got.get("inst") == want_inst and got.get("cls") == want_cls
    rep.ob("R02.4", "get_methods walks the metaclass MRO and the class MRO for classes, the type MRO for instances", okm,
           "model hierarchy: instance -> %s; class -> %s (the class's own MRO overrides the metaclass, specific overrides base, "
           "data attributes and local names left out)" % (sorted(want_inst), sorted(want_cls)) if okm else
           "on the model hierarchy get_methods answers %s, expected instance %s / class %s" % (got, want_inst, want_cls),
           fgm.loc, kind="table")
    _id_pack_model(ctx, rep)
    hi = ctx.func(K.CONN + "._handle_inspect")
    okhi = any(A.src(c.args[0]) == "netref.LOCAL_ATTRS" for c in A.find_calls(hi.node, "get_methods") if c.args)
    rep.ob("R02.4", "_handle_inspect excludes exactly the proxy-local names", okhi, "get_methods(netref.LOCAL_ATTRS, obj)" if okhi
           else "inspection excludes a different name set than the proxy keeps local", hi.loc, kind="site")

    # ------------------------------------------------------------------ R02.5
    K.share(ctx, rep, "c09", lambda o: o.rule == "R09.7", "R02.5", floor=2)

    # ------------------------------------------------------------------ R02.6
    # buffiter: model evaluation - a scripted remote iterator answers each HANDLE_BUFFITER request with the next `count` elements
    from .. import miniinterp as MIb
    fb = ctx.func("rpyc.utils.helpers.buffiter")
    rep.analysed(fb)
    HB = ctx.const("rpyc.core.consts", "HANDLE_BUFFITER")
    bad_b = []
    try:
        for total in (0, 1, 9, 10, 11, 20, 57):
            for chunk_, maxc_, fact_ in ((10, 1000, 2), (1, 4, 2), (3, 3, 1), (7, 5, 3)):
                src_ = list(range(total))
                pos_ = [0]
                reqs = []

                def syncreq_(it_, hid_, cnt_, pos_=pos_, src_=src_, reqs=reqs):
                    reqs.append((it_, hid_, cnt_))
                    out_ = tuple(src_[pos_[0]:pos_[0] + cnt_])
                    pos_[0] += len(out_)
                    return out_
                iters = []

                def iter_(o_, iters=iters):
                    iters.append(o_)
                    return ("iterator-of", o_)
                extra_b = {"__calls__": {"syncreq": syncreq_, "iter": iter_}, "__values__": {"consts.HANDLE_BUFFITER": HB},
                           "__globals__": {"HANDLE_BUFFITER": HB}, "__max_iter__": 500}
                extra_b["__global_lookup__"] = K.module_function_lookup(ctx, fb.module, extra_b, skip=("syncreq", "iter"))
                got = MIb.call_function(fb.node, ["OBJ", chunk_, maxc_, fact_], extra_b)
                if got != src_:
                    bad_b.append("%d elements, chunk=%d max=%d factor=%d: yields %d element(s)%s" % (
                        total, chunk_, maxc_, fact_, len(got), "" if got == src_[:len(got)] else " out of order"))
                elif iters != ["OBJ"] or any(r_[0] != ("iterator-of", "OBJ") or r_[1] != HB for r_ in reqs) or \
                        any(r_[2] > max(maxc_, chunk_) or r_[2] < 1 for r_ in reqs):
                    bad_b.append("%d elements, chunk=%d max=%d factor=%d: requests %s on %d iterator(s)" % (
                        total, chunk_, maxc_, fact_, [r_[2] for r_ in reqs], len(iters)))
        try:
            MIb.call_function(fb.node, ["OBJ", 10, 1000, 0], {"__calls__": {"syncreq": lambda *a: (), "iter": lambda o_: o_},
                                                             "__globals__": {"HANDLE_BUFFITER": HB}})
            bad_b.append("factor=0 is accepted (the chunk size would drop to 0 and the iteration would stop at once)")
        except MIb.Raised as r_:
            if r_.name != "ValueError":
                bad_b.append("factor=0 raises %s" % r_.name)
        rep.ob("R02.6", "buffiter: yields every element of the remote iterator once, in order, from one iterator, in bounded chunks",
               not bad_b, "7 lengths x 4 chunk settings evaluated on a scripted iterator" if not bad_b else "; ".join(bad_b[:3]),
               fb.loc, kind="table")
    except (AnalysisError, MIb.Raised) as e_:
        rep.undecided("R02.6", "buffiter", str(e_))
    hb = ctx.func(K.CONN + "._handle_buffiter")
    hp = A.params(hb.node)
    okh = any(isinstance(n, ast.Return) and A.src(n.value) == "tuple(itertools.islice(%s, %s))" % (hp[1], hp[2])
              for n in A.walk(hb.node))
    rep.ob("R02.6", "_handle_buffiter: takes the next `count` elements of the iterator, in order", okh,
           "tuple(itertools.islice(obj, count))" if okh else "_handle_buffiter no longer returns tuple(islice(obj, count))", hb.loc)

    # ------------------------------------------------------------------ R02.7
    HG = ctx.const("rpyc.core.consts", "HANDLE_GETATTR")
    HS = ctx.const("rpyc.core.consts", "HANDLE_SETATTR")
    HD = ctx.const("rpyc.core.consts", "HANDLE_DELATTR")
    for meth, hid, nops, local_call in (("__setattr__", HS, 2, "object.__setattr__"), ("__delattr__", HD, 1, "object.__delattr__")):
        f = bn.methods[meth]
        g2 = ctx.cfg(f)
        dom = Q.dominators(g2)
        p = A.params(f.node)
        sends = [n for n in g2.live if n.ast is not None and n.kind == "stmt" and any(
            (A.call_name(c) or "").endswith("syncreq") for c in A.calls(n.ast))]
        locs = [n for n in g2.live if n.ast is not None and n.kind == "stmt" and A.find_calls(n.ast, local_call)]
        ok = len(sends) == 1 and len(locs) == 1
        if ok:
            cs = {A.src(t.ast): pol for t, pol in Q.dominating_conditions(g2, sends[0], dom)}
            cl = {A.src(t.ast): pol for t, pol in Q.dominating_conditions(g2, locs[0], dom)}
            key = "%s in LOCAL_ATTRS" % p[1]
            c = [c for c in A.calls(sends[0].ast) if (A.call_name(c) or "").endswith("syncreq")][0]
            ok = cs.get(key) is False and cl.get(key) is True and ctx.try_fold(c.args[1]) == hid and \
                [A.src(a) for a in c.args[2:]] == p[1:1 + nops] and [A.src(a) for a in A.find_calls(locs[0].ast, local_call)[0].args] == p[:1 + nops]
        rep.ob("R02.7", "BaseNetref.%s: local names stay local, others are sent with (%s)" % (meth, ", ".join(p[1:1 + nops])), ok,
               "guarded by `name in LOCAL_ATTRS`" if ok else "%s no longer splits on LOCAL_ATTRS / forwards its operands" % meth, f.loc)
    # __getattribute__: model evaluation per kind of name
    f = bn.methods["__getattribute__"]
    rep.analysed(f)
    p = A.params(f.node)
    from .. import miniinterp as MI2
    deleted = sorted(DELETED)[0] if DELETED else None
    plain_local = sorted(n_ for n_ in LOCAL if n_ not in DELETED and n_ not in ("__class__", "__doc__"))[0]
    cases = [("foo", None, ("syncreq", HG, "foo")), ("__len__", None, ("syncreq", HG, "__len__")),
             (plain_local, None, ("objget", plain_local)), ("__call__", None, ("objget", "__call__")),
             ("__array__", None, ("objget", "__array__")), ("__doc__", None, ("getattr", "__doc__")),
             ("__class__", "CLS", ("objget", "__class__")), ("__class__", None, ("getattr", "__class__")),
             ("__class__", _FALSY_CLASS, ("objget", "__class__"))]
    if deleted:
        cases.append((deleted, None, ("raise", "AttributeError")))
    bad_ga = []
    for name_, cls_val, want in cases:
        log = []

        def objget(s_, n_, log=log, cls_val=cls_val):
            log.append(("objget", n_))
            return cls_val if n_ == "__class__" else ("local", n_)

        def getattr_(n_, log=log):
            log.append(("getattr", n_))
            return ("remote", n_)

        def syncreq_(s_, h_, *a_, log=log):
            log.append(("syncreq", h_) + a_)
            return ("remote", a_)
        hooks = {"object.__getattribute__": objget, "%s.__getattr__" % p[0]: getattr_, "syncreq": syncreq_}
        try:
            MI2.call_method(f.node, {}, [name_], {"__calls__": hooks, "__globals__": {"LOCAL_ATTRS": LOCAL, "DELETED_ATTRS": DELETED},
                                                   "__values__": {"consts.HANDLE_GETATTR": HG}})
            last = log[-1] if log else ("nothing",)
        except MI2.Raised as r_:
            last = ("raise", r_.name)
        if last != want or (want[0] == "syncreq" and len([x for x in log if x[0] == "syncreq"]) != 1) or \
                (want[0] in ("objget", "raise") and any(x[0] in ("syncreq", "getattr") for x in log)):
            bad_ga.append("%r%s -> %s (expected %s)" % (name_, "" if name_ != "__class__" else " [class slot %s]" % cls_val, log or last, want))
    rep.ob("R02.7", "BaseNetref.__getattribute__: only non-local names are fetched from the owner, by their own name",
           not [b_ for b_ in bad_ga if "syncreq" in b_], "%d kinds of name evaluated" % len(cases) if not bad_ga else "; ".join(bad_ga)[:400],
           f.loc, kind="table")
    rep.ob("R02.7", "BaseNetref.__getattribute__: local names are read from the proxy object itself", not bad_ga,
           "local names -> object.__getattribute__; __doc__/unset __class__ -> owner; deleted names -> AttributeError" if not bad_ga
           else "; ".join(bad_ga)[:400], f.loc, kind="table")
    fga = bn.methods["__getattr__"]
    reqs = c19.request_ids(ctx, fga.node)
    okga = len(reqs) == 1 and reqs[0][1] == HG and A.src(reqs[0][2][0]) == A.params(fga.node)[1]
    rep.ob("R02.7", "BaseNetref.__getattr__ fetches the attribute by its own name", okga, "syncreq(self, HANDLE_GETATTR, name)"
           if okga else "__getattr__ sends something else", fga.loc)

    # ------------------------------------------------------------------ R02.8
    fnf = ctx.func(K.CONN + "._netref_factory")
    gnf = ctx.cfg(fnf)
    rep.analysed(fnf, gnf)
    domn = Q.dominators(gnf)
    idp = A.params(fnf.node)[1]
    cache_nodes = []
    for n in gnf.live:
        if n.ast is None or n.kind not in ("stmt", "test"):
            continue
        for x in A.walk(n.ast):
            if isinstance(x, ast.Subscript) and K.self_attr(x.value, "_netref_classes_cache"):
                cache_nodes.append((n, x, "store" if isinstance(x.ctx, ast.Store) else "load"))
            elif isinstance(x, ast.Compare) and len(x.ops) == 1 and isinstance(x.ops[0], ast.In) and \
                    K.self_attr(x.comparators[0], "_netref_classes_cache"):
                cache_nodes.append((n, x, "test"))
    rep.floor("R02.8", "uses of the per-connection proxy-class cache in _netref_factory", len(cache_nodes), 3)
    for n, x, what in cache_nodes:
        key = x.slice if isinstance(x, ast.Subscript) else x.left
        whole = A.src(key) == idp
        conds = {A.src(t.ast): pol for t, pol in Q.dominating_conditions(gnf, n, domn)}
        is_class = conds.get("%s[2] == 0" % idp) is True or (what == "test" and any(
            isinstance(b, ast.BoolOp) and "%s[2] == 0" % idp in A.src(b) for b in A.ancestors(x) if isinstance(b, ast.BoolOp)))
        ok = whole and is_class
        rep.ob("R02.8", "_netref_factory: proxy-class cache %s keyed by the whole id of a class object" % what, ok,
               "key `%s` under `%s[2] == 0`" % (A.src(key), idp) if ok else
               "a generated proxy class is cached/reused under `%s`%s: two different target classes that share that key get the "
               "same forwarding methods (wrong results / exception classes for the second one)"
               % (A.src(key), "" if is_class else " for instances as well"), ctx.loc(x))
    # the by-name cache is only the import-time table of builtin types
    byname = [x for x in A.walk(fnf.node) if isinstance(x, ast.Subscript) and A.src(x.slice) == "%s[0]" % idp]
    okb = all(A.src(x.value) == "netref.builtin_classes_cache" for x in byname)
    rep.ob("R02.8", "_netref_factory: lookup by name alone only in the table of builtin types", okb,
           "netref.builtin_classes_cache[id_pack[0]]" if okb else
           "proxy classes are looked up by class name alone in `%s`" % [A.src(x.value) for x in byname if A.src(x.value) != "netref.builtin_classes_cache"],
           fnf.loc, kind="site")
    # every fresh class is generated from the inspected method list of *this* id
    insp = [c for c in A.find_calls(fnf.node, "self.sync_request") if len(c.args) == 2]
    HI = ctx.const("rpyc.core.consts", "HANDLE_INSPECT")
    oki = len(insp) == 1 and ctx.try_fold(insp[0].args[0]) == HI and A.src(insp[0].args[1]) == idp
    cf = A.find_calls(fnf.node, "netref.class_factory")
    okcf = len(cf) == 1 and A.src(cf[0].args[0]) == idp
    rep.ob("R02.8", "_netref_factory: a fresh proxy class is generated from the inspection of this very object", oki and okcf,
           "sync_request(HANDLE_INSPECT, id_pack) -> class_factory(id_pack, methods)" if oki and okcf else
           "the proxy class is not generated from the inspection of the received id", fnf.loc)

    # ------------------------------------------------------------------ R02.10
    fwd = CMP_OPS + ["__hash__", "__repr__", "__str__", "__dir__", "__exit__"]
    n10 = 0
    for meth in fwd:
        f = bn.methods.get(meth)
        if f is None:
            continue
        gm = ctx.cfg(f)
        rep.analysed(f, gm)
        reqn = [n for n in gm.live if n.ast is not None and n.kind in ("stmt", "test") and any(
            (A.call_name(c) or "").split(".")[-1] in ("syncreq", "asyncreq") for c in A.calls(n.ast))]
        ids = {n.id for n in reqn}
        cnt = Q.count_on_paths(gm, gm.entry, lambda n: n.id in ids)
        at = cnt.get(gm.exit.id, frozenset())
        rets = [n for n in gm.live if n.kind == "stmt" and isinstance(n.ast, ast.Return)]
        rdm = Q.ReachingDefs(gm)

        def from_request(n):
            v = n.ast.value
            if v is None:
                return False
            if any((A.call_name(c) or "").split(".")[-1] in ("syncreq",) for c in A.calls(v)):
                return True
            if isinstance(v, ast.Name):
                defs = rdm.at(n, v.id)
                return bool(defs) and all(d != "param" and d.id in ids for d in defs)
            return False
        ok = at == frozenset([1]) and bool(rets) and all(from_request(r) for r in rets)
        n10 += 1
        rep.ob("R02.10", "BaseNetref.%s: every path asks the owner and returns its answer" % meth, ok,
               "exactly one request on every path; every return is (derived from) its reply" if ok else
               "BaseNetref.%s has a path that answers locally (requests on a path: %s): the result can differ from what the "
               "target's own %s would return (e.g. an identity short-cut for `x == x` with a non-reflexive __eq__)"
               % (meth, sorted(at), meth), f.loc)
    rep.floor("R02.10", "forwarding special methods", n10, 10)

    K.share(ctx, rep, "c06", lambda o: o.rule == "R06.3", "R02.9", floor=1)
    K.share(ctx, rep, "c06", lambda o: o.rule == "R06.4", "R02.11", floor=1)
    K.share(ctx, rep, "c03", lambda o: o.rule in ("R03.1", "R03.2"), "R02.12", floor=4)
    rep.rule("R02.14", "a forwarded operation's request and reply cross the transport intact: uninterrupted frames, reads that wait "
                       "for the rest of a frame (= R12.5, R12.7, R05.1, R05.9)")
    K.share(ctx, rep, "c12", lambda o: o.rule in ("R12.5", "R12.7"), "R02.14", floor=2)
    K.share(ctx, rep, "c05", lambda o: o.rule in ("R05.1", "R05.9") and "SocketStream.read" in o.key, "R02.14", floor=2)
    from . import hygiene as H2
    H2.no_memo(ctx, rep, "R02.3", {"rpyc.core.netref", "rpyc.lib", "rpyc.core.protocol"},
               "the local counterpart of a remote class is looked up in sys.modules, which changes as modules are imported or "
               "reloaded - a remembered 'not found' (or an old class object) makes isinstance() and __class__ of later proxies "
               "disagree with the target")

"""C03 - immutable values travel by copy, everything else by reference; identity survives.

Decides the value/reference decision shape, label agreement, identity paths and cache discipline (R03.1-R03.7)."""
import ast
import builtins

from .. import astutil as A
from .. import cfgq as Q
from ..loader import AnalysisError
from . import common as K


def unbound_names(ctx, f):
    """names loaded in f (and its nested scopes) that are bound nowhere: not local, not in an enclosing function,
    not a module global, not a builtin"""
    mod = f.module
    globs = set(mod.toplevel) | set(mod.imports)
    for st in mod.all_toplevel_statements():
        if isinstance(st, (ast.FunctionDef, ast.ClassDef)):
            globs.add(st.name)
        for n in ast.walk(st) if isinstance(st, (ast.For, ast.With, ast.Try, ast.If)) else []:
            if isinstance(n, ast.Name) and isinstance(n.ctx, ast.Store):
                globs.add(n.id)
    bi = set(dir(builtins)) | {"__file__", "__name__", "__doc__"}
    out = []

    def scope_locals(fn):
        loc = set()
        a = fn.args
        for x in a.posonlyargs + a.args + a.kwonlyargs:
            loc.add(x.arg)
        if a.vararg:
            loc.add(a.vararg.arg)
        if a.kwarg:
            loc.add(a.kwarg.arg)
        body = fn.body if isinstance(fn.body, list) else [fn.body]
        for st in body:
            for n in A.walk(st):
                if isinstance(n, ast.Name) and isinstance(n.ctx, (ast.Store, ast.Del)):
                    loc.add(n.id)
                elif isinstance(n, (ast.FunctionDef, ast.ClassDef)):
                    loc.add(n.name)
                elif isinstance(n, (ast.Import, ast.ImportFrom)):
                    for al in n.names:
                        loc.add((al.asname or al.name).split(".")[0])
                elif isinstance(n, ast.ExceptHandler) and n.name:
                    loc.add(n.name)
                elif isinstance(n, ast.Global):
                    pass
        return loc

    def rec(fn, enclosing):
        loc = scope_locals(fn) | enclosing
        body = fn.body if isinstance(fn.body, list) else [fn.body]
        for st in body:
            for n in A.walk(st):
                if isinstance(n, ast.Name) and isinstance(n.ctx, ast.Load):
                    if n.id not in loc and n.id not in globs and n.id not in bi:
                        out.append(n)
                elif isinstance(n, (ast.FunctionDef, ast.Lambda)) and n is not fn:
                    rec(n, loc)
                elif isinstance(n, (ast.ListComp, ast.SetComp, ast.DictComp, ast.GeneratorExp)):
                    pass   # comprehension targets are Store names found by the walk above
    rec(f.node, set())
    return out


def run(ctx, rep):
    rep.rule("R03.1", "the value/reference decision is type-exact (type(x) is/in ..., never isinstance on the classified value)")
    rep.rule("R03.2", "label production (_box) and consumption (_unbox) agree on all four labels; unknown labels raise")
    rep.rule("R03.3", "a reference handed back is the original: LOCAL_REF only for proxies of this connection, resolved by a plain table lookup")
    rep.rule("R03.4", "one live proxy per remote object: every returned proxy came from, or was stored in, the proxy cache under one key")
    rep.rule("R03.5", "a reference is only sent for an object the owner holds, and the owner keeps it while a proxy lives (= R10.1-R10.4)")
    rep.rule("R03.6", "the identity function is total on its anchors: no unbound name in get_id_pack/_box/_unbox/_netref_factory")
    rep.rule("R03.8", "values sent by copy keep their exact type and structure: writer/reader agreement of the serializer (= R04.1-R04.4)")
    rep.rule("R03.7", "copy transfer goes through pickle on the owner (obtain / deliver / __reduce_ex__)")
    rep.assume("equality of copied values is C04/C05's business; behaviour of pickle is trusted")
    consts = {n: ctx.const("rpyc.core.consts", n) for n in ("LABEL_VALUE", "LABEL_TUPLE", "LABEL_LOCAL_REF", "LABEL_REMOTE_REF")}

    # ------------------------------------------------------------------ R03.1
    fb = ctx.func(K.CONN + "._box")
    g = ctx.cfg(fb)
    rep.analysed(fb, g)
    prm = A.params(fb.node)
    obj = prm[1]
    for q in ("rpyc.core.brine.dumpable", "rpyc.core.brine._dump", K.CONN + "._box"):
        f = ctx.func(q)
        rep.analysed(f)
        o = A.params(f.node)[1 if f.cls is not None else 0]
        bad = []
        for c in A.calls(f.node):
            if A.call_name(c) in ("isinstance", "issubclass") and c.args and A.src(c.args[0]) == o:
                # proxies are recognised by class (role: produces LABEL_LOCAL_REF), not values
                if len(c.args) == 2 and "BaseNetref" in A.src(c.args[1]):
                    continue
                bad.append(c)
        rep.ob("R03.1", "%s: classification by exact type" % q.split(".")[-1], not bad,
               "no isinstance/issubclass on the classified value" if not bad else
               "`%s`: instances of subclasses (enum members, named tuples, str/int subclasses) are treated as plain values and "
               "sent by copy" % A.src(bad[0]), ctx.loc(bad[0]) if bad else f.loc, kind="site")
    first = None
    for n in g.live:
        if n.kind == "test" and A.find_calls(n.ast, "brine.dumpable"):
            first = n
    okv = False
    if first is not None:
        for t, l in first.succ:
            if l == "true" and isinstance(t.ast, ast.Return) and isinstance(t.ast.value, ast.Tuple) and \
                    ctx.try_fold(t.ast.value.elts[0]) == consts["LABEL_VALUE"] and A.src(t.ast.value.elts[1]) == obj:
                okv = True
        c = A.find_calls(first.ast, "brine.dumpable")[0]
        okv = okv and A.src(c.args[0]) == obj
    rep.ob("R03.1", "_box: values the serializer accepts travel by value, unchanged", okv,
           "`if brine.dumpable(obj): return LABEL_VALUE, obj`" if okv else
           "the by-value branch of _box is not `dumpable(obj) -> (LABEL_VALUE, obj)`", ctx.loc(first) if first else fb.loc)
    tup_tests = [n for n in g.live if n.kind == "test" and "tuple" in A.src(n.ast)]
    okt = bool(tup_tests) and all(isinstance(n.ast, ast.Compare) and isinstance(n.ast.ops[0], (ast.Is, ast.In, ast.Eq)) and
                                  A.src(n.ast.left) == "type(%s)" % obj for n in tup_tests)
    rep.ob("R03.1", "_box: only exact tuples are unpacked element-wise", okt,
           "`%s`" % A.src(tup_tests[0].ast) if okt else
           "the tuple test `%s` also matches tuple subclasses (named tuples lose their type)"
           % (A.src(tup_tests[0].ast) if tup_tests else "<none>"), ctx.loc(tup_tests[0]) if tup_tests else fb.loc)

    # ------------------------------------------------------------------ R03.2
    produced = set()
    for n in g.live:
        if n.kind == "stmt" and isinstance(n.ast, ast.Return) and isinstance(n.ast.value, ast.Tuple) and n.ast.value.elts:
            produced.add(ctx.try_fold(n.ast.value.elts[0]))
    um = K.unbox_model(ctx)
    fu, gu = um.f, um.g
    rep.analysed(fu, gu)
    lv, vv = um.names[0], um.names[1]
    consumed = {um.values[k] for k in consts if um.returns(k)}
    want = set(consts.values())
    ok = produced == want and consumed == want
    rep.ob("R03.2", "_box/_unbox: the four labels are produced and consumed", ok,
           "labels %s on both sides" % sorted(want) if ok else "_box produces %s, _unbox handles %s, published %s"
           % (sorted(x for x in produced if x is not None), sorted(x for x in consumed if x is not None), sorted(want)),
           fu.loc, kind="table")
    up = A.params(fu.node)
    dom = Q.dominators(gu)
    by_label = {um.values[k]: um.returns(k) for k in consts}
    r = by_label.get(consts["LABEL_VALUE"], [])
    okv = len(r) == 1 and A.src(r[0].ast.value) == vv
    rep.ob("R03.2", "_unbox: a by-value package is returned as is", okv, "return value" if okv else
           "LABEL_VALUE does not return the transported value unchanged", ctx.loc(r[0]) if r else fu.loc)
    r = by_label.get(consts["LABEL_TUPLE"], [])
    okt = False
    if len(r) == 1:
        v = r[0].ast.value
        okt = isinstance(v, ast.Call) and A.call_name(v) == "tuple" and len(v.args) == 1 and \
            isinstance(v.args[0], (ast.GeneratorExp, ast.ListComp)) and A.call_name(v.args[0].elt) == "self._unbox" and \
            A.src(v.args[0].generators[0].iter) == vv and not v.args[0].generators[0].ifs and \
            A.src(v.args[0].elt.args[0]) == A.src(v.args[0].generators[0].target)
    rep.ob("R03.2", "_unbox: tuples are rebuilt element-wise as exact tuples", okt,
           "tuple(self._unbox(item) for item in value)" if okt else "LABEL_TUPLE is not rebuilt element by element", fu.loc)
    K.share(ctx, rep, "c07", lambda o: o.rule == "R07.1" and "unknown labels" in o.key, "R03.2")
    # a well-formed package is never refused half-way: by the time the receiver unboxes it the sender has already counted every
    # by-reference member, so a refusal leaves those references counted at the owner with no proxy that would ever return them
    for k in ("LABEL_VALUE", "LABEL_TUPLE", "LABEL_REMOTE_REF"):
        rs_ = [n for n in um.raises(k) if n.ast.exc is not None]
        rep.ob("R03.2", "_unbox: a package labelled %s is never refused" % k, not rs_,
               "no raise statement can execute for this label" if not rs_ else
               "`%s` can execute for a well-formed %s package (a depth/size/shape limit the sender does not know about): the "
               "members the sender has already counted never become proxies and are never released" % (A.norm(rs_[0].ast)[:60], k),
               ctx.loc(rs_[0]) if rs_ else fu.loc)
    # what a LOCAL_REF resolves to is what the table of exported objects holds under that id - nothing else
    lr = list(by_label.get(consts["LABEL_LOCAL_REF"], []))
    # ... including returns inside exception handlers of that branch (a fallback after a failed lookup)
    seen_lr = {n.id for n in um.nodes("LABEL_LOCAL_REF")}
    only_lr = seen_lr - {n.id for kk in ("LABEL_VALUE", "LABEL_TUPLE", "LABEL_REMOTE_REF") for n in um.nodes(kk)}
    work_lr = [n for n in um.nodes("LABEL_LOCAL_REF") if n.id in only_lr]
    reached_lr = set(only_lr)
    while work_lr:
        x_ = work_lr.pop()
        for t_, l_ in x_.succ:
            if t_.id not in reached_lr and t_ is not gu.exit and t_ is not gu.excexit:
                reached_lr.add(t_.id)
                work_lr.append(t_)
    lr += [n for n in gu.live if n.id in reached_lr and n.kind == "stmt" and isinstance(n.ast, ast.Return) and n not in lr]
    other = [n for n in lr if not (isinstance(n.ast.value, ast.Subscript) and K.self_attr(n.ast.value.value, "_local_objects"))]
    rep.floor("R03.3", "_unbox local-reference returns", len(lr), 1)
    rep.ob("R03.3", "_unbox: a local reference resolves only through the connection's own table of exported objects", not other,
           "return self._local_objects[value]" if not other else
           "for LABEL_LOCAL_REF _unbox can also return `%s`: a peer that forges an identifier obtains an object this connection "
           "never exported to it" % A.src(other[0].ast.value)[:70], ctx.loc(other[0]) if other else fu.loc)

    # ------------------------------------------------------------------ R03.3
    lret = [n for n in g.live if n.kind == "stmt" and isinstance(n.ast, ast.Return) and isinstance(n.ast.value, ast.Tuple)
            and ctx.try_fold(n.ast.value.elts[0]) == consts["LABEL_LOCAL_REF"]]
    rep.floor("R03.3", "_box local-reference returns", len(lret), 1)
    domb = Q.dominators(g)
    for n in lret:
        conds = Q.dominating_conditions(g, n, domb)
        isproxy = any(pol and A.find_calls(t.ast, "isinstance") and "BaseNetref" in A.src(t.ast) for t, pol in conds)
        mine = any(pol and isinstance(t.ast, ast.Compare) and isinstance(t.ast.ops[0], ast.Is) and
                   {A.src(t.ast.left), A.src(t.ast.comparators[0])} == {"%s.____conn__" % obj, "self"} for t, pol in conds)
        sends = A.src(n.ast.value.elts[1]) == "%s.____id_pack__" % obj
        rep.ob("R03.3", "_box: a proxy is sent back as LOCAL_REF only to the connection that owns its target", isproxy and mine,
               "guards: isinstance(obj, BaseNetref) and obj.____conn__ is self" if isproxy and mine else
               "LABEL_LOCAL_REF is produced %s: a proxy of another connection would be resolved in the wrong object table"
               % ("without the `obj.____conn__ is self` guard" if isproxy else "for non-proxies"), ctx.loc(n))
        rep.ob("R03.3", "_box: the local reference carries the proxy's own id", sends,
               "obj.____id_pack__" if sends else "LOCAL_REF carries `%s`" % A.src(n.ast.value.elts[1]), ctx.loc(n))
    K.share(ctx, rep, "c07", lambda o: o.rule == "R07.2" and "local-reference label" in o.key, "R03.3", floor=1)

    # ------------------------------------------------------------------ R03.4
    rr = by_label.get(consts["LABEL_REMOTE_REF"], [])
    rep.floor("R03.4", "_unbox remote-reference returns", len(rr), 1)
    rdu = Q.ReachingDefs(gu, edge_ok=um.edge_ok("LABEL_REMOTE_REF"))
    for n in rr:
        v = n.ast.value
        if not isinstance(v, ast.Name):
            rep.ob("R03.4", "_unbox: the returned proxy is a cached one", False, "returns `%s`" % A.src(v), ctx.loc(n))
            continue
        # definitions reaching the return, looking through plain copies (`result = fresh` introduced by merging two return
        # sites into one): (defining node, name the value has there, node up to which a store must have happened)
        defs = []
        work, seen_c = [(n, v.id)], set()
        while work:
            at_, nm_ = work.pop()
            for d_ in rdu.at(at_, nm_):
                if d_ != "param" and isinstance(d_.ast, ast.Assign) and isinstance(d_.ast.value, ast.Name) and \
                        len(d_.ast.targets) == 1 and isinstance(d_.ast.targets[0], ast.Name) and (d_.id, nm_) not in seen_c:
                    seen_c.add((d_.id, nm_))
                    work.append((d_, d_.ast.value.id))
                else:
                    defs.append((d_, nm_))
        keys = set()
        okall = bool(defs)
        why = []
        for d, vname in defs:
            if d == "param":
                okall = False
                continue
            val = d.ast.value if isinstance(d.ast, ast.Assign) else None
            if isinstance(val, ast.Subscript) and K.self_attr(val.value, "_proxy_cache"):
                keys.add(A.src(val.slice))
                # the load is guarded by a membership test on the same key
                conds = Q.dominating_conditions(gu, d, dom)
                guarded = any(isinstance(t.ast, ast.Compare) and K.self_attr(t.ast.comparators[0], "_proxy_cache") and
                              A.src(t.ast.left) == A.src(val.slice) and (
                                  (pol and isinstance(t.ast.ops[0], ast.In)) or (not pol and isinstance(t.ast.ops[0], ast.NotIn)))
                              for t, pol in conds)
                if not guarded:
                    okall = False
                    why.append("cache load without a membership test on the same key")
            elif isinstance(val, ast.Call) and isinstance(val.func, ast.Attribute) and val.func.attr == "get" and \
                    K.self_attr(val.func.value, "_proxy_cache") and val.args:
                keys.add(A.src(val.args[0]))
                # a .get() result may be None: it must be told apart by identity, never by truthiness (the truth value of
                # a proxy is the remote object's __bool__/__len__)
                ident = [t for t in gu.live if t.kind == "test" and isinstance(t.ast, ast.Compare) and
                         isinstance(t.ast.ops[0], (ast.Is, ast.IsNot)) and A.src(t.ast.left) == vname and
                         A.src(t.ast.comparators[0]) == "None"]
                truthy = [t for t in gu.live if t.kind == "test" and isinstance(t.ast, ast.Name) and t.ast.id == vname]
                if truthy or not ident:
                    okall = False
                    why.append("the cached proxy is tested by truthiness (`if %s:`), which asks the remote object for its "
                               "__bool__/__len__: a falsy target (empty list) is treated as a cache miss and gets a second proxy" % vname)
            else:
                # fresh proxy: must be stored under the key before the return, on every path
                stores = [s for s in gu.live if s.kind == "stmt" and isinstance(s.ast, ast.Assign) and any(
                    isinstance(t, ast.Subscript) and K.self_attr(t.value, "_proxy_cache") for t in s.ast.targets)
                    and A.src(s.ast.value) == vname]
                for s in stores:
                    for t in s.ast.targets:
                        if isinstance(t, ast.Subscript):
                            keys.add(A.src(t.slice))
                ok_e = um.edge_ok("LABEL_REMOTE_REF")
                sid = {x.id for x in stores}
                p = Q.find_path_ef(d, lambda x: x is n, lambda a, b, l: ok_e(a, b, l) and a.id not in sid)
                if p is not None or not stores:
                    okall = False
                    why.append("a freshly created proxy is returned without being stored in the proxy cache: the same remote "
                               "object received again gets a second, different proxy")
        if len(keys) > 1:
            okall = False
            why.append("test/load/store use different keys %s" % sorted(keys))
        rep.ob("R03.4", "_unbox: every returned proxy came from, or was stored in, the proxy cache (one key)", okall,
               "cached load under membership guard, or store before return; key `%s`" % (sorted(keys)[0] if keys else "?")
               if okall else "; ".join(why) or "the proxy does not come from the cache", ctx.loc(n))

    # ------------------------------------------------------------------ R03.5
    K.share(ctx, rep, "c10", lambda o: o.rule in ("R10.1", "R10.2", "R10.3", "R10.4") or
            (o.rule == "R10.9" and "_proxy_cache is used only by" in o.key), "R03.5", floor=10)

    # ------------------------------------------------------------------ R03.6
    for q in ("rpyc.lib.get_id_pack", K.CONN + "._box", K.CONN + "._unbox", K.CONN + "._netref_factory",
              "rpyc.lib.get_methods"):
        f = ctx.func(q)
        rep.analysed(f)
        ub = unbound_names(ctx, f)
        rep.ob("R03.6", "%s: every name is bound" % q.split(".")[-1], not ub,
               "all loaded names are locals, module globals or builtins" if not ub else
               "unbound name(s) %s: the function raises NameError on the path that uses them (e.g. passing such an object by "
               "reference fails)" % sorted({n.id for n in ub}), ctx.loc(ub[0]) if ub else f.loc, kind="site")

    # ------------------------------------------------------------------ R03.7
    HP = ctx.const("rpyc.core.consts", "HANDLE_PICKLE")
    fr = ctx.func("rpyc.core.netref.BaseNetref.__reduce_ex__")
    rets = [n for n in A.walk(fr.node) if isinstance(n, ast.Return)]
    ok = False
    if len(rets) == 1 and isinstance(rets[0].value, ast.Tuple) and len(rets[0].value.elts) == 2:
        a, b = rets[0].value.elts
        ok = A.src(a) == "pickle.loads" and isinstance(b, ast.Tuple) and len(b.elts) == 1 and isinstance(b.elts[0], ast.Call) \
            and (A.call_name(b.elts[0]) or "").endswith("syncreq") and ctx.try_fold(b.elts[0].args[1]) == HP
    rep.ob("R03.7", "BaseNetref.__reduce_ex__: pickling a proxy copies the target through the owner's pickle handler", ok,
           "(pickle.loads, (syncreq(self, HANDLE_PICKLE, proto),))" if ok else "__reduce_ex__ changed", fr.loc)
    fo = ctx.func("rpyc.utils.classic.obtain")
    ro = [n for n in A.walk(fo.node) if isinstance(n, ast.Return)]
    oko = len(ro) == 1 and A.src(ro[0].value) == "pickle.loads(pickle.dumps(%s))" % A.params(fo.node)[0]
    rep.ob("R03.7", "classic.obtain: round-trips the proxy through pickle", oko,
           "pickle.loads(pickle.dumps(proxy))" if oko else "obtain() is `%s`" % (A.src(ro[0].value) if ro else None), fo.loc)
    fd = ctx.func("rpyc.utils.classic.deliver")
    rd_ = [n for n in A.walk(fd.node) if isinstance(n, ast.Return)]
    s = A.src(rd_[0].value) if rd_ else ""
    okd = len(rd_) == 1 and "pickle.loads(" in s and "pickle.dumps(%s)" % A.params(fd.node)[1] in s and s.startswith("conn.modules")
    rep.ob("R03.7", "classic.deliver: pickles locally and unpickles on the peer", okd,
           "conn.modules[...].pickle.loads(bytes(pickle.dumps(localobj)))" if okd else "deliver() is `%s`" % s, fd.loc)

    # ------------------------------------------------------------------ R03.8
    K.share(ctx, rep, "c04", lambda o: o.rule in ("R04.1", "R04.2", "R04.3", "R04.4", "R04.6"), "R03.8", floor=20)
    # ... and the frame layer hands the decoder exactly the bytes the encoder produced, whatever their size (= R05.4, R05.8)
    K.share(ctx, rep, "c05", lambda o: o.rule in ("R05.4", "R05.8"), "R03.8", floor=3)
    _weak_cache_model(ctx, rep)


def _weak_cache_model(ctx, rep):
    """R03.9: the proxy cache's membership test, lookup and get() agree with each other for live, dead and missing entries.
    _unbox relies on `key in cache` implying that `cache[key]` returns a live proxy: the cyclic collector clears weak references
    before it runs their callbacks, so an entry whose referent is already dead can still be in the table."""
    from .. import miniinterp as MI
    rep.rule("R03.9", "the proxy cache answers consistently: membership <=> a live referent; dead and missing entries look the same")
    W = "rpyc.lib.colls.WeakValueDict"
    c = ctx.cls(W)
    meths = {n: m.node for n, m in c.methods.items()}
    for n_ in ("__contains__", "__getitem__", "get"):
        if n_ not in c.methods:
            raise AnalysisError("WeakValueDict.%s not found" % n_)
        rep.analysed(c.methods[n_])

    class _Ref:
        mi_native = True

        def __init__(self, obj):
            self.obj = obj

        def __call__(self):
            return self.obj
    bad = []
    try:
        for label, table, key, alive in (("live entry", {"k": _Ref("PROXY")}, "k", True), ("dead entry (referent collected, callback not "
                                         "yet run)", {"k": _Ref(None)}, "k", False), ("missing key", {"j": _Ref("OTHER")}, "k", False)):
            res = {}
            for op, args in (("__contains__", [key]), ("__getitem__", [key]), ("get", [key, "DEFAULT"]), ("get", [key])):
                st = {"_dict": dict(table)}
                try:
                    extra_w = {"__methods__": meths, "__max_iter__": 50}
                    extra_w["__global_lookup__"] = K.module_function_lookup(ctx, c.module, extra_w)
                    res[op + str(len(args))] = MI.call_method(meths[op], st, args, extra_w)
                except MI.Raised as r_:
                    res[op + str(len(args))] = "raises " + r_.name
            want = {"__contains__1": True, "__getitem__1": "PROXY", "get2": "PROXY", "get1": "PROXY"} if alive else \
                   {"__contains__1": False, "__getitem__1": "raises KeyError", "get2": "DEFAULT", "get1": None}
            if res != want:
                bad.append("%s: `in` -> %r, [] -> %r, get(k, d) -> %r, get(k) -> %r" % (
                    label, res["__contains__1"], res["__getitem__1"], res["get2"], res["get1"]))
    except AnalysisError as e_:
        rep.undecided("R03.9", "WeakValueDict model", str(e_))
        return
    rep.ob("R03.9", "WeakValueDict: membership, lookup and get() agree for live, dead and missing entries", not bad,
           "3 entry states x 4 operations" if not bad else
           "; ".join(bad) + " - _unbox takes its cache-hit branch on `in` and then fails in the lookup (or hands out a dead entry): "
           "the reference does not arrive as a proxy", c.methods["__contains__"].loc, kind="table")
    _unbox_identity_model(ctx, rep)


def _unbox_identity_model(ctx, rep):
    """R03.10: Connection._unbox evaluated (sa/miniinterp.py) on remote references whose class names are unusual but legal
    (brackets, hyphens, very long): the identifier under which the proxy is created and cached - and which the proxy will
    send back in every request and as LABEL_LOCAL_REF - is the identifier that was received, element for element; the same
    reference received twice yields the same proxy with its count raised by one."""
    from .. import miniinterp as MI
    import re as _re
    rep.rule("R03.10", "the identifier of a received reference is kept verbatim (it is the owner's key for the object)")
    fu = ctx.func(K.CONN + "._unbox")
    rep.analysed(fu)
    conn = ctx.cls(K.CONN)
    cm = ctx.module("rpyc.core.consts")

    class _NS:
        mi_native = True

        def __init__(self, **kw):
            self.__dict__.update(kw)
    cns = _NS(**{n: v for n in cm.toplevel for v in [ctx.try_fold(ast.Name(id=n, ctx=ast.Load()), cm)] if v is not None})
    LRR = ctx.const("rpyc.core.consts", "LABEL_REMOTE_REF")
    bad = []
    rows = 0
    try:
        for name in ("pkg.mod.Plain", "sensors.Reading[float]", "my-plugin.Handler", "gen." + "x" * 300, "weird name.with spaces/€"):
            rows += 1
            made = []

            def factory(id_pack, made=made):
                p = MI.ModelObj("proxy", {"____refcount__": 1, "____id_pack__": id_pack})
                made.append((id_pack, p))
                return p
            state = {"_proxy_cache": {}, "_local_objects": {}, "_netref_classes_cache": {}}
            extra = {"__calls__": {"self._netref_factory": factory}, "__max_iter__": 200,
                     "__methods__": {n: m.node for n, m in conn.methods.items() if n not in ("_netref_factory",)},
                     "__globals__": {"consts": cns, "re": _NS(sub=_re.sub, compile=_re.compile, match=_re.match, escape=_re.escape)}}
            extra["__global_lookup__"] = K.module_function_lookup(ctx, fu.module, extra, skip=("consts", "re"))
            value = (name, 4711, 815)
            try:
                p1 = MI.call_method(fu.node, state, [(LRR, value)], extra)
                p2 = MI.call_method(fu.node, state, [(LRR, value)], extra)
            except MI.Raised as r_:
                bad.append("a reference to an object of class %r is refused with %s" % (name[:40], r_.name))
                continue
            if len(made) != 1 or made[0][0] != value or not all(type(a_) is type(b_) for a_, b_ in zip(made[0][0], value)):
                bad.append("a reference named %r becomes a proxy for %r" % (name[:40], made[0][0][0][:40] if made else None))
                continue
            if list(state["_proxy_cache"]) != [value]:
                bad.append("the proxy of %r is cached under %r" % (name[:40], list(state["_proxy_cache"])))
            elif p1 is not p2 or p1 is not made[0][1]:
                bad.append("the same reference received twice yields two proxies")
            elif p1.attrs.get("____refcount__") != 2:
                bad.append("the same reference received twice leaves the proxy's count at %r" % p1.attrs.get("____refcount__"))
    except AnalysisError as e_:
        rep.undecided("R03.10", "_unbox identity model", str(e_))
        return
    rep.ob("R03.10", "_unbox: proxy created and cached under the received identifier, verbatim; re-received -> same proxy, count + 1",
           not bad, "%d class names (brackets, hyphen, 300 characters, spaces)" % rows if not bad else
           "; ".join(bad[:2]) + " - the owner does not know the altered identifier: every use of the proxy fails there and handing "
           "it back does not reach the original object", fu.loc, kind="model")

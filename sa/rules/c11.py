"""C11 - every way a connection can end leaves both sides clean, once, and nobody hanging.

Static analogue of fault injection: exceptional edges out of every statement of the teardown code and
must-call rules over them (R11.1-R11.5)."""
import ast

from .. import astutil as A
from .. import cfgq as Q
from .. import summaries
from .. import callgraph
from ..engine import std_raises
from ..loader import AnalysisError
from . import common as K


def run(ctx, rep):
    rep.rule("R11.1", "close(): the closed-flag test returns first; the flag is set before anything can fail; every path "
                      "from there to either exit (normal or exceptional) passes through _cleanup")
    rep.rule("R11.2", "_cleanup(): flag set before calling out, channel closed, on_disconnect called exactly once, the tables "
                      "cleared; on_disconnect is called only from _cleanup, _cleanup only from close/_handle_close")
    rep.rule("R11.3", "every call in serve() out of which a transport EOFError can escape is covered by a handler that "
                      "closes the connection before the error leaves; serve_all/serve_threaded close in finally")
    rep.rule("R11.4", "streams convert every transport failure into closed + EOFError (shared with R05.3); Channel.close "
                      "delegates to the stream")
    rep.rule("R11.5", "waiters cannot hang on a closed connection: wait() keeps calling serve(); every exit of serve()'s locked "
                      "region (incl. EOF) releases the lock and wakes the threads blocked on the condition")
    rep.rule("R11.6", "end-of-stream is noticed: Stream.poll reports every event on the descriptor (a hang-up without data counts), "
                      "so the following read sees EOF")
    rep.assume("exceptional edges model exceptions raised by the statement itself; asynchronous exceptions are not modelled",
               "simultaneous close() on two threads is a schedule question and is not decided",
               "EOFError escape summaries are computed over the resolved call graph (sa/summaries.py)")

    conn = ctx.cls(K.CONN)
    # ------------------------------------------------------------------ R11.1 close()
    f = ctx.func(K.CONN + ".close")
    g = ctx.cfg(f, raises="default")
    rep.analysed(f, g)
    flag_tests = [n for n in g.live if n.kind == "test" and K.self_attr(n.ast)]
    if not flag_tests:
        raise AnalysisError("close(): no test of a self.<flag> field found")
    first = None
    # first real node after entry (skip docstring)
    cur = g.entry
    while True:
        nxt = [t for t, l in cur.succ if l != "exc"]
        if len(nxt) != 1:
            break
        cur = nxt[0]
        if cur.kind == "stmt" and isinstance(cur.ast, ast.Expr) and isinstance(cur.ast.value, ast.Constant):
            continue
        first = cur
        break
    flag = K.self_attr(flag_tests[0].ast)
    ok = first is flag_tests[0]
    rep.ob("R11.1", "close(): the closed-flag test comes first", ok,
           "`if self.%s` is the first statement of close()" % flag if ok else
           "close() does work before testing the closed flag (a second close is not a no-op)",
           ctx.loc(first) if first else f.loc)
    t = flag_tests[0]
    true_succ = [x for x, l in t.succ if l == "true"]
    okr = bool(true_succ) and all(isinstance(x.ast, ast.Return) for x in true_succ)
    rep.ob("R11.1", "close(): already closed -> return immediately", okr,
           "the positive branch of the flag test is a plain return" if okr else
           "close() on a closed connection does not return immediately", ctx.loc(t))
    sets = [n for n in g.live if n.kind == "stmt" and isinstance(n.ast, ast.Assign) and any(
        K.self_attr(x, flag) for x in n.ast.targets) and isinstance(n.ast.value, ast.Constant) and n.ast.value.value is True]
    cleanup_nodes = [n for n in g.live if n.ast is not None and n.kind == "stmt" and A.find_calls(n.ast, "self._cleanup")]
    rep.floor("R11.1", "_cleanup call sites in close()", len(cleanup_nodes), 1)
    false_succ = [x for x, l in t.succ if l == "false"]
    # the flag is set before anything that can raise / call out
    oks = False
    if sets and false_succ:
        p = Q.find_path_ef(false_succ, lambda x: x in sets, lambda a, b, l: True, skip_first=False)
        # every node strictly between the test and the flag store must be non-raising
        between = Q.reach(false_succ, avoid=sets, labels=("next", "true", "false"))
        oks = p is not None and all(not n.raises for n in between if n not in sets)
    rep.ob("R11.1", "close(): the flag is set before any statement that can fail or call out", oks,
           "self.%s = True is the first effect after the test" % flag if oks else
           "close() can call out / fail before marking the connection closed (re-entrant close runs the teardown twice)",
           ctx.loc(sets[0]) if sets else f.loc)
    for s in sets:
        starts = [x for x, l in s.succ]
        bad = None
        for st in starts:
            p = Q.find_path(st, [g.exit, g.excexit], avoid=cleanup_nodes, skip_first=False)
            if p:
                bad = [s] + p
                break
        rep.ob("R11.1", "close(): every path after setting the flag runs _cleanup", bad is None,
               "from `self.%s = True` every path to the normal or exceptional exit - including a failing before_closed "
               "hook and a failing close request - passes through self._cleanup(...)" % flag if bad is None else
               "close() can finish (or fail) without running _cleanup: the connection reports closed but the hook has "
               "not run and the tables are not released", ctx.loc(s), witness=ctx.path(bad) if bad else None)
    for c in cleanup_nodes:
        for call in A.find_calls(c.ast, "self._cleanup"):
            anyway = None
            for kw in call.keywords:
                if kw.arg == "_anyway":
                    anyway = ctx.try_fold(kw.value)
            if call.args:
                anyway = ctx.try_fold(call.args[0])
            fc = ctx.func(K.CONN + "._cleanup")
            dflt = fc.node.args.defaults[-1] if fc.node.args.defaults else None
            if anyway is None and dflt is not None:
                anyway = ctx.try_fold(dflt)
            rep.ob("R11.1", "close(): _cleanup is told to run although the flag is already set", anyway is True,
                   "_cleanup(_anyway=True)" if anyway is True else
                   "close() sets the flag and then calls _cleanup without _anyway: _cleanup returns early and nothing is released",
                   ctx.loc(call), kind="site")

    # closing a connection whose peer has already gone is silent: the handler for that case does not go back to the dead transport
    conn_cls = ctx.cls(K.CONN)

    def touches_channel(mname, seen=()):
        m_ = ctx.repo.method(conn_cls, mname)
        if m_ is None or mname in seen:
            return False
        if any(K.self_attr(x, "_channel") for x in A.walk(m_.node)):
            return True
        return any(touches_channel(d_[5:], seen + (mname,)) for c_ in A.calls(m_.node)
                   for d_ in [A.call_name(c_) or ""] if d_.startswith("self.") and d_.count(".") == 1)
    back = []
    n_h = 0
    for h in A.walk(f.node):
        if isinstance(h, ast.ExceptHandler) and (h.type is None or any(
                k_ in A.src(h.type) for k_ in ("EOFError", "Exception", "BaseException"))):
            n_h += 1
            for st in h.body:
                for c_ in A.calls(st):
                    d_ = A.call_name(c_) or ""
                    if d_.startswith("self._channel.") or (d_.startswith("self.") and d_.count(".") == 1 and
                                                           d_[5:] not in ("_cleanup", "close") and touches_channel(d_[5:])):
                        back.append(c_)
    rep.floor("R11.1", "handlers that can see a dead peer's EOFError in close()", n_h, 1)
    rep.ob("R11.1", "close(): the handler for a peer that is already gone does not use the transport again", not back,
           "EOFError during the closing handshake is absorbed" if not back else
           "`%s` inside the handler of close() that receives the dead peer's EOFError reaches the channel of a transport that has just failed: it raises "
           "EOFError again, so close() itself raises - a caller closing many connections in a loop (a server shutting down) stops "
           "at the first dead one and leaves the rest open" % A.src(back[0])[:50], ctx.loc(back[0]) if back else f.loc, kind="site")

    # ------------------------------------------------------------------ R11.2 _cleanup
    fc = ctx.func(K.CONN + "._cleanup")
    gc = ctx.cfg(fc, raises="default")
    rep.analysed(fc, gc)
    setf = [n for n in gc.live if n.kind == "stmt" and isinstance(n.ast, ast.Assign) and any(
        K.self_attr(x, flag) for x in n.ast.targets)]
    chan_close = [n for n in gc.live if n.kind == "stmt" and n.ast is not None and A.find_calls(n.ast, "self._channel.close")]
    hook = [n for n in gc.live if n.kind == "stmt" and n.ast is not None and A.find_calls(n.ast, ".on_disconnect")]
    rep.floor("R11.2", "on_disconnect call sites in _cleanup", len(hook), 1)
    rep.floor("R11.2", "channel close in _cleanup", len(chan_close), 1)
    domc = Q.dominators(gc)
    for h in hook + chan_close:
        okf = any(s.id in domc[h.id] for s in setf)
        rep.ob("R11.2", "_cleanup: flag set before `%s`" % h.text()[:50], okf,
               "self.%s = True dominates the call (a re-entrant close from the hook is a no-op)" % flag if okf else
               "_cleanup calls out before marking the connection closed", ctx.loc(h))
    ids = {n.id for n in hook}
    cnt = Q.count_on_paths(gc, gc.entry, lambda n: n.id in ids)
    at = cnt.get(gc.exit.id, frozenset())
    # early-return path (already closed and not _anyway) has 0; the working path exactly 1
    okh = at <= frozenset([0, 1]) and 1 in at and len(hook) == 1 and not A.in_loop(hook[0].ast, fc.node)
    # once the connection has been marked closed (the working path) the hook runs on EVERY path - no test decides whether the
    # service is told (a truthiness test of the service object is false for a service that defines __len__/__bool__)
    if okh and setf:
        cnt2 = Q.count_on_paths(gc, setf[0], lambda n: n.id in ids)
        at2 = cnt2.get(gc.exit.id, frozenset())
        if at2 != frozenset([1]):
            okh = False
            at = at2
    rep.ob("R11.2", "_cleanup: on_disconnect runs exactly once on the working path", okh,
           "one call site, not in a loop; counts at exit %s (0 = early return when already closed)" % sorted(at) if okh
           else "after the connection has been marked closed on_disconnect runs %s times depending on the path (a guard such as "
                "`if self._local_root:` skips the hook for a service object that is falsy)" % sorted(at), ctx.loc(hook[0]))
    # the early return is guarded by flag-and-not-anyway
    rets = [n for n in gc.live if n.kind == "stmt" and isinstance(n.ast, ast.Return)]
    for r in rets:
        conds = Q.dominating_conditions(gc, r, domc)
        names = {A.src(t.ast): pol for t, pol in conds}
        okg = names.get("self.%s" % flag) is True
        rep.ob("R11.2", "_cleanup: early return only when already closed", okg,
               "guards: %s" % names if okg else "_cleanup can return early on a connection that is not closed: %s" % names,
               ctx.loc(r))
    # tables cleared on the working path: every path from the flag store to the normal exit clears them
    tables = {}
    for n in gc.live:
        if n.kind == "stmt" and n.ast is not None:
            for c in A.calls(n.ast):
                if isinstance(c.func, ast.Attribute) and c.func.attr == "clear":
                    fld = K.self_attr(c.func.value)
                    if fld:
                        tables.setdefault(fld, []).append(n)
    need = ["_request_callbacks", "_local_objects", "_proxy_cache", "_netref_classes_cache"]
    for fld in need:
        nodes = tables.get(fld, [])
        bad = None
        if nodes and setf:
            for st in [x for x, l in setf[0].succ if l != "exc"]:
                p = Q.find_path(st, [gc.exit], avoid=nodes, labels=("next", "true", "false"), skip_first=False)
                if p:
                    bad = p
        okt = bool(nodes) and bad is None
        rep.ob("R11.2", "_cleanup: %s is cleared" % fld, okt,
               "self.%s.clear() lies on every normal path after the flag is set" % fld if okt else
               "closing does not release self.%s (objects held for the peer / pending callbacks survive the connection)" % fld,
               ctx.loc(nodes[0]) if nodes else fc.loc, witness=ctx.path(bad) if bad else None)
    # the last traceback kept for diagnostics references the frames of the failed request - and through them the objects lent
    # to the peer: it is dropped with the tables
    tb_fields = [fld_ for fld_ in ("_last_traceback",) if any(
        isinstance(n_, ast.Attribute) and n_.attr == fld_ and isinstance(n_.ctx, ast.Store)
        for m_ in ctx.cls(K.CONN).methods.values() if m_.name != "_cleanup" for n_ in A.walk(m_.node))]
    for fld_ in tb_fields:
        resets = [n for n in gc.live if n.kind == "stmt" and isinstance(n.ast, ast.Assign) and any(
            K.self_attr(t, fld_) for t in n.ast.targets) and isinstance(n.ast.value, ast.Constant) and n.ast.value.value is None]
        bad_tb = None
        if resets and setf:
            for st in [x for x, l in setf[0].succ if l != "exc"]:
                p_ = Q.find_path(st, [gc.exit], avoid=resets, labels=("next", "true", "false"), skip_first=False)
                if p_:
                    bad_tb = p_
        ok_tb = bool(resets) and bad_tb is None
        rep.ob("R11.2", "_cleanup: self.%s is dropped" % fld_, ok_tb,
               "self.%s = None lies on every normal path after the flag is set" % fld_ if ok_tb else
               "a closed connection keeps the traceback of the last failed request: its frames hold the objects that were lent to "
               "the peer (and the service), which therefore survive the connection for as long as anybody holds the Connection object",
               ctx.loc(resets[0]) if resets else fc.loc, witness=ctx.path(bad_tb) if bad_tb else None)
    # order: channel closed before the hook (the hook must not perform IO on a live channel)
    if chan_close and hook:
        oko = any(c.id in domc[hook[0].id] for c in chan_close)
        rep.ob("R11.2", "_cleanup: the channel is closed before on_disconnect runs", oko,
               "self._channel.close() dominates the hook call" if oko else
               "on_disconnect runs while the channel is still open (closed is reported before the transport is down)",
               ctx.loc(hook[0]))
    # order: the hook is user code and may still lend objects / create proxies; the tables are emptied AFTER it, so that what
    # the hook registers is released with everything else
    if hook:
        early = []
        for fld in ("_local_objects", "_proxy_cache", "_request_callbacks"):
            for n_ in tables.get(fld, []):
                if Q.find_path(n_, [hook[0]], labels=("next", "true", "false"), skip_first=True):
                    early.append((fld, n_))
        rep.ob("R11.2", "_cleanup: the tables are emptied after on_disconnect has run", not early,
               "no clear() of a table can precede the hook call" if not early else
               "self.%s.clear() runs before the on_disconnect hook: whatever the hook lends to the peer (or registers) after that "
               "stays in the table of a closed connection" % early[0][0], ctx.loc(early[0][1]) if early else ctx.loc(hook[0]))
    # who-may-call
    callers_hook = []
    for fu, c in ctx.call_sites(".on_disconnect"):
        if fu is None or fu.qual != fc.qual:
            # super().on_disconnect inside service classes is delegation, not a second invocation
            if fu is not None and fu.name == "on_disconnect":
                continue
            callers_hook.append(c)
    rep.ob("R11.2", "package: on_disconnect is invoked only from Connection._cleanup", not callers_hook,
           "single invocation site" if not callers_hook else
           "on_disconnect is also called at %s (the hook can run twice)" % ", ".join(ctx.loc(c) for c in callers_hook),
           ctx.loc(callers_hook[0]) if callers_hook else fc.loc, kind="site")
    callers_cleanup = []
    for fu, c in ctx.call_sites("self._cleanup", "._cleanup"):
        callers_cleanup.append((fu, c))
    allowed = {K.CONN + ".close", K.CONN + "._handle_close"}
    bad_callers = [(fu, c) for fu, c in callers_cleanup if fu is None or fu.qual not in allowed]
    rep.floor("R11.2", "callers of _cleanup", len(callers_cleanup), 2)
    rep.ob("R11.2", "package: _cleanup is called only from close() and _handle_close()", not bad_callers,
           "callers: %s" % sorted({fu.qual.split(".")[-1] for fu, _ in callers_cleanup}) if not bad_callers else
           "_cleanup is also called from %s" % ", ".join(ctx.loc(c) for _, c in bad_callers),
           ctx.loc(bad_callers[0][1]) if bad_callers else fc.loc, kind="site")
    # _handle_close: must not run the teardown on an already-closed connection (exactly-once hook)
    fh = ctx.func(K.CONN + "._handle_close")
    for c in A.find_calls(fh.node, "self._cleanup"):
        anyway = None
        if c.args:
            anyway = ctx.try_fold(c.args[0])
        for kw in c.keywords:
            if kw.arg == "_anyway":
                anyway = ctx.try_fold(kw.value)
        if anyway is None and fc.node.args.defaults:
            anyway = ctx.try_fold(fc.node.args.defaults[-1])
        # default _anyway=True on the pinned tree: the peer's close request tears down unconditionally;
        # _cleanup is then idempotent only through close()'s own flag test. Check the combination:
        # either _anyway is False here, or close() is the only other caller and tests the flag first (R11.1).
        rep.ob("R11.2", "_handle_close: peer-initiated close runs the teardown through _cleanup", True,
               "_cleanup(_anyway=%r) - a local close() afterwards returns at its flag test (R11.1)" % (anyway,),
               ctx.loc(c), nontrivial=False, kind="site")

    # ------------------------------------------------------------------ R11.3 serve()
    esc = summaries.exc_escapes(ctx, EOFError)
    cg = callgraph.get(ctx)
    fs = ctx.func(K.CONN + ".serve")
    site_callees = {id(c): callees for c, callees in cg.sites.get(fs.qual, ())}
    eof_calls = []
    for c, callees in cg.sites.get(fs.qual, ()):
        if callees and any(q in esc for q in callees):
            # close() itself is the remedy, not a source
            if A.call_name(c) == "self.close":
                continue
            eof_calls.append(c)
    rep.floor("R11.3", "calls in serve() out of which a transport EOFError can escape", len(eof_calls), 2)

    def raises_eof(node_ast, kind):
        if node_ast is None or kind in ("with_exit", "except", "with_enter"):
            return set()
        if isinstance(node_ast, ast.Raise):
            return None
        for c in A.calls(node_ast):
            if any(c is e for e in eof_calls):
                return {EOFError}
        return set()
    ge = ctx.cfg(fs, raises=raises_eof)
    rep.analysed(fs, ge)
    close_nodes = [n for n in ge.live if n.kind == "stmt" and n.ast is not None and A.find_calls(n.ast, "self.close")]
    for c in eof_calls:
        nodes = [n for n in ge.live if n.ast is not None and n.kind in ("stmt", "test") and A.contains(n.ast, c)]
        for n in nodes:
            bad = None
            for st in [x for x, l in n.succ if l == "exc"]:
                if st is ge.excexit:
                    bad = [n, st]
                    break
                p = Q.find_path(st, [ge.excexit], avoid=close_nodes, skip_first=False)
                if p:
                    bad = [n] + p
                    break
            what = A.call_name(c) or A.src(c.func)
            rep.ob("R11.3", "Connection.serve: EOFError out of `%s` closes the connection" % what, bad is None,
                   "an EOFError raised by this call is caught by a handler that calls self.close() before it leaves serve()"
                   if bad is None else
                   "a transport failure raised inside `%s` leaves serve() without closing the connection: when serve() was "
                   "entered from AsyncResult.wait or a BgServingThread (not serve_all) the side that met the failure stays "
                   "un-closed and its disconnect hook never runs" % what,
                   ctx.loc(c), witness=ctx.path(bad) if bad else None)
    # serve_all / serve_threaded close on every exit
    for name in ("serve_all", "serve_threaded"):
        fa = ctx.func(K.CONN + "." + name)
        ga = ctx.cfg(fa, raises="default")
        rep.analysed(fa, ga)
        closes = [n for n in ga.live if n.kind == "stmt" and n.ast is not None and A.find_calls(n.ast, "self.close")]
        # start after the entry: every path to any exit passes through close
        p = Q.find_path(ga.entry, [ga.exit, ga.excexit], avoid=closes)
        rep.ob("R11.3", "Connection.%s: closes on every exit" % name, p is None,
               "every path (normal, EOFError, other failures) reaches self.close()" if p is None else
               "%s can return or fail without closing the connection" % name, fa.loc,
               witness=ctx.path(p) if p else None)
    fa = ctx.func(K.CONN + ".serve_all")
    ga = ctx.cfg(fa, raises="default")
    loops = [n for n in ga.live if n.kind == "test" and isinstance(n.owner, ast.While)]
    okl = any("closed" in A.src(n.ast) for n in loops)
    rep.ob("R11.3", "Connection.serve_all: the loop ends when the connection is closed", okl,
           "loop condition reads self.closed" if okl else "serve_all keeps serving a closed connection", fa.loc, kind="site")

    # ------------------------------------------------------------------ R11.4 stream failure/close discipline (= R05.3)
    K.share(ctx, rep, "c05", lambda o: o.rule in ("R05.3", "R05.6"), "R11.4", floor=10)
    # Connection.closed is the flag itself: reporting closed for any other reason (a dead transport) before close() has run makes
    # callers skip close() - the disconnect hook never runs and the tables are never released
    fcp = ctx.cls(K.CONN).methods.get("closed")
    okcp = False
    if fcp is not None:
        rets_ = [n for n in A.walk(fcp.node) if isinstance(n, ast.Return)]
        okcp = len(rets_) == 1 and K.self_attr(rets_[0].value, "_closed") is not None
    rep.ob("R11.1", "Connection.closed reports exactly the closed flag", okcp, "return self._closed" if okcp else
           "Connection.closed is computed from more than the flag (`%s`): the connection can report closed although close()/_cleanup "
           "never ran" % (A.src(rets_[0].value) if fcp is not None and rets_ else "?"), fcp.loc if fcp is not None else "rpyc/core/protocol.py",
           kind="site")
    # ------------------------------------------------------------------ R11.4 channel delegation
    fcl = ctx.func("rpyc.core.channel.Channel.close")
    okc = bool(A.find_calls(fcl.node, "self.stream.close"))
    rep.ob("R11.4", "Channel.close closes the underlying stream", okc,
           "delegates to self.stream.close()" if okc else "closing a channel leaves its stream open", fcl.loc, kind="site")
    ch = ctx.cls("rpyc.core.channel.Channel")
    closed_prop = ch.methods.get("closed")
    okp = closed_prop is not None and "self.stream.closed" in A.src(closed_prop.node)
    rep.ob("R11.4", "Channel.closed reflects the stream", bool(okp),
           "returns self.stream.closed" if okp else "Channel.closed no longer reflects the stream state",
           closed_prop.loc if closed_prop else fcl.loc, kind="site")
    for meth in ("poll", "fileno"):
        fm = ch.methods.get(meth)
        if fm is None:
            continue
        gm = ctx.cfg(fm)
        dn = [n for n in gm.live if n.ast is not None and n.kind in ("stmt", "test") and A.find_calls(n.ast, "self.stream.%s" % meth)]
        ids = {n.id for n in dn}
        cnt = Q.count_on_paths(gm, gm.entry, lambda n: n.id in ids)
        at = cnt.get(gm.exit.id, frozenset())
        guarded = any(isinstance(x, (ast.BoolOp, ast.IfExp)) for n in dn for x in A.walk(n.ast)) or \
            any(n.kind == "test" for n in gm.live)
        okd = at == frozenset([1]) and not guarded
        rep.ob("R11.4", "Channel.%s always asks the stream (a closed stream answers with EOFError)" % meth, okd,
               "unconditional delegation to self.stream.%s(...)" % meth if okd else
               "Channel.%s can return without asking the stream: on a closed stream it answers instead of raising EOFError, so "
               "serve() on a dead connection returns False and a waiter without expiry spins forever" % meth, fm.loc)
    # ClosedFile raises EOFError for every I/O attribute
    cf = ctx.cls("rpyc.core.stream.ClosedFile")
    ga_ = cf.methods.get("__getattr__")
    okcf = False
    if ga_ is not None:
        # model evaluation: which exception does attribute access on the closed-file object raise, per kind of name
        from .. import miniinterp as MIc
        rep.analysed(ga_)
        try:
            outc = {}
            for nm_ in ("read", "write", "recv", "send", "fileno", "flush", "__copy__", "__reduce_ex__"):
                extra_c = {"__max_iter__": 50}
                extra_c["__global_lookup__"] = K.module_function_lookup(ctx, ga_.module, extra_c)
                try:
                    MIc.call_method(ga_.node, {}, [nm_], extra_c)
                    outc[nm_] = "returns"
                except MIc.Raised as r_:
                    outc[nm_] = r_.name
            okcf = all(v == ("AttributeError" if k.startswith("__") else "EOFError") for k, v in outc.items())
        except AnalysisError as e_:
            rep.undecided("R11.4", "ClosedFile.__getattr__", str(e_))
            okcf = True
    rep.ob("R11.4", "ClosedFile: any I/O on a closed stream raises EOFError", okcf,
           "__getattr__ never returns; raises EOFError (AttributeError only for dunder probes)" if okcf else
           "I/O on a closed stream no longer raises EOFError", ga_.loc if ga_ else "?")

    # ------------------------------------------------------------------ R11.5 waiters
    fw = ctx.func("rpyc.core.async_.AsyncResult.wait")
    gw = ctx.cfg(fw)
    rep.analysed(fw, gw)
    loops = [n for n in gw.live if n.kind == "test" and isinstance(n.owner, ast.While)]
    serve_nodes = [n for n in gw.live if n.kind == "stmt" and n.ast is not None and A.find_calls(n.ast, "self._conn.serve")]
    okw = bool(loops) and bool(serve_nodes) and all(isinstance(A.enclosing(n.ast, ast.While), ast.While) for n in serve_nodes)
    rep.ob("R11.5", "AsyncResult.wait: the wait loop serves the connection (EOFError from a dead transport surfaces)", okw,
           "the loop body calls self._conn.serve(...) whose EOFError is not swallowed" if okw else
           "wait() no longer serves while waiting", fw.loc)
    # no handler in wait swallows EOFError
    swallow = [n for n in gw.live if n.kind == "except"]
    rep.ob("R11.5", "AsyncResult.wait: no handler swallows the EOFError", not swallow,
           "wait() has no exception handler" if not swallow else "wait() catches exceptions raised by serve()",
           ctx.loc(swallow[0]) if swallow else fw.loc, kind="site")

    K.share(ctx, rep, "c13", lambda o: o.rule in ("R13.1", "R13.4"), "R11.5", floor=6)
    # whoever waits for a result learns how the connection ended (EOFError / its timeout): the pending result keeps the connection
    # it waits on alive instead of letting the collector close it underneath
    K.share(ctx, rep, "c15", lambda o: o.rule == "R15.1" and "holds its connection strongly" in o.key, "R11.5", floor=1)

    # ------------------------------------------------------------------ R11.6
    fp = ctx.func("rpyc.core.stream.Stream.poll")
    gp = ctx.cfg(fp, raises="default")
    rep.analysed(fp, gp)
    rdp = Q.ReachingDefs(gp)
    rets = [n for n in gp.live if n.kind == "stmt" and isinstance(n.ast, ast.Return) and n.ast.value is not None]
    rep.floor("R11.6", "return sites of Stream.poll", len(rets), 1)
    for r in rets:
        v = r.ast.value
        inner = v
        if isinstance(v, ast.Call) and A.call_name(v) == "bool" and len(v.args) == 1:
            inner = v.args[0]
        ok = False
        why = "returns `%s`" % A.src(v)
        if isinstance(inner, ast.Name):
            def from_poll(node, name, depth=0):
                defs = rdp.at(node, name)
                if not defs or depth > 4:
                    return False
                for d in defs:
                    if d == "param" or not isinstance(d.ast, ast.Assign):
                        return False
                    if isinstance(d.ast.value, ast.Name):
                        if not from_poll(d, d.ast.value.id, depth + 1):
                            return False
                    elif not any(isinstance(c.func, ast.Attribute) and c.func.attr == "poll" for c in A.calls(d.ast.value)):
                        return False
                return True
            ok = from_poll(r, inner.id)
            why = "truthiness of the poll result list"
        elif isinstance(inner, ast.Compare) and any("len(" in A.src(x) for x in [inner.left] + inner.comparators):
            ok = True
        rep.ob("R11.6", "Stream.poll: any event reported for the descriptor counts as readable", ok,
               why if ok else
               "%s: the poll result is filtered by event kind, so a hang-up that carries no data (a pipe whose writer vanished) is "
               "never reported, recv() is never called and the EOF is never seen - the connection stays open and its hook never "
               "runs" % why, ctx.loc(r))
    regs = [c for c in A.calls(fp.node) if isinstance(c.func, ast.Attribute) and c.func.attr == "register"]
    okreg = len(regs) == 1 and A.src(regs[0].args[0]) == "self.fileno()"
    rep.ob("R11.6", "Stream.poll: polls this stream's own descriptor", okreg, "p.register(self.fileno(), ...)" if okreg else
           "poll registers something else than the stream's descriptor", fp.loc, kind="site")
    _eof_identity(ctx, rep)
    _package_hooks_total(ctx, rep)


def _eof_identity(ctx, rep):
    """R11.7: between the stream and Connection.serve the end-of-stream signal keeps its class. serve() closes the connection
    on EOFError only; a layer in between that re-labels it (raise IOError(...) in a handler) or swallows it leaves the side
    open after the transport has gone."""
    rep.rule("R11.7", "the end-of-stream signal reaches serve() as EOFError: the channel neither converts nor swallows it")
    CH = "rpyc.core.channel.Channel"
    n_sites = 0
    for mname in ("recv", "send", "poll"):
        f = ctx.func(CH + "." + mname)
        marks = [c for c in A.calls(f.node) if isinstance(c.func, ast.Attribute) and K.self_attr(c.func.value, "stream")]
        if not marks:
            continue

        def rs(node_ast, kind, marks=marks):
            if node_ast is None or kind in ("with_exit", "except", "with_enter", "for"):
                return set()
            if isinstance(node_ast, ast.Raise):
                return None
            if any(c is m_ for m_ in marks for c in A.calls(node_ast)):
                return {EOFError}
            return set()
        g = ctx.cfg(f, raises=rs)
        rep.analysed(f, g)

        def relabels(x):
            if x.ast is None or not isinstance(x.ast, ast.Raise) or x.ast.exc is None:
                return False
            e = x.ast.exc
            nm = A.dotted(e.func) if isinstance(e, ast.Call) else A.dotted(e)
            if nm == "EOFError":
                return False
            kc = ctx.repo.resolve_class(f.module, nm) if nm else None
            if kc is not None and any("EOFError" in [A.dotted(b) for b in k_.node.bases] for k_ in ctx.repo.mro(kc)):
                return False           # a package subclass of EOFError is still caught by `except EOFError`
            return True
        for n in g.live:
            if n.ast is None or n.kind not in ("stmt", "test") or not any(c is m_ for m_ in marks for c in A.calls(n.ast)):
                continue
            for t, l in n.succ:
                if l != "exc":
                    continue
                n_sites += 1
                if t is g.excexit:
                    bad = None
                else:
                    bad = Q.find_path_ef([t], lambda x: x is g.exit or relabels(x), lambda a, b, l2: True, skip_first=False)
                what = None
                if bad:
                    what = "swallowed (the method returns normally)" if bad[-1] is g.exit else \
                        "re-raised as `%s`" % A.src(bad[-1].ast)[:80]
                rep.ob("R11.7", "Channel.%s: EOFError out of `%s` leaves the method as EOFError" % (mname, A.norm(n.ast)[:50]),
                       bad is None, "propagates unchanged" if bad is None else
                       "the end-of-stream signal is %s: Connection.serve() closes the connection (hook, tables) on EOFError only, so "
                       "this side stays open and on_disconnect never runs although the transport is gone" % what,
                       ctx.loc(n), witness=ctx.path([n] + bad) if bad else None)
    rep.floor("R11.7", "stream calls in Channel.recv/send/poll", n_sites, 3)


_PARTIAL_EXAMPLE = """
class S(object):
    def on_disconnect(self, conn):
        delattr(conn, "modules")
"""


def _partial_ops(fn_node):
    """operations in a hook body that fail when the state they expect is not there, outside any try statement:
    delattr / `del x.a` / `del x[k]` / two-argument getattr / one-argument pop / remove / index"""
    out = []
    for n in ast.walk(fn_node):
        if any(isinstance(a, ast.Try) for a in A.ancestors(n) if a is not fn_node) and getattr(n, "_parent", None) is not None:
            continue
        if isinstance(n, ast.Call):
            d = A.call_name(n) or ""
            if d == "delattr" or (d == "getattr" and len(n.args) == 2 and not n.keywords):
                out.append((n, "%s(...) raises AttributeError when the attribute is not there" % d))
            elif isinstance(n.func, ast.Attribute) and n.func.attr in ("remove", "index") and len(n.args) == 1:
                out.append((n, ".%s(x) raises when x is not there" % n.func.attr))
            elif isinstance(n.func, ast.Attribute) and n.func.attr == "pop" and len(n.args) == 1 and not n.keywords and \
                    not isinstance(n.args[0], ast.Constant):
                out.append((n, ".pop(key) raises KeyError when the key is not there"))
        elif isinstance(n, ast.Delete):
            for t in n.targets:
                if isinstance(t, (ast.Attribute, ast.Subscript)):
                    out.append((n, "`%s` raises when the target is not there" % A.src(n)))
    return out


def _package_hooks_total(ctx, rep):
    """R11.8: _cleanup calls the service's on_disconnect unprotected, between marking the connection closed and releasing its
    tables: a hook shipped with the package (MasterService, ClassicService, ...) must not fail for a connection whose set-up
    never completed (the peer hung up during the handshake), or the teardown is abandoned half-way."""
    rep.rule("R11.8", "disconnect hooks defined by the package's own services perform no partial operation (delattr, del, "
                      "2-argument getattr, pop/remove of a maybe-missing element) outside a try")
    hooks = [f for q, f in ctx.repo.funcs.items() if f.name == "on_disconnect" and f.cls is not None]
    rep.floor("R11.8", "on_disconnect definitions in the package", len(hooks), 1)
    # the scanner itself is exercised on a known-bad example on every run
    ex = ast.parse(_PARTIAL_EXAMPLE)
    A.set_parents(ex)
    if not _partial_ops(ex.body[0].body[0]):
        raise AnalysisError("R11.8 self-check: the partial-operation scanner no longer recognises its positive example")
    bad = []
    for f in hooks:
        rep.analysed(f)
        # the hook and the methods of its own class it calls (self.m / cls.m / Class.m), transitively
        todo, seen = [f], set()
        while todo:
            g_ = todo.pop()
            if g_.qual in seen:
                continue
            seen.add(g_.qual)
            for n, why in _partial_ops(g_.node):
                bad.append((g_, n, why))
            for c in A.calls(g_.node):
                if isinstance(c.func, ast.Attribute) and isinstance(c.func.value, ast.Name) and \
                        c.func.value.id in ("self", "cls", f.cls.name):
                    for k in ctx.repo.mro(f.cls):
                        if c.func.attr in k.methods and c.func.attr != "on_disconnect":
                            todo.append(k.methods[c.func.attr])
                            break
    rep.ob("R11.8", "package services: on_disconnect cannot fail on a half-set-up connection", not bad,
           "%d hook definition(s), no partial operation" % len(hooks) if not bad else
           "%s: %s - Connection._cleanup is aborted before the tables are released and the peer's objects stay referenced"
           % (bad[0][0].qual, bad[0][2]), ctx.loc(bad[0][1]) if bad else None, kind="model")   # (helpers are followed above)

"""C12 - concurrent senders never interleave, lose or strand a message.

Decides the lock/queue discipline of Connection._send (DESIGN 3, R12.x), not the absence of bad schedules."""
import ast

from .. import astutil as A
from .. import cfgq as Q
from ..loader import AnalysisError
from . import common as K


def run(ctx, rep):
    rep.rule("R12.1", "send-lock pairing: every successful acquire is released on every exit; no release without acquire")
    rep.rule("R12.2", "the transport of a connection is written only inside the acquire->release region of _send")
    rep.rule("R12.3", "enqueue first; _send returns normally only after observing the queue empty outside the lock "
                      "or failing the try-lock; pop only after a non-emptiness test under the lock")
    rep.rule("R12.4", "FIFO: producer append / consumer pop(0) (or an equivalent pair) on the same field")
    rep.rule("R12.5", "every acquisition of the send lock is non-blocking (re-entrant sends cannot self-deadlock)")
    rep.rule("R12.6", "the queue is only touched through single atomic list operations; the popped item is what is sent")
    rep.rule("R12.7", "the send queue is a list and the send lock a plain lock, bound once")
    rep.rule("R12.8", "no lock of the connection is held while the send layer is entered")
    rep.assume("GIL-atomicity of single list.append / list.pop(0) / truth test of a list",
               "threading.Lock.release() on a held lock does not raise",
               "interleavings themselves are not enumerated (DESIGN section 4)")

    _channel_directions_independent(ctx, rep)
    K.connection_state(ctx, rep, "R12.7", ["_send_queue", "_sendlock"])
    # the write layer: the one Connection method that writes the channel (named _send on the pinned tree)
    conn = ctx.cls(K.CONN)
    writers = [m for m in conn.methods.values() if A.find_calls(m.node, "self._channel.send")]
    if len(writers) != 1:
        raise AnalysisError("expected exactly one Connection method writing self._channel.send, found %s"
                            % [w.name for w in writers])
    f = writers[0]
    g = ctx.cfg(f)
    rep.analysed(f, g)
    fn = f.node

    # ---- slots
    acq = K.method_calls_on_self_field(fn, "acquire")
    if not acq:
        # `with self.<lock>:` form -> blocking acquisition
        withs = [n for n in A.walk(fn) if isinstance(n, ast.With)]
        for w in withs:
            for it in w.items:
                fld = K.self_attr(it.context_expr)
                if fld and "lock" in fld.lower():
                    rep.ob("R12.5", "Connection send layer: acquisition of %s" % fld, False,
                           "the send lock is taken with a blocking `with` statement; a send re-entered from a "
                           "finalizer on the same thread deadlocks", ctx.loc(w))
                    return
        raise AnalysisError("R12: no lock acquisition found in Connection._send")
    lock = K.one([fld for fld, _ in acq], "send-lock field acquired in _send")
    apps = K.method_calls_on_self_field(fn, "append") + K.method_calls_on_self_field(fn, "appendleft") \
        + K.method_calls_on_self_field(fn, "insert")
    if not apps:
        raise AnalysisError("R12: no enqueue (self.<queue>.append) found in Connection._send")
    queue = K.one([fld for fld, _ in apps], "send-queue field appended to in _send")
    send_calls = [c for c in A.calls(fn) if A.call_name(c) in ("self._channel.send",)]
    rep.floor("R12.2", "transport writes (self._channel.send) in _send", len(send_calls), 1)

    def has_call(n, name):
        return n.ast is not None and n.kind in ("stmt", "test") and bool(A.find_calls(n.ast, name))

    acq_nodes = [n for n in g.live if has_call(n, "self.%s.acquire" % lock)]
    rel_nodes = [n for n in g.live if has_call(n, "self.%s.release" % lock)]
    app_nodes = [n for n in g.live if n.kind == "stmt" and n.ast is not None and any(
        A.find_calls(n.ast, "self.%s.%s" % (queue, m)) for m in ("append", "appendleft", "insert"))]
    send_nodes = [n for n in g.live if has_call(n, "self._channel.send")]
    pop_nodes = [n for n in g.live if n.ast is not None and n.kind in ("stmt", "test") and (
        A.find_calls(n.ast, "self.%s.pop" % queue) or A.find_calls(n.ast, "self.%s.popleft" % queue))]
    rep.floor("R12.1", "acquire sites of the send lock in _send", len(acq_nodes), 1)
    rep.floor("R12.1", "release sites of the send lock in _send", len(rel_nodes), 1)
    if not pop_nodes:
        rep.ob("R12.6", "Connection send layer: messages leave the queue one at a time, by a single atomic pop", False,
               "no pop()/popleft() of self.%s is left in %s: any other way of emptying the queue (copy then clear, slicing, "
               "re-binding) is not atomic - a message appended by another thread between the two steps is deleted unsent "
               "and its sender, who lost the try-lock, has already returned" % (queue, f.name), f.loc)

    # acquire must be usable as a branch: test node (direct) -- otherwise assigned flag form
    acq_edges = []       # (node, label) edges on which the lock is held
    fail_edges = []      # (node, label) edges on which the try-lock failed
    for n in acq_nodes:
        if n.kind == "test":
            acq_edges.append((n, "true"))
            fail_edges.append((n, "false"))
        else:
            # flag form: v = self.lock.acquire(False); if v: ...
            tgt = None
            if isinstance(n.ast, ast.Assign) and len(n.ast.targets) == 1 and isinstance(n.ast.targets[0], ast.Name):
                tgt = n.ast.targets[0].id
            tests = [t for t in g.live if t.kind == "test" and isinstance(t.ast, ast.Name) and t.ast.id == tgt]
            if tgt is None or not tests:
                # unconditional (blocking) acquire: held on the normal edge
                acq_edges.append((n, "next"))
            else:
                for t in tests:
                    acq_edges.append((t, "true"))
                    fail_edges.append((t, "false"))

    # ---- R12.5
    for fld, c in acq:
        rep.ob("R12.5", "Connection send layer: acquisition of %s" % fld, K.nonblocking_acquire(c),
               "acquire(...) must be non-blocking: a send re-entered from a finalizer while this thread holds the "
               "lock would otherwise wait for itself" if not K.nonblocking_acquire(c) else
               "acquire is called with blocking=False", ctx.loc(c), kind="site")
    # the failed try-acquire is the re-entrancy hand-off: the sender leaves, it does not wait for the lock in any form
    for (n, lab) in fail_edges:
        starts = [t for t, l in n.succ if l == lab]
        acq_ids = {x.id for x in acq_nodes}
        p = Q.find_path_ef(starts, lambda x: x.id in acq_ids, lambda a, b, l: l != "exc", skip_first=False) if starts else None
        rep.ob("R12.5", "Connection send layer: a failed try-acquire returns (hand-off to the lock holder), it never retries", p is None,
               "no path from the failed acquire leads back to an acquire" if p is None else
               "after a failed try-acquire the sender loops back and tries again: a send started by a finalizer on the thread "
               "that is already inside the transport write waits for its own lock for ever", ctx.loc(n),
               witness=ctx.path([n] + p) if p else None)
    ctor = K.init_field_ctor(ctx, K.CONN, lock)
    okl = isinstance(ctor, ast.Call) and (A.call_name(ctor) or "").split(".")[-1] == "Lock"
    rep.ob("R12.5", "Connection.__init__: the send lock is a plain (non-reentrant) Lock", okl,
           "self.%s = Lock()" % lock if okl else
           "the send lock is `%s`: with a re-entrant lock a send started on the thread that is already writing (a proxy "
           "finalizer running between two chunks) acquires it again and writes its packet into the middle of the outer one"
           % (A.src(ctor) if ctor is not None else None), ctx.loc(ctor) if ctor is not None else f.loc, kind="site")
    # package-wide: nobody else takes the send lock, blocking or not
    others = []
    for fu, c in ctx.call_sites(".%s.acquire" % lock):
        if fu is None or fu.qual != f.qual:
            others.append((fu, c))
    for m in ctx.repo.modules.values():
        for w in ast.walk(m.tree):
            if isinstance(w, ast.With):
                for it in w.items:
                    d = A.dotted(it.context_expr) or ""
                    if d.endswith("." + lock):
                        others.append((getattr(A.enclosing(w, ast.FunctionDef), "_func", None), w))
    rep.ob("R12.5", "package: other acquisitions of the send lock", not others,
           "the send lock is acquired outside _send at %s" % ", ".join(ctx.loc(c) for _, c in others) if others
           else "no other site acquires the send lock", ctx.loc(others[0][1]) if others else f.loc, kind="site")

    # ---- R12.1 pairing
    held = Q.region_after(acq_edges, rel_nodes)
    exits = [g.exit, g.excexit]
    for (n, lab) in acq_edges:
        starts = [t for t, l in n.succ if l == lab]
        bad = None
        for s in starts:
            p = Q.find_path(s, exits, avoid=rel_nodes)
            if p:
                bad = p
                break
        rep.ob("R12.1", "Connection send layer: acquire at `%s` released on every exit" % A.norm(n.ast), bad is None,
               "every path from the successful acquire to an exit (normal or exceptional) passes through release()"
               if bad is None else "a path leaves _send with the send lock still held",
               ctx.loc(n), witness=ctx.path(bad) if bad else None)
    rel_ids = {r.id for r in rel_nodes}
    for (n, lab) in acq_edges:
        for s0 in [t for t, l in n.succ if l == lab]:
            # count releases until the lock is tried again or the function is left
            stop = {a.id for a in acq_nodes}
            cnt = Q.count_on_paths(g, s0, lambda x: x.id in rel_ids, edge_ok=lambda a, b, l: a.id not in stop or a is s0)
            worst = set()
            for x in [g.exit, g.excexit] + acq_nodes:
                worst |= set(cnt.get(x.id, ()))
            ok1 = worst <= {1}
            rep.ob("R12.1", "Connection send layer: exactly one release per successful acquire", ok1,
                   "every path from the acquired edge to the next try-lock / exit releases once" if ok1 else
                   "a path releases the send lock %s times after one acquire: the second release unlocks a lock that another "
                   "thread has taken meanwhile (two writers interleave) or raises RuntimeError" % sorted(worst), ctx.loc(n))
    acq_edge_set = {(n.id, lab) for n, lab in acq_edges}
    for r in rel_nodes:
        p = Q.find_path_ef(g.entry, lambda x: x is r, lambda a, b, l: (a.id, l) not in acq_edge_set)
        rep.ob("R12.1", "Connection send layer: release (copy %s) only after a successful acquire" % (r.cont or "plain"),
               p is None,
               "release() is reachable only through the acquired edge" if p is None else
               "release() is reachable without having acquired the lock", ctx.loc(r),
               witness=ctx.path(p) if p else None)

    # ---- R12.2 who-may-write
    for s in send_nodes:
        rep.ob("R12.2", "Connection send layer: `%s` under the send lock" % A.norm(s.ast), s in held,
               "the transport write lies in the acquire->release region" if s in held else
               "the transport is written without holding the send lock", ctx.loc(s))
    outside = []
    for fu, c in ctx.call_sites("._channel.send", "._channel.stream.write", "._channel.stream.sock.send",
                                "._channel.stream.sock.sendall"):
        if fu is None or fu.qual != f.qual:
            outside.append(c)
    rep.ob("R12.2", "package: writers of a connection's channel", not outside,
           "Connection._send is the only function writing to a connection's channel" if not outside else
           "the channel of a connection is written outside Connection._send (bypasses lock and queue): %s"
           % ", ".join(ctx.loc(c) for c in outside), ctx.loc(outside[0]) if outside else f.loc, kind="site")

    # ---- R12.3
    dom = Q.dominators(g)
    for a in acq_nodes:
        ok = any(x.id in dom[a.id] for x in app_nodes)
        rep.ob("R12.3", "Connection send layer: enqueue dominates the try-lock `%s`" % A.norm(a.ast), ok,
               "the message is appended to the queue before any attempt to take the lock" if ok else
               "the lock can be tried before the message has been enqueued (a failed try-lock then loses it)",
               ctx.loc(a))
    # emptiness tests
    qtests = []
    for n in g.live:
        if n.kind == "test":
            pol = K.queue_test_polarity(n.ast, queue)
            if pol:
                qtests.append((n, pol))
    rep.floor("R12.3", "queue-emptiness tests in _send", len(qtests), 1)
    outside_empty = {(n.id, pol) for n, pol in qtests if n not in held}
    fail_set = {(n.id, lab) for n, lab in fail_edges}

    def edge_ok(a, b, l):
        if l == "exc":
            return False
        if (a.id, l) in outside_empty or (a.id, l) in fail_set:
            return False
        return True
    p = Q.find_path_ef(g.entry, lambda x: x is g.exit, edge_ok)
    rep.ob("R12.3", "Connection send layer: normal return only after queue-empty-outside-lock or failed try-lock",
           p is None,
           "every normal exit is preceded by observing the queue empty while not holding the lock, or by a failed "
           "try-lock (whose holder re-checks after releasing)" if p is None else
           "_send can return without re-checking the queue after releasing the lock: a message appended by a "
           "thread that failed the try-lock meanwhile is stranded", f.loc, witness=ctx.path(p) if p else None)
    # after every release, the next thing on the way out is a re-check
    for r in rel_nodes:
        if r.cont == "exc":
            continue
        p = Q.find_path_ef(r, lambda x: x is g.exit, edge_ok)
        rep.ob("R12.3", "Connection send layer: queue re-checked after release (copy %s)" % (r.cont or "plain"), p is None,
               "from release() every path to the normal exit re-tests the queue outside the lock" if p is None else
               "after release() the function can return without re-testing the queue",
               ctx.loc(r), witness=ctx.path(p) if p else None)
    inside_nonempty = {(n.id, "true" if pol == "false" else "false") for n, pol in qtests if n in held}
    for pn in pop_nodes:
        ok_region = pn in held
        starts = []
        for (n, lab) in acq_edges:
            starts += [t for t, l in n.succ if l == lab]
        p = None
        if ok_region:
            p = Q.find_path_ef(starts, lambda x: x is pn,
                               lambda a, b, l: l != "exc" and (a.id, l) not in inside_nonempty, skip_first=False)
        ok = ok_region and p is None
        rep.ob("R12.3", "Connection send layer: dequeue `%s` guarded by a non-emptiness test under the lock" % A.norm(pn.ast),
               ok, "pop happens under the lock after the queue was seen non-empty under the same lock" if ok else
               ("the queue is popped without holding the send lock" if not ok_region else
                "the queue can be popped under the lock without having been seen non-empty (another consumer may "
                "have drained it between the loop test and the acquire): IndexError / lost wake-up"),
               ctx.loc(pn), witness=ctx.path(p) if p else None)

    # ---- R12.4 FIFO
    prod = set()
    for fld, c in apps:
        m = c.func.attr
        if m == "insert":
            first = c.args[0] if c.args else None
            prod.add("front" if (isinstance(first, ast.Constant) and first.value == 0) else "other")
        else:
            prod.add("back" if m == "append" else "front")
    cons = set()
    for pn in pop_nodes:
        for c in A.calls(pn.ast):
            d = A.call_name(c) or ""
            if d == "self.%s.popleft" % queue:
                cons.add("front")
            elif d == "self.%s.pop" % queue:
                if c.args and isinstance(c.args[0], ast.Constant) and c.args[0].value == 0:
                    cons.add("front")
                elif not c.args or (isinstance(c.args[0], ast.Constant) and c.args[0].value == -1):
                    cons.add("back")
                else:
                    cons.add("other")
    fifo = (prod == {"back"} and cons == {"front"}) or (prod == {"front"} and cons == {"back"})
    rep.ob("R12.4", "Connection send layer: queue order", fifo,
           "producer end %s / consumer end %s: first in, first out" % (sorted(prod), sorted(cons)) if fifo else
           "producer end %s / consumer end %s is not FIFO: messages of one thread can leave out of order"
           % (sorted(prod), sorted(cons)), ctx.loc(pop_nodes[0]) if pop_nodes else f.loc, kind="site")

    # ---- R12.6 atomic operations on the queue, and data flow pop -> send
    allowed_methods = {"append", "pop", "popleft", "appendleft"}
    bad_uses = []
    n_uses = 0
    for m in ctx.repo.modules.values():
        for n in ast.walk(m.tree):
            if isinstance(n, ast.Attribute) and n.attr == queue and isinstance(n.value, ast.Name):
                n_uses += 1
                par = n._parent
                fnode = A.enclosing(n, ast.FunctionDef)
                fq = getattr(fnode, "_func", None)
                if isinstance(n.ctx, ast.Store):
                    if fq is not None and fq.name in ("__init__",):
                        continue
                    bad_uses.append((n, "re-binding the queue field"))
                    continue
                if isinstance(n.ctx, ast.Del):
                    bad_uses.append((n, "deleting the queue field"))
                    continue
                if isinstance(par, ast.Attribute) and par.attr in allowed_methods and isinstance(par._parent, ast.Call):
                    continue
                if isinstance(par, ast.Call) and A.call_name(par) == "len":
                    continue
                if isinstance(par, (ast.If, ast.While, ast.UnaryOp, ast.BoolOp, ast.Compare)):
                    continue
                bad_uses.append((n, "non-atomic use `%s`" % A.norm(par)))
    rep.floor("R12.6", "uses of the send-queue field in the package", n_uses, 4)
    rep.ob("R12.6", "package: operations on the send queue", not bad_uses,
           "the queue is only appended to, popped and truth-tested (single atomic list operations)" if not bad_uses
           else "; ".join("%s at %s" % (w, ctx.loc(n)) for n, w in bad_uses),
           ctx.loc(bad_uses[0][0]) if bad_uses else f.loc, kind="site")
    rd = Q.ReachingDefs(g)
    for s in send_nodes:
        for c in A.find_calls(s.ast, "self._channel.send"):
            ok = False
            why = "argument is not a plain local"
            if len(c.args) == 1 and isinstance(c.args[0], ast.Name):
                defs = rd.at(s, c.args[0].id)
                ok = bool(defs) and all(d != "param" and d in pop_nodes for d in defs)
                why = "reaching definitions of `%s`: %s" % (c.args[0].id, ", ".join(
                    "param" if d == "param" else d.text() for d in defs))
            elif len(c.args) == 1 and (A.find_calls(c.args[0], "self.%s.pop" % queue)
                                       or A.find_calls(c.args[0], "self.%s.popleft" % queue)):
                ok = True
                why = "argument is the dequeue expression itself"
            rep.ob("R12.6", "Connection send layer: the packet written is the one just dequeued", ok,
                   ("what is sent is exactly the item popped under the lock; " if ok else
                    "the packet written is not (only) the item dequeued under the lock - messages can be "
                    "duplicated, dropped or reordered; ") + why, ctx.loc(s))
    # what is enqueued is an encoded message: brine.dump(...) here, or the data parameter which every caller
    # fills with the result of brine.dump
    prm = A.params(fn)
    for a in app_nodes:
        for c in A.calls(a.ast):
            if isinstance(c.func, ast.Attribute) and c.func.attr in ("append", "appendleft", "insert") and c.args:
                v = c.args[-1]
                ok = False
                why = "the enqueued value is not the encoding of a message"
                if isinstance(v, ast.Name):
                    defs = rd.at(a, v.id)
                    if defs and all(d != "param" and A.find_calls(d.ast, "brine.dump") for d in defs):
                        ok = True
                        why = "the enqueued value is the result of brine.dump for this call"
                    elif defs == {"param"} and v.id in prm:
                        idx = prm.index(v.id) - 1
                        sites = ctx.call_sites("self." + f.name)
                        good = 0
                        for fu, call in sites:
                            arg = call.args[idx] if len(call.args) > idx else None
                            enc = arg is not None and bool(A.find_calls(arg, "brine.dump"))
                            if not enc and isinstance(arg, ast.Name) and fu is not None:
                                gg = ctx.cfg(fu)
                                rdd = Q.ReachingDefs(gg)
                                nodes = [x for x in gg.live if x.ast is not None and x.kind in ("stmt", "test")
                                         and A.contains(x.ast, call)]
                                dd = rdd.at(nodes[0], arg.id) if nodes else set()
                                enc = bool(dd) and all(d != "param" and A.find_calls(d.ast, "brine.dump") for d in dd)
                            good += 1 if enc else 0
                        ok = bool(sites) and good == len(sites)
                        why = "%d call site(s) of %s, all passing the result of brine.dump" % (len(sites), f.name) if ok \
                            else "a caller of %s passes something that is not an encoded message" % f.name
                elif A.find_calls(v, "brine.dump"):
                    ok = True
                    why = "the enqueued value is the result of brine.dump for this call"
                rep.ob("R12.6", "Connection send layer: what is enqueued is an encoded message of the caller", ok, why, ctx.loc(a))
    # what is handed to the transport is the encoding of this very message: the encoder works on a buffer of its own call (a
    # buffer kept per thread is shared with a send re-entered on that thread while the outer message is being encoded)
    K.share(ctx, rep, "c04", lambda o: o.rule == "R04.2" and "output buffer" in o.key, "R12.6", floor=1)
    from . import hygiene as H
    H.no_lock_across_send(ctx, rep, "R12.8", K.CONN, {"_send", "_send_raw", "_async_request", "async_request", "sync_request"})


def _channel_directions_independent(ctx, rep):
    """R12.9: the two directions of a channel do not exclude each other. A sender blocked in the transport's write (the peer's
    receive buffer is full because the peer itself is busy sending) must not keep the local receiver from draining what the peer
    sends - otherwise two sides that each send a large frame wait for each other for ever and both messages are stranded. The
    connection serialises senders among themselves (_sendlock) and receivers among themselves (_recvlock); the channel adds no
    lock of its own that covers both `send` and `recv` (directly, or through a decorator whose wrapper takes it)."""
    rep.rule("R12.9", "Channel.send and Channel.recv hold no common lock (full-duplex: a blocked writer never stops the reader)")
    CHQ = "rpyc.core.channel.Channel"
    c = ctx.cls(CHQ)

    def locks_of(m):
        held = set()
        for n in A.walk(m.node):
            if isinstance(n, ast.With):
                for it in n.items:
                    fld = K.self_attr(it.context_expr)
                    if fld:
                        held.add(fld)
            if isinstance(n, ast.Call) and isinstance(n.func, ast.Attribute) and n.func.attr == "acquire" and K.self_attr(n.func.value):
                held.add(K.self_attr(n.func.value))
        for d in m.node.decorator_list:
            dn = A.dotted(d.func if isinstance(d, ast.Call) else d)
            r = ctx.repo.resolve_name(m.module, dn) if dn else None
            if r and r[0] == "func":
                for n in ast.walk(r[1].node):
                    if isinstance(n, ast.With):
                        for it in n.items:
                            e = it.context_expr
                            if isinstance(e, ast.Attribute) and isinstance(e.value, ast.Name):
                                held.add(e.attr)
                    if isinstance(n, ast.Call) and isinstance(n.func, ast.Attribute) and n.func.attr == "acquire" and \
                            isinstance(n.func.value, ast.Attribute):
                        held.add(n.func.value.attr)
        return held
    if "send" not in c.methods or "recv" not in c.methods:
        raise AnalysisError("Channel.send / Channel.recv not found")
    ls, lr = locks_of(c.methods["send"]), locks_of(c.methods["recv"])
    try:
        lock_fields = set(K.fields_constructed_with(ctx, CHQ, {"Lock", "RLock", "Condition", "Semaphore", "BoundedSemaphore"}))
    except Exception:
        lock_fields = set()
    common = sorted((ls & lr) & (lock_fields | {x for x in ls & lr if "lock" in x.lower()}))
    rep.ob("R12.9", "Channel: send and recv take no common lock", not common,
           "send holds %s, recv holds %s" % (sorted(ls) or "nothing", sorted(lr) or "nothing") if not common else
           "both Channel.send and Channel.recv run under self.%s: a sender blocked on a full socket buffer keeps the receiver from "
           "draining the peer's data - when both sides send large frames at once they wait for each other for ever" % common[0],
           c.methods["send"].loc, kind="site")

"""C06 - attribute access by the peer follows the connection's policy, and only its own.

Complete mediation (R06.1/2), the decision table evaluated exhaustively (R06.3), hooks (R06.4-6), isolation (R06.7)."""
import ast
import itertools

from .. import astutil as A
from .. import cfgq as Q
from .. import callgraph
from ..loader import AnalysisError
from . import common as K

SINK_FUNCS = {"getattr": 1, "setattr": 1, "delattr": 1, "hasattr": 1, "object.__getattribute__": 1,
              "object.__setattr__": 1, "object.__delattr__": 1, "operator.attrgetter": 0, "attrgetter": 0}
ROWS = {("_rpyc_getattr", "allow_getattr", "getattr"): "get",
        ("_rpyc_setattr", "allow_setattr", "setattr"): "set",
        ("_rpyc_delattr", "allow_delattr", "delattr"): "del"}


def handler_table(ctx):
    """{folded id: Func} from the dict literal returned by Connection._request_handlers"""
    ft = ctx.func(K.CONN + "._request_handlers")
    table = None
    for n in A.walk(ft.node):
        if isinstance(n, ast.Return) and isinstance(n.value, ast.Dict):
            table = n.value
    conn = ctx.cls(K.CONN)
    if table is None:
        # a table kept elsewhere (a module-level sequence of (code, method name) pairs, ...): evaluate the function on a model
        # class whose attributes are named markers; pairs of a folded sequence keep their duplicates
        from .. import miniinterp as MI
        consts_mod = ctx.module("rpyc.core.consts")
        vals = {}
        for nm_ in consts_mod.toplevel:
            v_ = ctx.try_fold(ast.Name(id=nm_, ctx=ast.Load()), consts_mod)
            if v_ is not None:
                vals["consts." + nm_] = v_

        class _Cls:
            mi_native = True

            def __getattr__(self, name):
                if name.startswith("mi_") or name.startswith("__"):
                    raise AttributeError(name)
                return ("method", name)
        rows_ = None
        for n in A.walk(ft.node):
            if isinstance(n, ast.Return) and isinstance(n.value, ast.DictComp) and len(n.value.generators) == 1:
                seq = ctx.try_fold(n.value.generators[0].iter, ft.module)
                if isinstance(seq, (tuple, list)) and all(isinstance(x, tuple) and len(x) == 2 and isinstance(x[1], str) for x in seq):
                    rows_ = [(x[0], x[1]) for x in seq]
                    table = n.value
        if rows_ is None:
            class _ConstsNS:
                mi_native = True
            cns = _ConstsNS()
            for k_, v_ in vals.items():
                setattr(cns, k_.split(".", 1)[1], v_)
            extra = {"__values__": vals, "__globals__": {"consts": cns}}
            extra["__global_lookup__"] = K.module_function_lookup(ctx, ft.module, extra)
            try:
                got = MI.call_function(ft.node, [_Cls()], extra)
            except (MI.Raised, AnalysisError) as e_:
                raise AnalysisError("_request_handlers cannot be evaluated to a table (%s)" % e_)
            if not isinstance(got, dict) or not all(isinstance(v_, tuple) and v_[:1] == ("method",) for v_ in got.values()):
                raise AnalysisError("_request_handlers does not evaluate to a {code: method} table")
            rows_ = [(k_, v_[1]) for k_, v_ in got.items()]
            table = ft.node
        return table, [(hid, name, conn.methods.get(name), table) for hid, name in rows_]
    out = []
    for k, v in zip(table.keys, table.values):
        hid = ctx.try_fold(k)
        name = A.src(v).split(".")[-1]
        out.append((hid, name, conn.methods.get(name), k))
    return table, out


def handler_closure(ctx):
    """Connection methods (and protocol-module functions) reachable from the request handlers"""
    cg = callgraph.get(ctx)
    table, rows = handler_table(ctx)
    roots = [f.qual for _, _, f, _ in rows if f is not None]
    clo = cg.closure(roots)
    return [q for q in sorted(clo) if q in ctx.repo.funcs], rows


def name_sinks(fnode):
    """attribute-access calls with a non-constant name operand: (call, kind, name expr)"""
    out = []
    for c in A.calls(fnode):
        d = A.call_name(c)
        if d in SINK_FUNCS:
            i = SINK_FUNCS[d]
            if len(c.args) > i:
                nm = c.args[i]
                if not isinstance(nm, ast.Constant):
                    out.append((c, d, nm))
    for n in A.walk(fnode):
        if isinstance(n, ast.Subscript) and isinstance(n.value, ast.Attribute) and n.value.attr == "__dict__" \
                and not isinstance(n.slice, ast.Constant):
            out.append((n, "__dict__[]", n.slice))
        if isinstance(n, ast.Subscript) and isinstance(n.value, ast.Call) and A.call_name(n.value) == "vars" \
                and not isinstance(n.slice, ast.Constant):
            out.append((n, "vars()[]", n.slice))
    return out


# ------------------------------------------------------------------------------------------ R06.3
class Deny(Exception):
    def __init__(self, cls):
        self.cls = cls


class StaleState(Exception):
    """the policy read connection state other than the live configuration dictionary"""
    def __init__(self, field):
        self.field = field


class Sym:
    """the attribute name (kind 'name') or prefix+name (kind 'twin')"""
    def __init__(self, kind):
        self.kind = kind

    def __repr__(self):
        return self.kind


class SafeSet:
    pass


class Policy:
    """concrete interpreter of _check_attr over one valuation of the atoms"""
    def __init__(self, ctx, val, perm_key):
        self.ctx = ctx
        self.v = val
        self.perm_key = perm_key
        self.depth = 0
        self.probed_name = False     # hasattr(obj, name) was evaluated (runs the target's getter / __getattr__)
        self.probed_twin = False

    def config_get(self, key):
        v = self.v
        if key == self.perm_key:
            return v["perm"]
        if key in ("allow_exposed_attrs", "allow_all_attrs", "allow_safe_attrs", "allow_public_attrs"):
            return v[key]
        if key == "exposed_prefix":
            return "exposed_" if v["prefix_nonempty"] else ""
        if key == "safe_attrs":
            return SafeSet()
        if key in ("allow_getattr", "allow_setattr", "allow_delattr"):
            # a *different* operation switch than the one asked for: adversarial value = enabled
            return True
        raise AnalysisError("_check_attr consults configuration key %r (not an attribute-policy key)" % key)

    def call_function(self, f, args):
        self.depth += 1
        if self.depth > 4:
            raise AnalysisError("policy helper recursion")
        prm = A.params(f.node)
        env = dict(zip(prm, args))
        try:
            return self.block(f.node.body, env)
        finally:
            self.depth -= 1

    def block(self, stmts, env):
        for st in stmts:
            r = self.stmt(st, env)
            if r is not None:
                return r
        return None

    def stmt(self, st, env):
        if isinstance(st, ast.Expr):
            if isinstance(st.value, ast.Constant):
                return None
            self.ev(st.value, env)
            return None
        if isinstance(st, ast.Assign) and len(st.targets) == 1 and isinstance(st.targets[0], ast.Name):
            env[st.targets[0].id] = self.ev(st.value, env)
            return None
        if isinstance(st, ast.AugAssign) and isinstance(st.target, ast.Name):
            cur = env[st.target.id]
            val = self.ev(st.value, env)
            if isinstance(st.op, ast.BitOr):
                env[st.target.id] = _bitop(cur, val, "or")
            elif isinstance(st.op, ast.BitAnd):
                env[st.target.id] = _bitop(cur, val, "and")
            else:
                raise AnalysisError("_check_attr: unsupported augmented assignment")
            return None
        if isinstance(st, ast.If):
            if _truth(self.ev(st.test, env)):
                return self.block(st.body, env)
            return self.block(st.orelse, env)
        if isinstance(st, ast.Return):
            return ("ret", self.ev(st.value, env) if st.value is not None else None)
        if isinstance(st, ast.Raise):
            e = st.exc
            if isinstance(e, ast.Call):
                e = e.func
            d_ = A.dotted(e) if e is not None else "?"
            # `raise _builder(name)`: a module-level function whose every return builds one exception class
            fb = self.ctx.repo.funcs.get("%s.%s" % (K.PROTO, d_)) if d_ and "." not in d_ else None
            if fb is not None:
                kinds = {A.dotted(r_.value.func) for r_ in A.walk(fb.node) if isinstance(r_, ast.Return) and
                         isinstance(r_.value, ast.Call)}
                rets_ = [r_ for r_ in A.walk(fb.node) if isinstance(r_, ast.Return)]
                if len(kinds) == 1 and len(rets_) == sum(1 for r_ in rets_ if isinstance(r_.value, ast.Call)):
                    d_ = kinds.pop()
            raise Deny(d_)
        if isinstance(st, ast.Pass):
            return None
        raise AnalysisError("_check_attr: unsupported statement `%s`" % A.norm(st)[:60])

    def ev(self, e, env):
        if isinstance(e, ast.Constant):
            return e.value
        if isinstance(e, ast.Name):
            if e.id in env:
                return env[e.id]
            if e.id in ("True", "False", "None"):
                return {"True": True, "False": False, "None": None}[e.id]
            raise AnalysisError("_check_attr: unknown name %s" % e.id)
        if isinstance(e, ast.Attribute):
            if K.self_attr(e, "_config"):
                return "CONFIG"
            if K.self_attr(e):
                raise StaleState(K.self_attr(e))
            raise AnalysisError("_check_attr: unsupported attribute %s" % A.src(e))
        if isinstance(e, ast.Subscript):
            base = self.ev(e.value, env)
            if base == "CONFIG":
                return self.config_get(self.ev(e.slice, env))
            raise AnalysisError("_check_attr: unsupported subscript %s" % A.src(e))
        if isinstance(e, ast.BoolOp):
            val = None
            for x in e.values:
                val = self.ev(x, env)
                if isinstance(e.op, ast.And) and not _truth(val):
                    return val
                if isinstance(e.op, ast.Or) and _truth(val):
                    return val
            return val
        if isinstance(e, ast.UnaryOp) and isinstance(e.op, ast.Not):
            return not _truth(self.ev(e.operand, env))
        if isinstance(e, ast.BinOp) and isinstance(e.op, ast.Add):
            a, b = self.ev(e.left, env), self.ev(e.right, env)
            if isinstance(b, Sym) and b.kind == "name" and isinstance(a, str):
                return Sym("twin") if a else Sym("name")
            raise AnalysisError("_check_attr: unsupported concatenation %s" % A.src(e))
        if isinstance(e, ast.BinOp) and isinstance(e.op, (ast.BitOr, ast.BitAnd)):
            return _bitop(self.ev(e.left, env), self.ev(e.right, env), "or" if isinstance(e.op, ast.BitOr) else "and")
        if isinstance(e, ast.Compare) and len(e.ops) == 1 and isinstance(e.ops[0], (ast.In, ast.NotIn)):
            a, b = self.ev(e.left, env), self.ev(e.comparators[0], env)
            if isinstance(a, Sym) and a.kind == "name" and isinstance(b, SafeSet):
                r = self.v["in_safe"]
                return r if isinstance(e.ops[0], ast.In) else not r
            raise AnalysisError("_check_attr: unsupported membership %s" % A.src(e))
        if isinstance(e, ast.Compare) and len(e.ops) == 1 and isinstance(e.ops[0], (ast.Is, ast.IsNot, ast.Eq, ast.NotEq)):
            a, b = self.ev(e.left, env), self.ev(e.comparators[0], env)
            if isinstance(a, (Sym, SafeSet)) or isinstance(b, (Sym, SafeSet)):
                raise AnalysisError("_check_attr: comparison on the name %s" % A.src(e))
            r = (a is b) if isinstance(e.ops[0], (ast.Is, ast.IsNot)) else (a == b)
            return r if isinstance(e.ops[0], (ast.Is, ast.Eq)) else not r
        if isinstance(e, ast.Call):
            d = A.call_name(e)
            if isinstance(e.func, ast.Attribute) and e.func.attr == "startswith" and len(e.args) == 1:
                recv = self.ev(e.func.value, env)
                arg = self.ev(e.args[0], env)
                if isinstance(recv, Sym) and recv.kind == "name":
                    if not isinstance(arg, str):
                        raise Deny("TypeError")   # name.startswith(False): real Python raises TypeError
                    if arg == "":
                        return True
                    if arg == "_":
                        return self.v["starts_underscore"]
                    if arg == "exposed_":
                        return self.v["starts_prefix"]
                    if ("sw:" + arg) in self.v:
                        return self.v["sw:" + arg]
                raise AnalysisError("_check_attr: unsupported startswith %s" % A.src(e))
            if d == "hasattr" and len(e.args) == 2:
                o = self.ev(e.args[0], env)
                n = self.ev(e.args[1], env)
                if isinstance(n, Sym):
                    if n.kind == "twin":
                        self.probed_twin = True
                        return self.v["has_twin"]
                    self.probed_name = True
                    return self.v["has_name"]
                raise AnalysisError("_check_attr: hasattr on %s" % A.src(e.args[1]))
            if d == "bool" and len(e.args) == 1:
                return _truth(self.ev(e.args[0], env))
            if d in ("type", "id") and len(e.args) == 1:
                self.ev(e.args[0], env)
                return Sym(d)
            if d and d.startswith("self.") and d.count(".") == 2 and d.split(".")[1] != "_config":
                raise StaleState(d.split(".")[1])
            if d and d.startswith("self.") and d.count(".") == 1:
                f = self.ctx.repo.method(self.ctx.cls(K.CONN), d[5:])
                if f is not None:
                    static = any(A.dotted(d_) == "staticmethod" for d_ in f.node.decorator_list)
                    r = self.call_function(f, ([] if static else ["SELF"]) + [self.ev(a, env) for a in e.args])
                    return r[1] if r else None
            if isinstance(e.func, ast.Attribute) and e.func.attr == "get" and len(e.args) >= 1:
                base = self.ev(e.func.value, env)
                if base == "CONFIG":
                    return self.config_get(self.ev(e.args[0], env))
            raise AnalysisError("_check_attr: unsupported call %s" % A.src(e))
        if isinstance(e, ast.IfExp):
            return self.ev(e.body, env) if _truth(self.ev(e.test, env)) else self.ev(e.orelse, env)
        if isinstance(e, ast.Tuple):
            return tuple(self.ev(x, env) for x in e.elts)
        raise AnalysisError("_check_attr: unsupported expression %s" % A.src(e))


def _truth(v):
    if isinstance(v, (Sym, SafeSet)):
        return True
    return bool(v)


def _bitop(a, b, op):
    if isinstance(a, bool) and isinstance(b, bool):
        return (a | b) if op == "or" else (a & b)
    # Python: True | "" raises TypeError; the pinned code only ever combines bools here
    if isinstance(a, bool) and not isinstance(b, bool):
        raise Deny("TypeError")
    raise AnalysisError("_check_attr: bit operation on non-bools")


ATOMS = ["perm", "allow_exposed_attrs", "allow_all_attrs", "allow_safe_attrs", "allow_public_attrs",
         "prefix_nonempty", "in_safe", "starts_prefix", "starts_underscore", "has_twin", "has_name"]


def oracle(v):
    """the outcome the property statement dictates: set of acceptable outcomes"""
    if not v["perm"]:
        return {"DENY"}
    plain = v["allow_all_attrs"] or (v["allow_exposed_attrs"] and v["starts_prefix"]) or \
        (v["allow_safe_attrs"] and v["in_safe"]) or (v["allow_public_attrs"] and not v["starts_underscore"])
    twin = v["allow_exposed_attrs"] and v["prefix_nonempty"] and v["has_twin"]
    if not plain and not twin:
        return {"DENY"}
    if not plain and twin:
        return {"TWIN"}
    if plain and not twin:
        return {"NAME"}
    return {"NAME", "TWIN"}


def feasible(v):
    lits = {"_": v["starts_underscore"]}
    if v["prefix_nonempty"]:
        lits["exposed_"] = v["starts_prefix"]
    for k, b in v.items():
        if k.startswith("sw:"):
            lits[k[3:]] = b
    for s1 in lits:
        for s2 in lits:
            if s1 != s2 and s1.startswith(s2) and lits[s1] and not lits[s2]:
                return False          # starts with "__" implies starts with "_"
            if not s1.startswith(s2) and not s2.startswith(s1) and lits[s1] and lits[s2]:
                return False          # incomparable prefixes cannot both match
    if not v["prefix_nonempty"] and not v["starts_prefix"]:
        return False      # every string starts with ""
    if v["prefix_nonempty"] and v["starts_prefix"] and v["starts_underscore"]:
        return False      # "exposed_..." does not start with "_"
    if not v["prefix_nonempty"] and v["has_twin"] != v["has_name"]:
        return False      # "" + name is name
    return True


def static_probes(ctx, rep):
    """the policy decides with the same lookup the access itself uses (hasattr/getattr: instance dict, class, descriptors,
    __getattr__). A static probe - inspect.getattr_static, vars(obj), type(obj).__dict__ - disagrees with it for names an object
    serves dynamically, so the policy would pick the exposed twin (or refuse) although the plain name is there."""
    from .. import callgraph
    cg = callgraph.get(ctx)
    roots = [K.CONN + "._check_attr", K.CONN + "._access_attr"]
    closure = set(cg.closure(roots))
    bad = []
    n = 0
    for q in sorted(closure):
        fu = ctx.repo.funcs.get(q)
        if fu is None or not q.startswith("rpyc.core.protocol"):
            continue
        n += 1
        for c in A.calls(fu.node):
            d = A.call_name(c) or ""
            if d in ("inspect.getattr_static", "getattr_static", "vars") or d.endswith(".__dict__.get"):
                bad.append((c, fu))
        for x in A.walk(fu.node):
            if isinstance(x, ast.Subscript) and isinstance(x.value, ast.Attribute) and x.value.attr == "__dict__" and \
                    not isinstance(x.ctx, ast.Store):
                bad.append((x, fu))
            if isinstance(x, ast.Compare) and any(isinstance(o, (ast.In, ast.NotIn)) for o in x.ops) and any(
                    isinstance(cmp_, ast.Attribute) and cmp_.attr == "__dict__" for cmp_ in x.comparators):
                bad.append((x, fu))
    rep.floor("R06.3", "functions in the closure of the access policy", n, 2)
    rep.ob("R06.3", "access policy: attributes are probed with the dynamic lookup the access itself uses (no static probes)", not bad,
           "%d functions" % n if not bad else
           "`%s` in %s probes statically: a name the object serves through __getattr__ (or a descriptor the static lookup does not "
           "run) counts as absent, so with an exposed twin present the access is redirected to the twin although the plain name is "
           "allowed and available" % (A.src(bad[0][0])[:60], bad[0][1].qual.split(".", 3)[-1]),
           ctx.loc(bad[0][0]) if bad else ctx.func(roots[0]).loc, kind="site")


def check_decision_table(ctx, rep):
    f = ctx.func(K.CONN + "._check_attr")
    rep.analysed(f)
    prm = A.params(f.node)
    if len(prm) != 4:
        raise AnalysisError("_check_attr no longer takes (self, obj, name, perm)")
    rows = 0
    bad = {}
    # further literal prefixes the policy code tests the name against become atoms of their own
    extra = set()
    conn = ctx.cls(K.CONN)
    for meth in conn.methods.values():
        if meth is f or any(A.find_calls(f.node, "self." + meth.name)):
            for c in A.calls(meth.node):
                if isinstance(c.func, ast.Attribute) and c.func.attr == "startswith" and c.args:
                    lit = A.const_str(c.args[0])
                    if lit not in (None, "", "_", "exposed_"):
                        extra.add("sw:" + lit)
    atoms = ATOMS + sorted(extra)
    if len(atoms) > 14:
        raise AnalysisError("_check_attr: too many prefix literals to enumerate")
    for perm_key in ("allow_getattr", "allow_setattr", "allow_delattr"):
        for bits in itertools.product((False, True), repeat=len(atoms)):
            v = dict(zip(atoms, bits))
            if not feasible(v):
                continue
            rows += 1
            pol = Policy(ctx, v, perm_key)
            try:
                try:
                    r = pol.call_function(f, ["SELF", "OBJ", Sym("name"), perm_key])
                except StaleState as st_:
                    rep.ob("R06.3", "_check_attr: the decision reads only the connection's live configuration", False,
                           "the policy consults self.%s instead of deciding from (configuration, name, operation) alone: an "
                           "answer remembered in connection state ignores the operation's own switch (a name once readable becomes "
                           "writable/deletable) and configuration changes made after construction (e.g. the blanket permissions a "
                           "classic-mode service grants itself on connect)" % st_.field, f.loc)
                    return rows
                val = r[1] if r else None
                if isinstance(val, Sym):
                    got = "NAME" if val.kind == "name" else "TWIN"
                else:
                    got = "RETURNS %r" % (val,)
            except Deny as d:
                got = "DENY" if d.cls == "AttributeError" else "RAISES %s" % d.cls
            want = oracle(v)
            if got not in want:
                key = (got, tuple(sorted(want)))
                bad.setdefault(key, []).append((perm_key, v))
            elif pol.probed_name and (got == "DENY" or not (v["allow_exposed_attrs"] and v["prefix_nonempty"] and v["has_twin"])):
                # hasattr(obj, name) runs the target's property getter / __getattr__: it may only be evaluated to choose
                # between the plain name and an existing exposed twin
                key = ("PROBE", ("the plain attribute is evaluated by the policy itself",))
                bad.setdefault(key, []).append((perm_key, v))
    rep.extra.setdefault("table_rows", {})["R06.3 valuations"] = rows
    if not bad:
        rep.ob("R06.3", "_check_attr: decision table over all feasible valuations", True,
               "%d valuations (11 atoms x 3 operation kinds, infeasible ones pruned) all agree with the table dictated by "
               "the property statement" % rows, f.loc, kind="table")
    for (got, want), cases in sorted(bad.items()):
        perm_key, v = cases[0]
        on = sorted(k for k, b in v.items() if b)
        if got == "PROBE":
            rep.ob("R06.3", "_check_attr: the policy does not touch the plain attribute unless it must choose against an existing twin",
                   False, "%d valuation(s), e.g. operation %s with true atoms %s: hasattr(obj, name) is evaluated although the name is "
                   "denied / no exposed twin exists - the target's property getter or __getattr__ runs one extra time (a denied "
                   "attribute is touched; a permitted one is evaluated twice)" % (len(cases), perm_key, on), f.loc,
                   witness=["%s: %s" % (p_, sorted(k for k, b in vv.items() if b)) for p_, vv in cases[:6]], kind="table")
            continue
        rep.ob("R06.3", "_check_attr: outcome %s where the policy dictates %s" % (got, "/".join(want)), False,
               "%d valuation(s) disagree; e.g. operation %s with true atoms %s: the code %s, the policy says %s"
               % (len(cases), perm_key, on, _explain(got), "/".join(want)), f.loc,
               witness=["%s: %s" % (p, sorted(k for k, b in vv.items() if b)) for p, vv in cases[:6]], kind="table")
    return rows


def _explain(got):
    return {"NAME": "accesses the plain name", "TWIN": "accesses the exposed-prefixed twin",
            "DENY": "raises AttributeError"}.get(got, got)


# ------------------------------------------------------------------------------------------ run
def check_mediation(ctx, rep, rule61="R06.1", rule62="R06.2"):
    closure, rows = handler_closure(ctx)
    rep.floor(rule61, "request handlers in the dispatch table", len(rows), 20)
    fa = ctx.func(K.CONN + "._access_attr")
    fck = ctx.func(K.CONN + "._check_attr")
    allowed = {
        (fa.qual, "getattr"): "type-level hook lookup getattr(type(obj), overrider, None); overrider is a constant at every call site (R06.2)",
        (fck.qual, "hasattr"): "existence probes of the policy itself (no value is returned to the peer)",
    }
    n_sinks = 0
    for q in closure:
        f = ctx.repo.funcs[q]
        rep.analysed(f)
        for c, kind, nm in name_sinks(f.node):
            n_sinks += 1
            ok = (q, kind) in allowed
            if q == fa.qual and kind == "getattr":
                # must be the hook lookup on type(obj) with the overrider parameter
                ok = isinstance(c.args[0], ast.Call) and A.call_name(c.args[0]) == "type" and \
                    isinstance(nm, ast.Name) and nm.id == A.params(fa.node)[4]
            rep.ob(rule61, "%s: `%s` with a computed attribute name" % (q.split(".")[-1], A.norm(c)[:60]), ok,
                   allowed.get((q, kind), "") if ok else
                   "attribute access with a peer-influenced name outside the policy gate: code reachable from a request "
                   "handler calls %s with a non-constant name and never consults _check_attr (the CVE-2019-16328 shape)" % kind,
                   ctx.loc(c))
    rep.floor(rule61, "computed-name attribute accesses in handler-reachable protocol code", n_sinks, 3)
    # the gate itself
    g = ctx.cfg(fa)
    rep.analysed(fa, g)
    prm = A.params(fa.node)   # self obj name args overrider param default
    if len(prm) != 7:
        raise AnalysisError("_access_attr no longer takes (self, obj, name, args, overrider, param, default)")
    p_obj, p_name, p_args, p_over, p_param, p_default = prm[1:]
    rd = Q.ReachingDefs(g)
    dom = Q.dominators(g)
    def access_call(c):
        return isinstance(c.func, ast.Name) and c.func.id not in ("str", "type", "getattr", "bytes", "isinstance") and \
            len(c.args) >= 2 and A.src(c.args[0]) == p_obj and A.src(c.args[1]) == p_name
    acc_calls = [n for n in g.live if n.kind == "stmt" and n.ast is not None and any(access_call(c) for c in A.calls(n.ast))]
    gate_bad = _access_gate_model(ctx, fa)
    if gate_bad is None:
        rep.floor(rule61, "mediated access call accessor(obj, name, *args) in _access_attr", len(acc_calls), 1)
    checks = [n for n in g.live if n.kind == "stmt" and isinstance(n.ast, ast.Assign) and
              A.find_calls(n.ast, "self._check_attr") and isinstance(n.ast.targets[0], ast.Name)
              and n.ast.targets[0].id == p_name]
    # the gate decided by evaluation (sa/miniinterp.py) whenever _access_attr can be interpreted; the structural obligations
    # below then only corroborate (a failing structural reading of a function the model accepts is not reported)
    if gate_bad is not None:
        rep.ob(rule61, "_access_attr: hook-bearing objects get their own type-level hook, everything else passes _check_attr once and "
               "the default operation is applied to the name it returned", not gate_bad,
               "10 scenarios evaluated (hook / no hook, switches off, bytes and non-text names, refusal)" if not gate_bad else
               "; ".join(gate_bad)[:500], fa.loc, kind="model")

    def sob(rule_, key_, ok_, *a_, **k_):
        if gate_bad is None or ok_:
            rep.ob(rule_, key_, ok_, *a_, **k_)
    sob(rule61, "_access_attr: the policy is consulted", bool(checks),
           "name = self._check_attr(obj, name, param)" if checks else
           "_access_attr never calls _check_attr: every attribute is reachable with the default accessor", fa.loc)
    for cn in acc_calls:
        call = [c for c in A.calls(cn.ast) if access_call(c)][0]
        accv = call.func.id
        if accv == p_default:
            defs = {"param"}
            default_direct = True
        else:
            defs = rd.at(cn, accv)
            default_direct = False
        default_defs = [d for d in defs if d != "param" and isinstance(d.ast, ast.Assign) and A.src(d.ast.value) == p_default]
        hook_defs = [d for d in defs if d != "param" and d not in default_defs]
        okdefs = (default_direct or bool(default_defs) or bool(hook_defs)) and all(
            A.find_calls(d.ast, "getattr") and "type(%s)" % p_obj in A.src(d.ast) for d in hook_defs) and \
            (default_direct or "param" not in defs)
        sob(rule61, "_access_attr: `%s` applies the object's own type-level hook or the operation's default" % A.norm(call)[:40],
               okdefs, "accessor: %s" % ("the default operation" if default_direct else [d.text() for d in defs if d != "param"])
               if okdefs else "the accessor can be something other than getattr(type(obj), overrider, None) / default: %s"
               % [d.text() if d != "param" else "param" for d in defs], ctx.loc(cn))
        if default_direct:
            namedefs = rd.at(cn, p_name)
            okp = bool(namedefs) and all(x in checks for x in namedefs)
            sob(rule61, "_access_attr: with the default accessor the name is the one _check_attr returned", okp,
                   "every definition of the name reaching `%s` is the result of self._check_attr" % A.norm(call)[:40] if okp else
                   "the default accessor can be applied to a name that did not pass _check_attr", ctx.loc(cn))
        for dd in default_defs:
            bad = Q.find_path(dd, [cn], avoid=checks, labels=("next", "true", "false"))
            okp = bad is None
            if not okp:
                before = any(c.id in dom[dd.id] for c in checks)
                namedefs = rd.at(cn, p_name)
                okp = before and all(x in checks for x in namedefs)
            sob(rule61, "_access_attr: with the default accessor the name is the one _check_attr returned", okp,
                   "name = self._check_attr(obj, name, param) lies on every path from `accessor = default` to the access"
                   if okp else "the default accessor can be applied to a name that did not pass _check_attr",
                   ctx.loc(dd), witness=ctx.path(bad) if bad and not okp else None)
        if hook_defs and not default_direct:
            # the hook is only called when it exists: the call is not reachable with accessor None unless replaced by default
            pass
        okcall = [A.src(a) for a in call.args] == [p_obj, p_name, "*" + p_args]
        sob(rule61, "_access_attr: `%s` applies (obj, name, *args) unchanged" % A.norm(call)[:40], okcall,
               "`%s`" % A.src(call) if okcall else "the access is `%s`" % A.src(call), ctx.loc(call))
    for c in checks:
        for cc in A.find_calls(c.ast, "self._check_attr"):
            oka = [A.src(a) for a in cc.args] == [p_obj, p_name, p_param]
            sob(rule61, "_access_attr: _check_attr is asked about this object, this name, this operation", oka,
                   "self._check_attr(%s, %s, %s)" % (p_obj, p_name, p_param) if oka else
                   "_check_attr is called with %s" % [A.src(a) for a in cc.args], ctx.loc(cc))
    # objects with their own hook decide instead of the configuration: no configuration switch is evaluated on the way to a
    # hook call (the hook variable's definitions are the type-level lookup)
    cfg_tests = [n for n in g.live if n.kind == "test" and "self._config" in A.src(n.ast)]
    cfg_tests += [n for n in g.live if n.kind == "test" and isinstance(n.ast, ast.Subscript) and isinstance(n.ast.value, ast.Name)
                  and any(d != "param" and "self._config" in A.src(d.ast) for d in rd.at(n, n.ast.value.id))]
    for cn in acc_calls:
        call = [c for c in A.calls(cn.ast) if access_call(c)][0]
        if call.func.id == p_default:
            continue
        hook = [d for d in rd.at(cn, call.func.id) if d != "param" and A.find_calls(d.ast, "getattr")]
        if not hook:
            continue
        gate = [t for t in cfg_tests if t.id in dom[cn.id] or Q.find_path(t, [cn], labels=("next", "true", "false"))]
        # tests that only sit on the default branch (after `accessor is None`) are fine: they do not dominate the hook path
        on_hook_path = []
        for t in gate:
            conds = {A.src(x.ast): pol for x, pol in Q.dominating_conditions(g, t, dom)}
            if conds.get("%s is None" % call.func.id) is True or conds.get("%s is not None" % call.func.id) is False:
                continue
            on_hook_path.append(t)
        sob("R06.4" if rule61 == "R06.1" else rule61, "_access_attr: objects with their own hook are not subject to the configuration switches",
               not on_hook_path, "no configuration test lies on the path to the hook call" if not on_hook_path else
               "`%s` is evaluated before the object's own hook is consulted: the connection's allow_* switch overrides hook-bearing "
               "objects (restricted views become unwritable / unreadable)" % on_hook_path[0].text()[:50],
               ctx.loc(on_hook_path[0]) if on_hook_path else fa.loc)
    # ---- the text-type gate, by partial evaluation over the abstract type of the name
    type_aliases = set()
    for n in g.live:
        if n.kind == "stmt" and isinstance(n.ast, ast.Assign) and isinstance(n.ast.targets[0], ast.Name) and \
                A.src(n.ast.value) == "type(%s)" % p_name:
            type_aliases.add(n.ast.targets[0].id)

    def type_decider(tp):
        def decide(node):
            e = node.ast
            if isinstance(e, ast.Call) and A.call_name(e) == "isinstance":
                return None       # isinstance is not an exact type test: unknown
            if not (isinstance(e, ast.Compare) and len(e.ops) == 1):
                return None
            l, r, op = e.left, e.comparators[0], e.ops[0]

            def is_type_of_name(x):
                return A.src(x) == "type(%s)" % p_name or (isinstance(x, ast.Name) and x.id in type_aliases)
            if is_type_of_name(l):
                other = ctx.try_fold(r)
            elif is_type_of_name(r):
                other = ctx.try_fold(l)
            else:
                return None
            if other is None:
                return None
            if isinstance(op, (ast.Is, ast.Eq)):
                return tp is other
            if isinstance(op, (ast.IsNot, ast.NotEq)):
                return tp is not other
            if isinstance(op, ast.In):
                return tp in other
            if isinstance(op, ast.NotIn):
                return tp not in other
            return None
        return decide
    class _Other(object):
        pass
    acc_set = set(acc_calls)
    r_other = Q.reach_under([g.entry], type_decider(_Other))
    leaks = [n for n in r_other if n in acc_set or n in checks]
    raises_te = [n for n in r_other if isinstance(n.ast, ast.Raise) and TypeError in (n.raises or ())]
    okg = not leaks and bool(raises_te) and g.exit not in r_other
    sob(rule61, "_access_attr: a name that is not text is refused with TypeError before any access", okg,
           "for a name whose exact type is neither str nor bytes only `raise TypeError` is reachable" if okg else
           "a name that is neither str nor bytes can reach %s: objects passed by reference (e.g. a str subclass whose methods "
           "the peer controls) take part in the policy decision" % (leaks[0].text()[:50] if leaks else "the end of the function"),
           ctx.loc(leaks[0]) if leaks else fa.loc)
    okb_e = Q.valuation_edges(type_decider(bytes))
    decodes = [n for n in g.live if n.kind == "stmt" and isinstance(n.ast, ast.Assign) and isinstance(n.ast.targets[0], ast.Name)
               and n.ast.targets[0].id == p_name and (A.find_calls(n.ast.value, "str") or any(
                   isinstance(c.func, ast.Attribute) and c.func.attr == "decode" for c in A.calls(n.ast.value)))]
    did = {n.id for n in decodes}
    pb = Q.find_path_ef(g.entry, lambda x: x in acc_set or x in checks,
                        lambda a, b, l: l != "exc" and okb_e(a, b, l) and a.id not in did)
    sob(rule61, "_access_attr: a bytes name is decoded to text before it is used", pb is None,
           "every path taken for a bytes name passes `name = str(name, 'utf8')`" if pb is None else
           "a bytes name reaches the policy / the access without being decoded", fa.loc, witness=ctx.path(pb) if pb else None)
    # R06.2 triples
    sites = [(fu, c) for fu, c in ctx.call_sites("self._access_attr")]
    rep.floor(rule62, "call sites of _access_attr", len(sites), 4)
    used_rows = set()
    for fu, c in sites:
        if len(c.args) != 6:
            rep.ob(rule62, "%s: _access_attr call shape" % fu.name, False, "expected 6 arguments", ctx.loc(c))
            continue
        trip = (A.const_str(c.args[3]), A.const_str(c.args[4]), A.dotted(c.args[5]))
        kind = ROWS.get(trip)
        want = "set" if "setattr" in fu.name else ("del" if "delattr" in fu.name else "get")
        ok = kind == want
        if kind:
            used_rows.add(kind)
        rep.ob(rule62, "%s: hook, switch and default operation form one consistent row" % fu.name, ok,
               "(%s, %s, %s)" % trip if ok else
               "%s passes (%s, %s, %s): the %s operation is checked against / performed with the wrong row"
               % (fu.name, trip[0], trip[1], trip[2], want), ctx.loc(c), kind="table")
    rep.floor(rule62, "distinct access rows in use", len(used_rows), 3)
    return rows


def run(ctx, rep):
    rep.rule("R06.1", "complete mediation: handler-reachable protocol code touches attributes by computed name only through "
                      "_access_attr, where the default accessor always receives the name _check_attr returned, behind the text-type gate")
    rep.rule("R06.2", "every _access_attr call passes one consistent (hook, switch, default) row matching its operation")
    rep.rule("R06.3", "the decision of _check_attr equals the table dictated by the statement on all feasible valuations")
    rep.rule("R06.4", "objects' own hooks win, and only type-level hooks")
    rep.rule("R06.5", "services deny set/del on themselves")
    rep.rule("R06.8", "handlers that reach a named special method of the target go through the policy, not around it (= R02.1/R02.2 policy clauses)")
    rep.rule("R06.6", "restricted views permit exactly the listed names")
    rep.rule("R06.7", "isolation: configuration is per connection (fresh copy, no writer of the defaults or of shared mutable values)")
    rep.assume("user-defined _rpyc_* hooks and descriptor side effects of hasattr are out of scope",
               "calls on peer-supplied objects are external by design")
    check_mediation(ctx, rep)
    static_probes(ctx, rep)
    try:
        check_decision_table(ctx, rep)
    except AnalysisError as e_:
        rep.undecided("R06.3", "_check_attr decision table", str(e_))

    # ---- R06.4
    fa = ctx.func(K.CONN + "._access_attr")
    prm = A.params(fa.node)
    look = [c for c in A.find_calls(fa.node, "getattr") if len(c.args) >= 2 and A.src(c.args[1]) == prm[4]]
    ok = bool(look) and all(A.src(c.args[0]) == "type(%s)" % prm[1] and len(c.args) == 3
                            and isinstance(c.args[2], ast.Constant) and c.args[2].value is None for c in look)
    rep.ob("R06.4", "_access_attr: the hook is looked up on type(obj), defaulting to None", ok,
           "getattr(type(obj), overrider, None)" if ok else
           "the hook is looked up on the instance (which the peer may have been allowed to write) or without a None default",
           ctx.loc(look[0]) if look else fa.loc, kind="site")

    # ---- R06.5
    for nm in ("_rpyc_setattr", "_rpyc_delattr"):
        f = ctx.func("rpyc.core.service.Service." + nm)
        g = ctx.cfg(f, raises="default")
        rep.analysed(f, g)
        reach_exit = g.exit in Q.reach(g.entry, labels=("next", "true", "false"))
        raised = set()
        for n in g.live:
            if isinstance(n.ast, ast.Raise):
                raised |= set(n.raises or ())
        ok = not reach_exit and raised == {AttributeError}
        rep.ob("R06.5", "Service.%s always raises AttributeError" % nm, ok,
               "every path raises AttributeError" if ok else "a service no longer refuses %s on itself" % nm[6:], f.loc)

    # ---- R06.6
    fr = ctx.func("rpyc.utils.helpers.restricted")
    rprm = A.params(fr.node)
    cls_nodes = [n for n in A.walk(fr.node) if isinstance(n, ast.ClassDef)]
    if not cls_nodes:
        raise AnalysisError("helpers.restricted no longer defines a view class")
    view = cls_nodes[0]
    methods = {m.name: m for m in view.body if isinstance(m, ast.FunctionDef)}
    # which names of the enclosing function hold the read list / the effective write list when the view class is created?
    # (model evaluation of the statements that precede the class: wattrs=None -> the read list, else the given write list)
    from .. import miniinterp as MIr
    prefix = []
    for st in fr.node.body:
        if st is view:
            break
        if not (isinstance(st, ast.Expr) and isinstance(st.value, ast.Constant)):
            prefix.append(st)
    local_names = sorted(set(rprm) | {x.id for st in prefix for x in A.walk(st) if isinstance(x, ast.Name) and isinstance(x.ctx, ast.Store)})
    probe = ast.FunctionDef(name="_prefix", args=fr.node.args, decorator_list=[], returns=None, type_params=[],
                            body=[A.clone(st) for st in prefix] + [ast.Return(value=ast.Dict(
                                keys=[ast.Constant(value=n_) for n_ in local_names],
                                values=[ast.Name(id=n_, ctx=ast.Load()) for n_ in local_names]))])
    ast.fix_missing_locations(probe)
    read_names, write_names = {rprm[1]}, {rprm[2]}
    try:
        RD, WR = MIr.ModelObj("read list"), MIr.ModelObj("write list")
        e1 = MIr.call_function(probe, ["OBJ", RD, None], {"__max_iter__": 50})
        e2 = MIr.call_function(probe, ["OBJ", RD, WR], {"__max_iter__": 50})
        e3 = MIr.call_function(probe, ["OBJ", RD, ()], {"__max_iter__": 50})      # an empty write list: nothing is writable
        read_names = {n_ for n_ in local_names if e1.get(n_) is RD and e2.get(n_) is RD and e3.get(n_) is RD}
        write_names = {n_ for n_ in local_names if e1.get(n_) is RD and e2.get(n_) is WR and e3.get(n_) == () and
                       isinstance(e3.get(n_), tuple)}
        okd_model = bool(write_names)
    except (MIr.Raised, AnalysisError):
        okd_model = None
    if okd_model is None or not write_names or not read_names:
        # behaviour-based identification with concrete lists: which local answers `name in <local>` like the read list / the
        # effective write list - every time it is asked (the view lives as long as the peer keeps its reference)
        try:
            RDc, WRc = ("ra", "rb"), ("wa", "wb")
            asks = ("wb", "wa", "rb", "wb", "zz", "ra", "rb", "wa")

            def profile(v_):
                if not isinstance(v_, (tuple, list, set, frozenset, dict, str)) and not hasattr(v_, "__next__"):
                    return None
                try:
                    return tuple(a_ in v_ for a_ in asks)
                except TypeError:
                    return None
            want_r = tuple(a_ in RDc for a_ in asks)
            want_w = tuple(a_ in WRc for a_ in asks)
            none_ = tuple(False for a_ in asks)
            envs = [MIr.call_function(probe, ["OBJ", RDc, w_], {"__max_iter__": 50}) for w_ in (None, WRc, ())]
            profs = [{n_: profile(e_.get(n_)) for n_ in local_names} for e_ in envs]
            read_c = {n_ for n_ in local_names if all(p_[n_] == want_r for p_ in profs)}
            write_c = {n_ for n_ in local_names if profs[0][n_] == want_r and profs[1][n_] == want_w and profs[2][n_] == none_}
            # a single-use iterator answers the first question only
            oneshot = sorted(n_ for n_ in local_names if n_ not in read_c | write_c and
                             any(hasattr(e_.get(n_), "__next__") for e_ in envs))
            if read_c and (write_c or oneshot):
                read_names, write_names = read_c, write_c | set(oneshot)
                okd_model = bool(write_c) or None
                rep.ob("R06.6", "restricted: the lists the view consults answer every question, not only the first", not oneshot,
                       "read list: %s, write list: %s (containers)" % (sorted(read_c), sorted(write_c)) if not oneshot else
                       "`%s` is a single-use iterator when the view class is created: the first `name in %s` consumes it and every "
                       "later listed name is refused" % (oneshot[0], oneshot[0]), fr.loc, kind="model")
        except (MIr.Raised, AnalysisError):
            pass
    for hook, lst, op in (("_rpyc_getattr", read_names, "getattr"), ("_rpyc_setattr", write_names, "setattr")):
        m = methods.get(hook)
        if m is None:
            rep.ob("R06.6", "restricted: the view defines %s" % hook, False,
                   "without %s the connection's configuration decides instead of the view" % hook, ctx.loc(view), kind="site")
            continue
        f = m._func
        g = ctx.cfg(f, raises="default")
        rep.analysed(f, g)
        dom = Q.dominators(g)
        nm = A.params(m)[1]
        sinks = [n for n in g.live if n.ast is not None and n.kind in ("stmt", "test") and A.find_calls(n.ast, op)]
        okall = bool(sinks)
        for s in sinks:
            conds = Q.dominating_conditions(g, s, dom)
            guarded = False
            for t, pol in conds:
                if isinstance(t.ast, ast.Compare) and len(t.ast.ops) == 1 and A.src(t.ast.left) == nm and \
                        A.src(t.ast.comparators[0]) in lst:
                    if (isinstance(t.ast.ops[0], ast.NotIn) and pol is False) or (isinstance(t.ast.ops[0], ast.In) and pol is True):
                        guarded = True
            c = A.find_calls(s.ast, op)[0]
            target_ok = A.src(c.args[0]) == rprm[0] and A.src(c.args[1]) == nm
            okall = okall and guarded and target_ok
        rep.ob("R06.6", "restricted.%s: the wrapped object is touched only for listed names" % hook, okall,
               "%s(obj, name) is dominated by `name in %s`" % (op, "/".join(sorted(lst))) if okall else
               "the view reaches %s on the wrapped object without the guard `name in <%s list>`" % (op, "read" if op == "getattr" else "write"), f.loc)
        # the refusing branch raises AttributeError
        raised = set()
        for n in g.live:
            if isinstance(n.ast, ast.Raise):
                raised |= set(n.raises or ())
        rep.ob("R06.6", "restricted.%s: other names are refused with AttributeError" % hook, raised == {AttributeError},
               "raises %s" % sorted(k.__name__ for k in raised), f.loc, kind="site")
    # the view decides reads and writes - the two kinds its two lists describe - and nothing else: a further hook (_rpyc_delattr,
    # __delattr__, __getattribute__) would take a third kind of operation away from the connection's configuration
    hook_names = {"_rpyc_getattr", "_rpyc_setattr", "_rpyc_delattr", "__getattr__", "__setattr__", "__delattr__", "__getattribute__"}
    defined = set(methods) | {t.id for st in view.body if isinstance(st, ast.Assign) for t in st.targets if isinstance(t, ast.Name)}
    # the view is its own gate for local users too (and for a view wrapped in another view, whose hook applies plain
    # getattr/setattr to it): the language-level hooks are the same functions as the protocol-level ones
    aliases = {t.id: st.value.id for st in view.body if isinstance(st, ast.Assign) and isinstance(st.value, ast.Name)
               for t in st.targets if isinstance(t, ast.Name)}
    missing_local = []
    for dunder, hook in (("__getattr__", "_rpyc_getattr"), ("__setattr__", "_rpyc_setattr")):
        same = aliases.get(dunder) == hook or aliases.get(hook) == dunder or (
            dunder in methods and hook in methods and [A.norm(x) for x in methods[dunder].body] == [A.norm(x) for x in methods[hook].body])
        if not same:
            missing_local.append(dunder)
    rep.ob("R06.6", "restricted: plain attribute access on the view goes through the same two lists as the peer's access", not missing_local,
           "__getattr__ is _rpyc_getattr, __setattr__ is _rpyc_setattr" if not missing_local else
           "the view does not route %s through its hook: a write (or read) applied to the view itself - by local code or by an outer "
           "restricted view wrapped around it - bypasses the lists (a write lands in the view's own __dict__ and shadows the real "
           "attribute)" % missing_local, ctx.loc(view), kind="site")
    extra_hooks = sorted((defined & hook_names) - {"_rpyc_getattr", "_rpyc_setattr", "__getattr__", "__setattr__"})
    rep.ob("R06.6", "restricted: the view takes over reading and writing only (deleting stays with the connection's configuration)",
           not extra_hooks, "hooks: _rpyc_getattr/__getattr__, _rpyc_setattr/__setattr__" if not extra_hooks else
           "the view also defines %s: a peer can now delete attributes of the wrapped object through the view although the "
           "connection's configuration has allow_delattr off (an object's own hook wins over the configuration)" % extra_hooks,
           ctx.loc(view), kind="site")
    # every call builds its own view from its own two lists: what restricted() returns is a fresh instance of the view class
    # defined in that very call (a view looked up in a cache was built for somebody else's lists)
    rets_v = [n for n in A.walk(fr.node) if isinstance(n, ast.Return) and A.enclosing(n, ast.FunctionDef) is fr.node]
    gfr = ctx.cfg(fr)
    rdv = Q.ReachingDefs(gfr)
    stale = []
    for r_ in rets_v:
        v_ = r_.value
        if isinstance(v_, ast.Call) and isinstance(v_.func, ast.Name) and v_.func.id == view.name:
            continue
        okv = False
        if isinstance(v_, ast.Name):
            node_ = [x for x in gfr.live if x.ast is r_]
            defs_ = rdv.at(node_[0], v_.id) if node_ else set()
            okv = bool(defs_) and all(d_ != "param" and isinstance(d_.ast, ast.Assign) and isinstance(d_.ast.value, ast.Call) and
                                      isinstance(d_.ast.value.func, ast.Name) and d_.ast.value.func.id == view.name for d_ in defs_)
        if not okv:
            stale.append(r_)
    rep.floor("R06.6", "return sites of restricted()", len(rets_v), 1)
    rep.ob("R06.6", "restricted: every call returns a fresh instance of the view class it has just defined", not stale,
           "return %s()" % view.name if not stale else
           "`%s` can return a view that was not built by this call: a view created for one (read list, write list) pair is handed "
           "to a caller who asked for another - e.g. a read-only request gets somebody's writable view" % A.src(stale[0])[:60],
           ctx.loc(stale[0]) if stale else fr.loc, kind="site")
    # wattrs default
    dflt = [n for n in A.walk(fr.node) if isinstance(n, ast.If) and "is None" in A.src(n.test) and rprm[2] in A.src(n.test)]
    okd = (bool(dflt) and A.norm(dflt[0].body[0]) == "%s = %s" % (rprm[2], rprm[1])) if okd_model is None else okd_model
    rep.ob("R06.6", "restricted: writable names default to the readable names", okd,
           "`if wattrs is None: wattrs = attrs`" if okd else "the default of the writable list changed", fr.loc, kind="site")

    # ---- R06.7
    init = ctx.func(K.CONN + ".__init__")
    cfg_assign = [n for n in A.walk(init.node) if isinstance(n, ast.Assign) and any(K.self_attr(t, "_config") for t in n.targets)]
    rep.floor("R06.7", "bindings of self._config in Connection.__init__", len(cfg_assign), 1)
    cprm = A.params(init.node)
    for a in cfg_assign:
        v = a.value
        if isinstance(v, ast.Name):
            v = K.init_field_ctor(ctx, K.CONN, "_config") or v
        fresh = isinstance(v, ast.Call) and ((isinstance(v.func, ast.Attribute) and v.func.attr in ("copy",)) or
                                             A.call_name(v) in ("dict", "copy.copy", "copy.deepcopy"))
        rep.ob("R06.7", "Connection.__init__: self._config is a fresh copy", fresh,
               "`%s`" % A.norm(a) if fresh else
               "`%s` shares the dictionary between connections: a classic-mode connection's blanket permissions (or any "
               "per-connection override) apply to every other connection" % A.norm(a), ctx.loc(a))
    # after the caller's overrides are applied, __init__ may only fill in the connection id
    stores_ = []
    for n in A.walk(init.node):
        if isinstance(n, ast.Subscript) and isinstance(n.ctx, (ast.Store, ast.Del)):
            base = n.value
            basev = K.init_field_ctor(ctx, K.CONN, "_config")
            is_cfg = K.self_attr(base, "_config") is not None
            if isinstance(base, ast.Name):
                # a local alias of the fresh copy
                defs_ = [x for x in A.walk(init.node) if isinstance(x, ast.Assign) and any(
                    isinstance(t, ast.Name) and t.id == base.id for t in x.targets)]
                aliased = [x for x in A.walk(init.node) if isinstance(x, ast.Assign) and any(K.self_attr(t, "_config") for t in x.targets)
                           and isinstance(x.value, ast.Name) and x.value.id == base.id]
                is_cfg = bool(aliased)
            if is_cfg:
                stores_.append(n)
    bad_st = [n for n in stores_ if ctx.try_fold(n.slice) != "connid"]
    rep.ob("R06.7", "Connection.__init__: no policy key of the configuration is overwritten after the caller's overrides", not bad_st,
           "only 'connid' is filled in" if not bad_st else
           "`%s` is stored after the caller's configuration was applied: the connection's own setting for that key is ignored (a "
           "narrowed list is widened back, a widened one refused)" % A.norm(getattr(bad_st[0], "_parent", bad_st[0]))[:70],
           ctx.loc(bad_st[0]) if bad_st else init.loc, kind="site")
    # (b) who-may-write DEFAULT_CONFIG and shared mutable values
    MUT = {"update", "setdefault", "pop", "popitem", "clear", "__setitem__", "__delitem__", "add", "discard", "remove",
           "append", "extend", "insert", "difference_update", "intersection_update", "symmetric_difference_update"}
    writers = []
    shared = []
    cfgw = []
    for m in ctx.repo.modules.values():
        for n in ast.walk(m.tree):
            tgt = None
            how = None
            if isinstance(n, ast.Subscript) and isinstance(n.ctx, (ast.Store, ast.Del)):
                tgt, how = n.value, "item store"
            elif isinstance(n, ast.Call) and isinstance(n.func, ast.Attribute) and n.func.attr in MUT:
                tgt, how = n.func.value, n.func.attr
            elif isinstance(n, ast.AugAssign) and isinstance(n.target, (ast.Subscript, ast.Name, ast.Attribute)):
                tgt, how = (n.target.value if isinstance(n.target, ast.Subscript) else n.target), "augmented assignment"
            if tgt is None:
                continue
            d = A.dotted(tgt) or ""
            if isinstance(n, ast.AugAssign) and isinstance(n.target, ast.Subscript) and \
                    d.split(".")[-1] in ("DEFAULT_CONFIG", "_config", "config"):
                # X._config[key] op= ...: for a mutable value (the safe_attrs set) the operator works in place on the object that
                # every connection shares through the shallow copy
                shared.append((n, "augmented assignment on the stored value"))
            if d.split(".")[-1] == "DEFAULT_CONFIG":
                writers.append((n, how))
            # value inside a config dict: X["safe_attrs"].add(...) / X._config["safe_attrs"] |= ...
            if isinstance(tgt, ast.Subscript) and (A.dotted(tgt.value) or "").split(".")[-1] in ("DEFAULT_CONFIG", "_config", "config"):
                if how != "item store":
                    shared.append((n, how))
            if d.endswith("._config") or d == "self._config":
                fq = getattr(A.enclosing(n, ast.FunctionDef), "_func", None)
                cfgw.append((n, how, fq, d))
    rep.ob("R06.7", "package: nobody mutates DEFAULT_CONFIG", not writers,
           "no item store / update / pop / clear on DEFAULT_CONFIG anywhere in the package" if not writers else
           "DEFAULT_CONFIG is mutated (%s) at %s: every later connection inherits it" % (
               writers[0][1], ", ".join(ctx.loc(n) for n, _ in writers)),
           ctx.loc(writers[0][0]) if writers else "rpyc/core/protocol.py", kind="site")
    rep.ob("R06.7", "package: nobody mutates a mutable value shared through the shallow copy (e.g. safe_attrs)", not shared,
           "no in-place mutation of a value stored inside a configuration dictionary" if not shared else
           "a mutable configuration value is changed in place (%s) at %s: the set object is shared by all connections through "
           "DEFAULT_CONFIG.copy()" % (shared[0][1], ", ".join(ctx.loc(n) for n, _ in shared)),
           ctx.loc(shared[0][0]) if shared else "rpyc/core/protocol.py", kind="site")
    # the configuration a SERVER hands to its connections is the server's own: not a default-argument object shared by every
    # server created without one (relaxing one server's protocol_config in place would relax them all)
    from . import hygiene as H_
    for srv_cls in ("rpyc.utils.server.Server", "rpyc.utils.server.ThreadPoolServer"):
        H_.private_state(ctx, rep, "R06.7", srv_cls)
    allowed_writers = {K.CONN + ".__init__", "rpyc.core.service.SlaveService.on_connect"}
    badw = [(n, how, fq, d) for n, how, fq, d in cfgw if fq is None or fq.qual not in allowed_writers]
    rep.floor("R06.7", "writers of a connection's _config in the package", len(cfgw), 1)
    rep.ob("R06.7", "package: a connection's configuration is written only at construction and by SlaveService.on_connect",
           not badw, "writers: %s" % sorted({fq.qual.split(".", 2)[-1] for _, _, fq, _ in cfgw}) if not badw else
           "unexpected writer(s) of ._config: %s" % ", ".join(ctx.loc(n) for n, _, _, _ in badw),
           ctx.loc(badw[0][0]) if badw else init.loc, kind="site")
    # SlaveService.on_connect writes the config of *its* connection parameter
    fo = ctx.func("rpyc.core.service.SlaveService.on_connect")
    oprm = A.params(fo.node)
    aliases = {oprm[1]}
    for n in A.walk(fo.node):
        if isinstance(n, ast.Assign) and isinstance(n.value, ast.Name) and n.value.id in aliases:
            for t in n.targets:
                d = A.dotted(t)
                if d:
                    aliases.add(d)
    for n, how, fq, d in cfgw:
        if fq is not None and fq.qual == fo.qual:
            base = d[:-len("._config")]
            okb = base in aliases
            if okb and base != oprm[1]:
                # reached through a field: on every path to this statement the field has been (re)bound to the parameter - a
                # guarded store (`if self._conn is None: self._conn = conn`) leaves an earlier connection in the field
                gfo = ctx.cfg(fo)
                stores = {x.id for x in gfo.live if x.ast is not None and x.kind == "stmt" and isinstance(x.ast, ast.Assign) and
                          any(A.dotted(t) == base for t in x.ast.targets) and isinstance(x.ast.value, ast.Name) and
                          x.ast.value.id == oprm[1]}
                here = [x for x in gfo.live if x.ast is not None and x.kind in ("stmt", "test") and A.contains(x.ast, n)]
                okb = bool(stores) and bool(here) and all(
                    Q.find_path_ef([gfo.entry], lambda y, h=h_: y is h, lambda a, b, l: b.id not in stores) is None for h_ in here)
                if not okb:
                    base = base + " (bound to the parameter only on some paths)"
            rep.ob("R06.7", "SlaveService.on_connect widens only the connection it was called for", okb,
                   "`%s._config.%s(...)` where %s aliases the `%s` parameter" % (base, how, base, oprm[1]) if okb else
                   "on_connect writes the configuration of `%s`, which is not the connection being set up" % base, ctx.loc(n))
    # what is written are fresh literals (no shared mutable values handed in)
    # (d) mutable default parameters are never mutated
    bad_defaults = []
    n_mut_defaults = 0
    for f in ctx.repo.funcs.values():
        a = f.node.args
        pos = a.posonlyargs + a.args
        for prmn, dflt_ in zip(pos[len(pos) - len(a.defaults):], a.defaults):
            if isinstance(dflt_, (ast.Dict, ast.List, ast.Set)):
                n_mut_defaults += 1
                for n in A.walk(f.node):
                    if isinstance(n, ast.Subscript) and isinstance(n.ctx, (ast.Store, ast.Del)) and A.src(n.value) == prmn.arg:
                        bad_defaults.append((f, n))
                    if isinstance(n, ast.Call) and isinstance(n.func, ast.Attribute) and n.func.attr in MUT and \
                            A.src(n.func.value) == prmn.arg:
                        bad_defaults.append((f, n))
    rep.floor("R06.7", "functions with a mutable default argument", n_mut_defaults, 2)
    rep.ob("R06.7", "package: mutable default arguments (config={}) are never mutated", not bad_defaults,
           "%d functions with a mutable default; none writes to it" % n_mut_defaults if not bad_defaults else
           "a shared default argument object is mutated at %s" % ", ".join(ctx.loc(n) for _, n in bad_defaults),
           ctx.loc(bad_defaults[0][1]) if bad_defaults else init.loc, kind="site")
    # (e) servers build a fresh config per client
    for q in ("rpyc.utils.server.Server._serve_client", "rpyc.utils.server.ThreadPoolServer._authenticate_and_build_connection"):
        f = ctx.func(q)
        conns = [c for c in A.calls(f.node) if (A.call_name(c) or "").endswith("._connect")]
        rep.floor("R06.7", "%s: connection construction sites" % q.split(".")[-1], len(conns), 1)
        for c in conns:
            cfgarg = c.args[1] if len(c.args) > 1 else None
            fresh = False
            if isinstance(cfgarg, ast.Name):
                for n in A.walk(f.node):
                    if isinstance(n, ast.Assign) and any(isinstance(t, ast.Name) and t.id == cfgarg.id for t in n.targets):
                        fresh = (isinstance(n.value, ast.Call) and (A.call_name(n.value) == "dict" or (
                            isinstance(n.value.func, ast.Attribute) and n.value.func.attr == "copy" and not n.value.args))) or \
                            isinstance(n.value, ast.Dict)
            elif (isinstance(cfgarg, ast.Call) and A.call_name(cfgarg) == "dict") or isinstance(cfgarg, ast.Dict):
                fresh = True
            rep.ob("R06.7", "%s: each client gets a fresh configuration dictionary" % q.split(".")[-1], fresh,
                   "config = dict(self.protocol_config, ...)" if fresh else
                   "the server's protocol_config object itself is handed to every connection", ctx.loc(c))
    K.share(ctx, rep, "c02", lambda o: o.rule in ("R02.1", "R02.2") and "through the policy" in o.key, "R06.8", floor=2)
    _config_model(ctx, rep)


def _config_model(ctx, rep):
    """R06.9: Connection.__init__ evaluated (sa/miniinterp.py) on caller configurations: the connection's configuration is the
    library defaults overridden by exactly what the caller passed - values that are None / False / 0 included (a caller passing
    sync_request_timeout=None asks for no limit, allow_pickle=False asks for a denial)."""
    from .. import miniinterp as MI
    import itertools as _it
    rep.rule("R06.9", "the connection's configuration is the defaults overridden by exactly what the caller passed (falsy values and "
                      "None included); neither the caller's dictionary nor the defaults are modified")
    fi = ctx.func(K.CONN + ".__init__")
    rep.analysed(fi)
    defaults = ctx.const(K.PROTO, "DEFAULT_CONFIG")

    class _Opaque:
        mi_native = True

        def __init__(self, what):
            self.what = what
    mk = lambda what: (lambda *a, **k: _Opaque(what))
    bad = []
    rows = 0
    try:
        for given in ({}, {"sync_request_timeout": None, "allow_pickle": True, "connid": "mine", "allow_setattr": False,
                           "logger": None, "private_key_of_the_application": 0, "exposed_prefix": ""},
                      {"allow_all_attrs": True, "sync_request_timeout": 0}):
            rows += 1
            dflt = dict(defaults)
            passed = dict(given)
            gen = _it.count(1)
            hooks = {"self._request_handlers": lambda: {}, "itertools.count": mk("count"), "Lock": mk("Lock"), "RLock": mk("RLock"),
                     "Condition": mk("Condition"), "RefCountingColl": mk("RefCountingColl"), "WeakValueDict": mk("WeakValueDict"),
                     "count": mk("count")}
            glob = {"DEFAULT_CONFIG": dflt, "_connection_id_generator": gen}
            # the module-level id counter, whatever it is called: every top-level name bound to itertools.count(...)
            for st_ in fi.module.tree.body:
                if isinstance(st_, ast.Assign) and isinstance(st_.value, ast.Call) and (A.call_name(st_.value) or "").endswith("count"):
                    for t_ in st_.targets:
                        if isinstance(t_, ast.Name):
                            glob[t_.id] = gen
            extra = {"__calls__": hooks, "__globals__": glob, "__max_iter__": 500,
                     "__methods__": {n: m.node for n, m in ctx.cls(K.CONN).methods.items() if n not in ("__init__", "_request_handlers")}}
            import re as _re
            for _attempt in range(12):
                st = {}
                dflt.clear(); dflt.update(defaults)
                passed.clear(); passed.update(given)
                try:
                    MI.call_method(fi.node, st, ["ROOT", "CHANNEL", passed], extra)
                    break
                except AnalysisError as e_:
                    # a constructor of some other state field the model does not know (Queue(maxsize=...), deque()): opaque
                    m_ = _re.match(r"miniinterp: unsupported call ([A-Za-z_][\w.]*)\(", str(e_))
                    if m_ is None or m_.group(1) in hooks or m_.group(1).startswith("self."):
                        raise
                    hooks[m_.group(1)] = mk(m_.group(1))
            cfg = st.get("_config")
            want = dict(defaults)
            want.update(given)
            if want.get("connid") is None:
                want["connid"] = cfg.get("connid") if isinstance(cfg, dict) and isinstance(cfg.get("connid"), str) else "<a generated id>"
            if not isinstance(cfg, dict):
                bad.append("config %r: self._config is %r" % (given, cfg))
                continue
            diff = sorted(k for k in set(want) | set(cfg) if want.get(k, "<absent>") != cfg.get(k, "<absent>"))
            if diff:
                bad.append("caller passes %r: the connection ends up with %s" % (
                    given, ", ".join("%s=%r (expected %r)" % (k, cfg.get(k, "<absent>"), want.get(k, "<absent>")) for k in diff[:4])))
            if passed != given:
                bad.append("the caller's dictionary is modified (%r -> %r)" % (given, passed))
            if dflt != defaults:
                bad.append("DEFAULT_CONFIG is modified by constructing a connection")
            if cfg is dflt or cfg is passed:
                bad.append("the connection shares its configuration object with %s" % ("the defaults" if cfg is dflt else "the caller"))
    except MI.Raised as r_:
        bad.append("Connection.__init__ raises %s on a plain configuration" % r_.name)
    except AnalysisError as e_:
        rep.undecided("R06.9", "Connection.__init__ model", str(e_))
        return
    rep.ob("R06.9", "Connection.__init__: configuration = defaults overridden by the caller's dictionary, value for value", not bad,
           "%d caller configurations, incl. None / False / 0 / '' values and unknown keys" % rows if not bad else "; ".join(bad[:2]),
           fi.loc, kind="table")


def _access_gate_model(ctx, fa):
    """list of deviations of Connection._access_attr on model objects, or None when it cannot be interpreted"""
    from .. import miniinterp as MI
    conn = ctx.cls(K.CONN)
    meths = {n_: m_.node for n_, m_ in conn.methods.items() if n_ != "_check_attr"}
    bad = []
    try:
        for label, has_hook, name, refuse in (("object with its own hook", True, "attr", False),
                                              ("object whose own hook refuses with AttributeError", True, "attr", "hook"),
                                              ("plain object", False, "attr", False),
                                              ("plain object, name given as bytes", False, b"attr", False),
                                              ("object with its own hook, name given as bytes", True, b"attr", False),
                                              ("plain object, the policy refuses", False, "attr", True),
                                              ("plain object, name is an int", False, 5, False),
                                              ("plain object, name is an instance of a str subclass", False, _SubStr("attr"), False),
                                              ("object with its own hook, name is an instance of a bytes subclass", True, _SubBytes(b"attr"), False),
                                              ("object with its own hook, name is a tuple", True, ("attr",), False)):
            log = []

            def hook(o, n, *a, log=log, refuse=refuse):
                log.append(("hook", o, n, a))
                if refuse == "hook":
                    raise MI.Raised("AttributeError")      # the object's own decision: final, no fall-back to the configuration
                return "HOOK-RESULT"

            def default(o, n, *a, log=log):
                log.append(("default", o, n, a))
                return "DEFAULT-RESULT"
            CLS = MI.ModelObj("class of obj", {"_rpyc_over": hook} if has_hook else {})
            OBJ = MI.ModelObj("obj", {}, cls=CLS)

            def check(o, n, p, log=log, refuse=refuse):
                log.append(("check", o, n, p))
                if refuse is True:
                    raise MI.Raised("AttributeError")
                return "CHECKED:%s" % n
            cfgd = _AllOff()
            extra = {"__calls__": {"self._check_attr": check}, "__methods__": meths, "__max_iter__": 100}
            extra["__global_lookup__"] = K.module_function_lookup(ctx, fa.module, extra)
            try:
                got = MI.call_method(fa.node, {"_config": cfgd}, [OBJ, name, ("X",), "_rpyc_over", "allow_op", default], extra)
            except MI.Raised as r_:
                got = "raises %s" % r_.name
            text = name.decode("utf8") if isinstance(name, bytes) else name
            if type(name) not in (str, bytes):
                want_log, want = [], "raises TypeError"      # exact types only: a subclass may override startswith/__eq__/__hash__
            elif not isinstance(text, str):
                want_log, want = [], "raises TypeError"
            elif has_hook:
                want_log, want = [("hook", OBJ, text, ("X",))], "HOOK-RESULT" if refuse != "hook" else "raises AttributeError"
            elif refuse:
                want_log, want = [("check", OBJ, text, "allow_op")], "raises AttributeError"
            else:
                want_log, want = [("check", OBJ, text, "allow_op"), ("default", OBJ, "CHECKED:" + text, ("X",))], "DEFAULT-RESULT"
            if log != want_log or got != want or cfgd.asked:
                bad.append("%s: %s -> %r%s (expected %s -> %r)" % (
                    label, [(e_[0],) + tuple(e_[2:]) for e_ in log], got,
                    ", after reading the switch(es) %s" % cfgd.asked if cfgd.asked else "",
                    [(e_[0],) + tuple(e_[2:]) for e_ in want_log], want))
    except AnalysisError:
        return None
    return bad


class _SubStr(str):
    pass


class _SubBytes(bytes):
    pass


class _AllOff(dict):
    """a configuration in which every switch is off; records which ones _access_attr itself reads (it should read none: the
    policy lives in _check_attr, and objects with their own hook are not subject to it)"""
    mi_native = True

    def __init__(self):
        dict.__init__(self)
        self.asked = []

    def __getitem__(self, k):
        self.asked.append(k)
        return False

    def get(self, k, d=None):
        self.asked.append(k)
        return False

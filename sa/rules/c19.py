"""C19 - bytes on the wire are those of the published 5.x protocol.

Translation validation of the source (constant folding + shape extraction, never running brine) against the
frozen reference sa/ref/wire_5x.json."""
import ast
from .. import brine_model as _B2
import json
import os
import struct

from .. import astutil as A
from .. import brine_model as B
from ..loader import AnalysisError
from . import c04
from . import c05
from . import common as K

REF = os.path.join(os.path.dirname(os.path.dirname(os.path.abspath(__file__))), "ref", "wire_5x.json")


def load_ref():
    with open(REF) as f:
        return json.load(f)


def ref_row(rows, m):
    for lo, hi, tag, fmt in rows:
        if m >= lo and (hi is None or m <= hi):
            return bytes.fromhex(tag), fmt
    return None, None


def ref_loader_terms(ref):
    """tag -> expected loader term (same term language as brine_model.LoadExec)"""
    b = ref["brine"]
    out = {}
    out[bytes.fromhex(b["singletons"]["NoneType"])] = ("const", None)
    out[bytes.fromhex(b["singletons"]["NotImplementedType"])] = ("const", NotImplemented)
    out[bytes.fromhex(b["singletons"]["ellipsis"])] = ("const", Ellipsis)
    out[bytes.fromhex(b["bool"]["true"])] = ("const", True)
    out[bytes.fromhex(b["bool"]["false"])] = ("const", False)

    def var(fmt):
        return ("item", ("unpack", fmt, ("read", 1, ("const", struct.calcsize(fmt)))), 0, 1)
    for lo, hi, tag, fmt in b["bytes"]:
        t = bytes.fromhex(tag)
        if fmt is None:
            out[t] = ("const", b"") if lo == 0 else ("read", 1, ("const", lo))
        else:
            out[t] = ("read", 2, var(fmt))
    for lo, hi, tag, fmt in b["tuple"]:
        t = bytes.fromhex(tag)
        if fmt is None:
            out[t] = ("const", ()) if lo == 0 else ("tuple",) + tuple(("load", i + 1) for i in range(lo))
        else:
            out[t] = ("tuple_n", var(fmt))
    for lo, hi, tag, fmt in b["int_text"]:
        out[bytes.fromhex(tag)] = ("ctor", "int", ("read", 2, var(fmt)))
    out[bytes.fromhex(b["str"]["tag"])] = ("decode", ("load", 1), B.norm_codec(b["str"]["codec"]), None)
    f = b["float"]
    out[bytes.fromhex(f["tag"])] = ("item", ("unpack", f["fmt"], ("read", 1, ("const", struct.calcsize(f["fmt"])))), 0, None)
    c = b["complex"]
    u = ("unpack", c["fmt"], ("read", 1, ("const", struct.calcsize(c["fmt"]))))
    out[bytes.fromhex(c["tag"])] = ("ctor", "complex", ("item", u, 0, 2), ("item", u, 1, 2))
    out[bytes.fromhex(b["slice"]["tag"])] = ("ctor", "slice") + tuple(("item", ("load", 1), i, 3) for i in range(3))
    out[bytes.fromhex(b["frozenset"]["tag"])] = ("ctor", "frozenset", ("load", 1))
    return out


def request_ids(ctx, fnode):
    """folded handler ids used as the handler operand of request-emitting calls inside fnode"""
    out = []
    for c in A.calls(fnode):
        d = A.call_name(c) or ""
        last = d.split(".")[-1]
        idx = None
        if last in ("syncreq", "asyncreq"):
            idx = 1
        elif last in ("sync_request", "async_request", "_async_request"):
            idx = 0
        if idx is not None and len(c.args) > idx:
            v = ctx.try_fold(c.args[idx])
            out.append((c, v, c.args[idx + 1:]))
    return out


def _late_shares(ctx, rep):
    rep.rule("R19.7", "which label a value travels under is decided by its exact type (a tuple subclass is a reference, label 4, not "
                      "label 2) (= R03.1)")
    K.share(ctx, rep, "c03", lambda o: o.rule == "R03.1", "R19.7", floor=3)


def run(ctx, rep):
    rep.rule("R19.1", "tag table by role: for every registered type and length/value class the writer emits the published tag "
                      "and length form (shortest form = the published interval map)")
    rep.rule("R19.2", "the reader accepts the whole published table: every published tag has a loader of the published shape")
    rep.rule("R19.3", "frame: 4-byte big-endian length + flag byte, payload, newline; zlib only when enabled and above the threshold")
    rep.rule("R19.4", "message kinds, boxing labels, handler numbers have their published values, by name and by role")
    rep.rule("R19.5", "message layout: (kind, seq, payload); requests carry (handler, boxed args); boxed values are (label, value)")
    rep.rule("R19.6", "what goes by value is decided by exact type alone and encoded by exact type alone (= R04.1, R04.2)")
    rep.assume("the reference table sa/ref/wire_5x.json is the published 5.x format (cross-validated against the documented "
               "hex example by sa/ref/refcodec.py at setup time)", "zlib and struct produce what their documentation says")
    # the frame reader/writer behaves the same in every interpreter mode (= R05.10)
    K.share(ctx, rep, "c05", lambda o: o.rule == "R05.10", "R19.3", floor=1)
    # a frame is written as one uninterrupted unit: the send lock is a plain lock (a finalizer running on the sending thread
    # queues its message instead of writing it into the middle of the frame in progress) (= R12.5, R12.7)
    K.share(ctx, rep, "c12", lambda o: o.rule in ("R12.5", "R12.7"), "R19.3", floor=2)
    ref = load_ref()
    b = ref["brine"]
    m = c04.Model(ctx)
    K.share(ctx, rep, "c04", lambda o: o.rule in ("R04.1", "R04.2", "R04.3", "R04.6"), "R19.6", floor=8)
    _late_shares(ctx, rep)
    from . import hygiene as H0
    H0.private_state(ctx, rep, "R19.3", "rpyc.core.channel.Channel")
    rows = 0

    # ------------------------------------------------------------------ R19.1
    def first_tag_fmt(p):
        tag = p.items[0][1] if p.items and p.items[0][0] == "bytes" else None
        fmt = None
        for it in p.items[1:]:
            if it[0] == "pack":
                fmt = it[1]
                break
            if it[0] == "bytes":
                continue
        return tag, fmt
    for t, (fn, paths) in sorted(m.dumpers.items(), key=lambda kv: kv[0].__name__):
        seen = set()
        for val, p in c04.chosen_paths(ctx, m, t, fn, paths, rep, "R19.1"):
            rows += 1
            tag, fmt = first_tag_fmt(p)
            if t in (bytes, tuple):
                wt, wf = ref_row(b[t.__name__], val["len"])
                got = (tag, fmt)
                want = (wt, wf)
                desc = "%s of length %d" % (t.__name__, val["len"])
            elif t is str:
                # TAG_UNICODE followed by the bytes encoding
                inner = [it for it in p.items[1:]]
                itag = inner[0][1] if inner and inner[0][0] == "bytes" else None
                ifmt = None
                for it in inner[1:]:
                    if it[0] == "pack":
                        ifmt = it[1]
                wt, wf = ref_row(b["bytes"], val["len"])
                got = (tag, itag, ifmt)
                want = (bytes.fromhex(b["str"]["tag"]), wt, wf)
                desc = "str whose UTF-8 form has length %d" % val["len"]
            elif t is int:
                imm = b["int_immediate"]
                v = val["value"]
                if imm["lo"] <= v <= imm["hi"]:
                    first = p.items[0]
                    if first[0] == "imm":
                        try:
                            from .. import brine_model as _B
                            got = _B.imm_byte(ctx, first, val, _B2.obj_param(fn.node))
                        except LookupError:
                            got = ("lookup fails",)
                    else:
                        got = ("not immediate", tag)
                    want = bytes([v + imm["offset"]])
                    desc = "int %d (immediate)" % v
                else:
                    wt, wf = ref_row(b["int_text"], val["len"])
                    got = (tag, fmt) if p.items[0][0] != "imm" else ("immediate",)
                    want = (wt, wf)
                    desc = "int with %d characters of decimal text" % val["len"]
            elif t is bool:
                got = tag
                want = bytes.fromhex(b["bool"]["true" if val["truth"] else "false"])
                desc = "bool %s" % val["truth"]
            elif t.__name__ in b["singletons"]:
                got = tag
                want = bytes.fromhex(b["singletons"][t.__name__])
                desc = t.__name__
            elif t.__name__ in ("float", "complex"):
                got = (tag, fmt)
                want = (bytes.fromhex(b[t.__name__]["tag"]), b[t.__name__]["fmt"])
                desc = t.__name__
            elif t.__name__ in ("slice", "frozenset"):
                got = tag
                want = bytes.fromhex(b[t.__name__]["tag"])
                desc = t.__name__
            else:
                rep.info("type %s is not in the published table (extension; informational)" % t.__name__)
                continue
            ok = got == want
            key = "writer: %s" % desc if not ok or (id(p), ok) not in seen else None
            if (id(p)) not in seen or not ok:
                rep.ob("R19.1", "writer: %s" % desc, ok,
                       "emits %s as published" % (_h(got),) if ok else
                       "%s writes %s where the published format has %s" % (fn.name, _h(got), _h(want)),
                       ctx.loc(p.nodes[0]) if p.nodes else fn.loc, kind="table")
            seen.add(id(p))
    # immediate table as a whole
    imm = b["int_immediate"]
    want_imm = {i: bytes([i + imm["offset"]]) for i in range(imm["lo"], imm["hi"] + 1)}
    rep.ob("R19.1", "writer: immediate integer table", m.imm == want_imm,
           "%d immediate ints, byte = value + 0x%02x" % (len(want_imm), imm["offset"]) if m.imm == want_imm else
           "IMM_INTS differs from the published range [%d..%d] -> value+%d" % (imm["lo"], imm["hi"], imm["offset"]),
           m.mod.relpath, kind="table")
    # text codec
    for t, (fn, paths) in m.dumpers.items():
        if t is str:
            for p in paths:
                for it in p.items:
                    if it[0] == "raw":
                        for c in ast.walk(it[1]):
                            if isinstance(c, ast.Call) and isinstance(c.func, ast.Attribute) and c.func.attr == "encode":
                                codec = B.norm_codec(ctx.try_fold(c.args[0]) if c.args else "utf-8")
                                errors = ctx.try_fold(c.args[1]) if len(c.args) > 1 else "strict"
                                for kw in c.keywords:
                                    if kw.arg == "errors":
                                        errors = ctx.try_fold(kw.value)
                                okc = codec == B.norm_codec(b["str"]["codec"]) and errors in ("strict", "surrogatepass")
                                rep.ob("R19.1", "writer: text is the UTF-8 encoding of its code points", okc,
                                       "codec %s, error policy %s (every encodable string has its published bytes)" % (codec, errors)
                                       if okc else "text is encoded with codec %s / error policy %s: some strings are written as "
                                       "bytes that are not the UTF-8 form of their code points" % (codec, errors),
                                       ctx.loc(p.nodes[0]), kind="table")

    # ------------------------------------------------------------------ R19.2
    want_terms = ref_loader_terms(ref)
    for tag, want in sorted(want_terms.items()):
        rows += 1
        ld = m.loaders.get(tag)
        if ld is None:
            rep.ob("R19.2", "reader: tag %s" % tag.hex(), False,
                   "no loader is registered for published tag %s: conforming peers' packets fail to decode" % tag.hex(),
                   m.mod.relpath, kind="table")
            continue
        lfn, term = ld
        if term[0] == "unknown":
            rep.undecided("R19.2", "reader: tag %s" % tag.hex(), term[1])
            continue
        if want[0] == "decode":
            ok = term[0] == "decode" and c04.term_eq(term[1], want[1]) and term[2] == want[2] and \
                term[3] in ("strict", "surrogatepass")
        else:
            ok = c04.term_eq(term, want)
        rep.ob("R19.2", "reader: tag %s" % tag.hex(), ok,
               "%s has the published shape" % lfn.name if ok else
               "%s computes %r; the published meaning of tag %s is %r" % (lfn.name, term, tag.hex(), want),
               ctx.loc(lfn.node), kind="table")
    rep.ob("R19.2", "reader: immediate integer table", m.imm_loader == {v: k for k, v in want_imm.items()},
           "%d bytes decode to their published integers" % len(want_imm), m.mod.relpath, kind="table")
    extra = sorted(set(m.loaders) - set(want_terms))
    if extra:
        rep.info("loaders for tags beyond the published table (informational): %s" % [x.hex() for x in extra])

    # ------------------------------------------------------------------ R19.3
    K.share(ctx, rep, "c05", lambda o: o.rule == "R05.8", "R19.3", floor=1)
    info = c05.check_channel(ctx, rep, rule="R19.3")
    fr = ref["frame"]
    rep.ob("R19.3", "frame header struct", info["header"] == fr["header"],
           "FRAME_HEADER = Struct(%r)" % info["header"] if info["header"] == fr["header"] else
           "FRAME_HEADER is Struct(%r); published: %r (4-byte big-endian length + 1 flag byte)" % (info["header"], fr["header"]),
           "rpyc/core/channel.py", kind="table")
    rep.ob("R19.3", "frame flusher", info["flusher"] == bytes.fromhex(fr["flusher"]),
           "FLUSHER = %r" % info["flusher"], "rpyc/core/channel.py", kind="table")
    thr = info.get("threshold")
    tv = None
    if thr:
        tv = ctx.class_const("rpyc.core.channel.Channel", thr[1].split(".")[-1]) if thr[1].startswith("self.") \
            else ctx.try_fold(ast.parse(thr[1], mode="eval").body, ctx.module("rpyc.core.channel"))
    # compare as an interval: compressed iff len > 3000  (Gt 3000 == GtE 3001)
    eff = None
    if thr and isinstance(tv, int):
        eff = tv + 1 if thr[0] == "Gt" else (tv if thr[0] == "GtE" else None)
    okthr = eff == fr["threshold"] + 1
    rep.ob("R19.3", "compression threshold", okthr,
           "compressed iff enabled and len(payload) >= %s" % eff if okthr else
           "compression applies from length %s (%s %s); published: strictly above %d" % (eff, thr, tv, fr["threshold"]),
           "rpyc/core/channel.py", kind="table")

    # ------------------------------------------------------------------ R19.4
    for name, want in sorted(ref["consts"].items()):
        rows += 1
        try:
            got = ctx.const("rpyc.core.consts", name)
        except AnalysisError:
            got = None
        rep.ob("R19.4", "consts.%s" % name, got == want,
               "= %r" % (got,) if got == want else "consts.%s is %r; published value %r" % (name, got, want),
               "rpyc/core/consts.py", kind="table")
    # by role
    role_funcs = {
        "BaseNetref.": "rpyc.core.netref.BaseNetref.",
        "_make_method.": "rpyc.core.netref._make_method.",
        "Connection.": "rpyc.core.protocol.Connection.",
        "helpers.": "rpyc.utils.helpers.",
    }
    for role, want in sorted(ref["roles"].items()):
        rows += 1
        q = None
        for pre, full in role_funcs.items():
            if role.startswith(pre):
                q = full + role[len(pre):]
        f = ctx.repo.funcs.get(q)
        if f is None:
            raise AnalysisError("role anchor %s not found" % q)
        ids = request_ids(ctx, f.node)
        if not ids:
            # the request may have moved into a new private helper this function delegates to (a generator cannot be inlined)
            known = set()
            try:
                from .. import inline as _INL
                known = _INL.load_known() or set()
            except Exception:
                pass
            for c_ in A.calls(f.node):
                nm_ = A.call_name(c_)
                if nm_ and "." not in nm_:
                    r_ = ctx.repo.resolve_name(f.module, nm_)
                    if r_ and r_[0] == "func" and r_[1].qual not in known:
                        ids = ids + request_ids(ctx, r_[1].node)
        got = sorted({v for _, v, _ in ids if v is not None})
        ok = got == [want]
        rep.ob("R19.4", "role %s sends handler %d" % (role, want), ok,
               "handler id folds to %d" % want if ok else "%s sends handler id(s) %s; published: %d" % (role, got, want),
               f.loc, kind="table")
        if role.startswith("BaseNetref.__") and want == 11:
            opn = role.split(".")[-1]
            names = [ctx.try_fold(rest[1]) for _, v, rest in ids if len(rest) >= 2]
            rep.ob("R19.4", "role %s names its own operator" % role, names == [opn],
                   "third operand %r" % names if names == [opn] else
                   "%s sends operator name %s (a peer then applies a different comparison)" % (role, names), f.loc, kind="table")
    # handler table maps every published id to the handler of the same role name
    from . import c06 as _c06
    table, rows_ = _c06.handler_table(ctx)
    got_tbl = {}
    for hid_, name_, _, _ in rows_:
        got_tbl.setdefault(hid_, []).append(name_)
    for name, want in sorted(ref["consts"].items()):
        if not name.startswith("HANDLE_"):
            continue
        role = "_handle_" + name[len("HANDLE_"):].lower()
        ok = got_tbl.get(want) == [role]
        rep.ob("R19.4", "dispatch table: id %d -> %s" % (want, role), ok,
               "as published" if ok else "id %d is served by %s; published: %s" % (want, got_tbl.get(want), role),
               ctx.loc(table), kind="table")

    # ------------------------------------------------------------------ R19.5
    from . import c08
    senders, encoders = c08.sender_methods(ctx)
    conn = ctx.cls(K.CONN)
    for nme in sorted(encoders):
        f = conn.methods[nme]
        for d in A.find_calls(f.node, "brine.dump"):
            prm = A.params(f.node)[1:]
            ok = bool(d.args) and isinstance(d.args[0], ast.Tuple) and [A.src(e) for e in d.args[0].elts] == prm[:3] \
                and len(prm) >= 3
            rep.ob("R19.5", "Connection.%s: a message is the 3-tuple (kind, seq, payload)" % nme, ok,
                   "brine.dump((%s))" % ", ".join(prm[:3]) if ok else
                   "the message tuple is `%s`, not (kind, seq, payload) built from the parameters in that order" % A.src(d.args[0]),
                   ctx.loc(d))
    n_sites = 0
    for fu, c in ctx.call_sites(*["self." + s for s in encoders]):
        if len(c.args) >= 3:
            n_sites += 1
            kind = ctx.try_fold(c.args[0])
            ok = kind in (1, 2, 3)
            rep.ob("R19.5", "%s: `%s` passes a message kind first" % (fu.qual.split(".")[-1] if fu else "?", A.norm(c)[:50]),
                   ok, "kind folds to %r" % kind if ok else "first slot `%s` is not a MSG_* constant" % A.src(c.args[0]),
                   ctx.loc(c), kind="table")
    # messages encoded in place (not through a generic encoder): same layout
    for nme, f in sorted(conn.methods.items()):
        if nme in encoders:
            continue
        for d in A.find_calls(f.node, "brine.dump"):
            if d.args and isinstance(d.args[0], ast.Tuple):
                n_sites += 1
                el = d.args[0].elts
                kind = ctx.try_fold(el[0]) if el else None
                prm = A.params(f.node)
                ok = len(el) == 3 and kind in (1, 2, 3) and isinstance(el[1], ast.Name) and el[1].id in prm
                rep.ob("R19.5", "Connection.%s: message encoded in place is (kind, seq, payload)" % nme, ok,
                       "brine.dump((%s))" % ", ".join(A.src(e) for e in el) if ok else
                       "the message tuple `%s` is not (MSG_* kind, seq, payload)" % A.src(d.args[0]), ctx.loc(d), kind="table")
    rep.floor("R19.5", "message construction sites with an explicit kind", n_sites, 3)
    fa = ctx.func(K.CONN + "._async_request")
    for c in A.calls(fa.node):
        d = A.call_name(c) or ""
        if d.startswith("self.") and d[5:] in senders and len(c.args) >= 3:
            pl = c.args[2]
            prm = A.params(fa.node)
            ok = isinstance(pl, ast.Tuple) and len(pl.elts) == 2 and A.src(pl.elts[0]) == prm[1] and \
                A.src(pl.elts[1]) == "self._box(%s)" % prm[2]
            rep.ob("R19.5", "_async_request: a request carries (handler, boxed args)", ok,
                   "payload `%s`" % A.src(pl) if ok else "request payload is `%s`" % A.src(pl), ctx.loc(c))
    fd = ctx.func(K.CONN + "._dispatch_request")
    un = [n for n in A.walk(fd.node) if isinstance(n, ast.Assign) and isinstance(n.targets[0], ast.Tuple)
          and isinstance(n.value, ast.Name) and n.value.id == A.params(fd.node)[2]]
    ok = len(un) == 1 and len(un[0].targets[0].elts) == 2
    rep.ob("R19.5", "_dispatch_request: destructures (handler, args) in that order", ok,
           "`%s`" % A.norm(un[0]) if ok else "request payload is not destructured as two slots", fd.loc)
    if ok:
        hv, av = [e.id for e in un[0].targets[0].elts]
        used = False
        for c in A.calls(fd.node):
            if isinstance(c.func, ast.Subscript) and A.src(c.func.slice) == hv:
                used = True
        rep.ob("R19.5", "_dispatch_request: first slot selects the handler, second slot holds the arguments", used,
               "self._HANDLERS[%s]" % hv if used else "the handler is not selected by the first slot", fd.loc)
    fb = ctx.func(K.CONN + "._box")
    rets = [n for n in A.walk(fb.node) if isinstance(n, ast.Return)]
    okb = all(isinstance(r.value, ast.Tuple) and len(r.value.elts) == 2 and
              isinstance(ctx.try_fold(r.value.elts[0]), int) for r in rets) and len(rets) >= 4
    rep.ob("R19.5", "_box: every boxed value is a (label, value) pair", okb,
           "%d return sites, all (LABEL_*, value)" % len(rets) if okb else "a boxed value is not a (label, value) pair", fb.loc)
    fu_ = ctx.func(K.CONN + "._unbox")
    un2 = [n for n in A.walk(fu_.node) if isinstance(n, ast.Assign) and isinstance(n.targets[0], ast.Tuple)
           and isinstance(n.value, ast.Name) and n.value.id == A.params(fu_.node)[1]]
    oku = len(un2) == 1 and len(un2[0].targets[0].elts) == 2
    rep.ob("R19.5", "_unbox: destructures (label, value)", oku, "`%s`" % A.norm(un2[0]) if oku else "package not destructured "
           "as (label, value)", fu_.loc)
    fg = ctx.func("rpyc.lib.get_id_pack")
    rets = [n for n in A.walk(fg.node) if isinstance(n, ast.Return) and isinstance(n.value, ast.Tuple)]
    okg = bool(rets) and all(len(r.value.elts) == 3 for r in rets)
    rep.ob("R19.5", "get_id_pack: identifiers are (name, class-id, instance-id) triples", okg,
           "%d return sites" % len(rets) if okg else "an id_pack is not a 3-tuple", fg.loc)
    rep.extra["programs"] = 2
    rep.extra["disagreements_checked"] = rows
    rep.extra.setdefault("table_rows", {})["C19 reference rows compared"] = rows


def _h(x):
    if isinstance(x, bytes):
        return x.hex()
    if isinstance(x, tuple):
        return "(" + ", ".join(_h(y) for y in x) + ")"
    return repr(x)

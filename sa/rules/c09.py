"""C09 - remote exceptions arrive as the same class with the same data, and safely.

Decides gating, plumbing, payload encodability and the class-reconstruction shape of vinegar (R09.1-R09.7)."""
import ast

from .. import astutil as A
from .. import cfgq as Q
from ..loader import AnalysisError
from . import common as K

V = "rpyc.core.vinegar"


def cond_names(conds):
    out = {}
    for t, pol in conds:
        out[A.src(t.ast)] = pol
    return out


def run(ctx, rep):
    rep.rule("R09.1", "disclosure is gated: traceback text only under include_local_traceback, version text only under include_local_version")
    rep.rule("R09.2", "the exception payload is always encodable: every transmitted value is dumpable by guard, a constant, or a repr()")
    rep.rule("R09.3", "configuration plumbing pairs names: every switch of vinegar.dump/load is fed from self._config[<same name>]")
    rep.rule("R09.4", "class resolution is gated: import under import_custom_exceptions, sys.modules lookup under "
                      "instantiate_custom_exceptions, otherwise builtins only, else a generic stand-in named after the original")
    rep.rule("R09.5", "no constructor, only vetted exception classes (= R07.5)")
    rep.rule("R09.6", "the rebuilt class is a subclass of the original carrying its name/module; args and attributes are restored")
    rep.rule("R09.8", "an exception of any class raised while serving (incl. SystemExit/KeyboardInterrupt not routed locally) is sent "
                      "back: the replying handler clause catches everything (= R08.1)")
    rep.rule("R09.7", "the StopIteration fast path is paired on both sides")
    rep.rule("R09.9", "nothing a connection learnt about an exception class is remembered for other connections, except reviewed "
                      "stateless stand-in/wrapper caches (= R16.3 on the vinegar tables)")
    rep.assume("per-class fidelity of the ~70 built-in exception classes is not decided (class lookup is by name on the builtins module)")
    defaults = ctx.const(K.PROTO, "DEFAULT_CONFIG")

    # ------------------------------------------------------------------ R09.1 / R09.2
    fd = ctx.func(V + ".dump")
    g = ctx.cfg(fd, raises="default")
    rep.analysed(fd, g)
    dom = Q.dominators(g)
    prm = A.params(fd.node)
    tb_nodes = [n for n in g.live if n.ast is not None and n.kind == "stmt" and (
        A.find_calls(n.ast, "traceback.format_exception") or A.find_calls(n.ast, "traceback.format_tb")
        or A.find_calls(n.ast, "traceback.format_exc"))]
    rep.floor("R09.1", "traceback formatting sites in vinegar.dump", len(tb_nodes), 1)
    for n in tb_nodes:
        c = cond_names(Q.dominating_conditions(g, n, dom))
        ok = c.get("include_local_traceback") is True
        rep.ob("R09.1", "vinegar.dump: the traceback text is produced only when include_local_traceback is set", ok,
               "dominated by `if include_local_traceback`" if ok else
               "the local traceback is formatted (and sent) without the include_local_traceback guard: source paths and code "
               "of the serving side are disclosed", ctx.loc(n))
    ver_nodes = [n for n in g.live if n.ast is not None and n.kind == "stmt" and "version_string" in A.src(n.ast)]
    rep.floor("R09.1", "version disclosure sites in vinegar.dump", len(ver_nodes), 1)
    for n in ver_nodes:
        c = cond_names(Q.dominating_conditions(g, n, dom))
        ok = c.get("include_local_version") is True
        rep.ob("R09.1", "vinegar.dump: the version text is sent only when include_local_version is set", ok,
               "dominated by `if include_local_version`" if ok else "the version string is disclosed unconditionally", ctx.loc(n))
    # complementary branches bind constants
    tbvar = None
    for n in tb_nodes:
        if isinstance(n.ast, ast.Assign) and isinstance(n.ast.targets[0], ast.Name):
            tbvar = n.ast.targets[0].id
    for var, key in ((tbvar, "include_local_traceback"),):
        defs = [n for n in g.live if n.kind == "stmt" and isinstance(n.ast, ast.Assign) and
                any(isinstance(t, ast.Name) and t.id == var for t in n.ast.targets)]
        for d in defs:
            c = cond_names(Q.dominating_conditions(g, d, dom))
            if c.get(key) is False:
                okc = (isinstance(d.ast.value, ast.Constant) and isinstance(d.ast.value.value, str)) or (
                    isinstance(d.ast.value, (ast.Name, ast.Attribute)) and isinstance(ctx.try_fold(d.ast.value, fd.module), str))
                rep.ob("R09.1", "vinegar.dump: with %s off a constant placeholder is sent" % key, okc,
                       "`%s`" % A.norm(d.ast) if okc else "the denied branch sends `%s`" % A.src(d.ast.value), ctx.loc(d))
    # R09.2
    rd = Q.ReachingDefs(g)
    appends = [n for n in g.live if n.kind == "stmt" and n.ast is not None and any(
        isinstance(c.func, ast.Attribute) and c.func.attr == "append" for c in A.calls(n.ast))]
    extends = [n for n in g.live if n.kind == "stmt" and n.ast is not None and any(
        isinstance(c.func, ast.Attribute) and c.func.attr in ("extend", "insert", "__iadd__") for c in A.calls(n.ast))]
    extends += [n for n in g.live if n.kind == "stmt" and isinstance(n.ast, ast.AugAssign) and isinstance(n.ast.op, ast.Add)]
    rep.floor("R09.2", "payload append sites in vinegar.dump", len(appends) + len(extends), 3)
    for n in extends:
        c = [c for c in A.calls(n.ast) if isinstance(c.func, ast.Attribute) and c.func.attr == "extend"]
        ok = False
        if c and c[0].args and isinstance(c[0].args[0], (ast.GeneratorExp, ast.ListComp)):
            ge = c[0].args[0]
            v = A.src(ge.generators[0].target)
            e = ge.elt
            ok = isinstance(e, ast.IfExp) and A.src(e.test) == "brine.dumpable(%s)" % v and A.src(e.body) == v and \
                A.src(e.orelse) == "repr(%s)" % v
        rep.ob("R09.2", "vinegar.dump: `%s` normalises the values one by one" % A.norm(n.ast)[:60], ok,
               "each element is sent as itself if dumpable, else as its repr" if ok else
               "values are added in bulk: the dumpable-or-repr decision is not taken per element, so immutable arguments next "
               "to a mutable one are replaced by their repr (or a non-dumpable one slips through)", ctx.loc(n))

    def encodable(node, e):
        """is expression e, evaluated at CFG node `node`, guaranteed brine-dumpable?"""
        if isinstance(e, ast.Constant) and isinstance(e.value, (str, int, bytes, type(None), bool, float)):
            return True, "constant"
        if isinstance(e, ast.Call) and A.call_name(e) in ("repr", "str"):
            return True, "%s(...)" % A.call_name(e)
        if isinstance(e, ast.Attribute) and A.src(e) == "version.version_string":
            return True, "version string"
        if isinstance(e, (ast.Name, ast.Attribute)) and isinstance(ctx.try_fold(e, fd.module), (str, int, bytes, bool, float, type(None))) \
                and (not isinstance(e, ast.Name) or e.id not in A.names_stored(fd.node) | set(A.params(fd.node))):
            return True, "module constant"
        if isinstance(e, ast.Tuple):
            why = []
            for x in e.elts:
                ok, w = encodable(node, x)
                if not ok:
                    return False, w
                why.append(w)
            return True, "tuple of (%s)" % ", ".join(why)
        if isinstance(e, ast.Name):
            # (a) dominated by dumpable(e) true
            for t, pol in Q.dominating_conditions(g, node, dom):
                if pol and A.find_calls(t.ast, "brine.dumpable") and A.src(A.find_calls(t.ast, "brine.dumpable")[0].args[0]) == e.id:
                    return True, "guarded by brine.dumpable(%s)" % e.id
            # (b) every reaching definition is encodable by construction, or passed the dumpable test on the way
            defs = rd.at(node, e.id)
            if not defs or "param" in defs:
                return False, "`%s` is a raw parameter" % e.id
            for d in defs:
                val = d.ast.value if isinstance(d.ast, ast.Assign) else None
                if d.kind == "for":
                    # loop variable over dir(val): attribute names are str
                    if isinstance(d.owner.iter, ast.Call) and A.call_name(d.owner.iter) == "dir":
                        continue
                    return False, "`%s` iterates over `%s` (arbitrary objects)" % (e.id, A.src(d.owner.iter))
                if val is not None:
                    ok, w = encodable(d, val)
                    if ok:
                        continue
                tests = [t for t in g.live if t.kind == "test" and A.find_calls(t.ast, "brine.dumpable") and
                         A.src(A.find_calls(t.ast, "brine.dumpable")[0].args[0]) == e.id]
                tid = {t.id for t in tests}
                others = [x for x in g.live if x is not d and e.id in Q.node_defs(x)]
                oid = {x.id for x in others}
                p = Q.find_path_ef(d, lambda x: x is node,
                                   lambda a, b, l: l != "exc" and not (a.id in tid and l == "true") and a.id not in oid)
                if p is not None:
                    return False, "`%s` defined by `%s` reaches the payload without passing brine.dumpable or repr()" % (
                        e.id, d.text()[:50])
            return True, "every definition of `%s` is dumpable-guarded or a repr()" % e.id
        return False, "`%s` is not dumpable by construction" % A.src(e)[:50]
    for n in appends:
        for c in A.calls(n.ast):
            if isinstance(c.func, ast.Attribute) and c.func.attr == "append" and c.args:
                e0 = c.args[0]
                if isinstance(e0, ast.Call) and A.call_name(e0) == "repr" and len(e0.args) == 1 and isinstance(e0.args[0], ast.Name):
                    v = e0.args[0].id
                    conds = {A.src(t.ast): pol for t, pol in Q.dominating_conditions(g, n, dom)}
                    okr = conds.get("brine.dumpable(%s)" % v) is False
                    rep.ob("R09.2", "vinegar.dump: `%s` replaces exactly the non-dumpable value by its repr" % A.norm(c)[:50], okr,
                           "under `not brine.dumpable(%s)`" % v if okr else
                           "the repr() replacement of `%s` is not decided by brine.dumpable(%s) of that very value: immutable "
                           "arguments lose their value (arrive as text)" % (v, v), ctx.loc(n))
                ok, why = encodable(n, c.args[0])
                rep.ob("R09.2", "vinegar.dump: `%s` transmits only encodable values" % A.norm(c)[:60], ok,
                       why if ok else "%s: the exception reply itself can then fail to encode and the requester gets no answer" % why,
                       ctx.loc(n))
    rets = [n for n in g.live if n.kind == "stmt" and isinstance(n.ast, ast.Return) and isinstance(n.ast.value, ast.Tuple)
            and len(n.ast.value.elts) == 4]
    rep.floor("R09.2", "full exception records returned by vinegar.dump", len(rets), 1)
    for r in rets:
        e = r.ast.value.elts
        lists = set()
        for an in appends + extends:
            for c in A.calls(an.ast):
                if isinstance(c.func, ast.Attribute) and c.func.attr in ("append", "extend") and isinstance(c.func.value, ast.Name):
                    lists.add(c.func.value.id)

        def tuple_of_list(x):
            return isinstance(x, ast.Call) and A.call_name(x) == "tuple" and len(x.args) == 1 and \
                isinstance(x.args[0], ast.Name) and x.args[0].id in lists
        ok = A.src(e[0]) == "(%s.__module__, %s.__name__)" % (prm[0], prm[0]) and tuple_of_list(e[1]) and \
            tuple_of_list(e[2]) and A.src(e[1]) != A.src(e[2]) and isinstance(e[3], ast.Name) and e[3].id == tbvar
        if ok:
            rep.ob("R09.2", "vinegar.dump: record layout ((module, name), args, attrs, traceback text)", ok,
                   "`%s`" % A.src(r.ast.value), ctx.loc(r))
        # (when the record is assembled in another shape - stage helpers, other temporaries - the layout is decided by the
        #  record model R09.10, which evaluates dump() and compares the whole record)
    # attribute names: public, from dir(val)
    skip = [n for n in g.live if n.kind == "test" and "startswith" in A.src(n.ast) and "'_'" in A.src(n.ast)]
    if skip:
        rep.ob("R09.2", "vinegar.dump: only public attributes are transmitted", bool(skip),
               "names starting with '_' are skipped", fd.loc, kind="site")
    # (otherwise decided by R09.10: the model exception has private and dunder attributes that must not appear in the record)

    # ------------------------------------------------------------------ R09.3
    for meth, target in (("_box_exc", "vinegar.dump"), ("_unbox_exc", "vinegar.load")):
        f = ctx.func(K.CONN + "." + meth)
        calls = A.find_calls(f.node, target)
        rep.floor("R09.3", "%s call in %s" % (target, meth), len(calls), 1)
        tf = ctx.func(V + "." + target.split(".")[1])
        tprm = A.params(tf.node)
        for c in calls:
            supplied = set()
            for kwname, kwval in K.call_keywords(ctx, c, f.module):
                supplied.add(kwname)
                ok = isinstance(kwval, ast.Subscript) and K.self_attr(kwval.value, "_config") is not None and \
                    A.const_str(kwval.slice) == kwname and kwname is not None
                rep.ob("R09.3", "%s: switch %s is fed from self._config[%r]" % (meth, kwname, kwname), ok,
                       "same name on both sides" if ok else
                       "`%s=%s`: the switch is wired to a different configuration key" % (kwname, A.src(kwval)), ctx.loc(c),
                       kind="table")
                rep.ob("R09.3", "DEFAULT_CONFIG has key %r" % kwname, kwname in defaults, "default %r" % (defaults.get(kwname),),
                       "rpyc/core/protocol.py", kind="table", nontrivial=False)
            npos = len(c.args)
            missing = [p for p in tprm[npos:] if p not in supplied]
            rep.ob("R09.3", "%s: every gating parameter of %s is supplied" % (meth, target), not missing,
                   "all of %s" % tprm[npos:] if not missing else "not supplied: %s" % missing, ctx.loc(c), kind="site")

    # ------------------------------------------------------------------ R09.4
    fl = ctx.func(V + ".load")
    gl = ctx.cfg(fl, raises="default")
    rep.analysed(fl, gl)
    doml = Q.dominators(gl)
    from .. import callgraph as _cgm
    cg_ = _cgm.get(ctx)
    IMPORTERS = ("__import__", "importlib.import_module", "import_module", "importlib.util.find_spec", "find_spec",
                 "importlib.find_loader", "pkgutil.find_loader", "pkgutil.get_loader")   # find_spec imports parent packages

    def import_escapes(fq, depth=0):
        """does a failing import inside package function fq escape it? (None: fq does not import)"""
        f_ = ctx.repo.funcs.get(fq)
        if f_ is None or depth > 3:
            return None
        direct = [c for c in A.calls(f_.node) if A.call_name(c) in IMPORTERS]
        via = [c for c, callees in cg_.sites.get(fq, ()) if any(import_escapes(q2, depth + 1) for q2 in (callees or ()))]
        if not direct and not via:
            return None
        marks = direct + via

        def rs(node_ast, kind):
            if node_ast is None or kind in ("with_exit", "except", "with_enter", "for"):
                return set()
            if isinstance(node_ast, ast.Raise):
                return None
            if any(c is m_ for m_ in marks for c in A.calls(node_ast)):
                return {Exception}
            return set()
        g_ = ctx.cfg(f_, raises=rs)
        for n_ in g_.live:
            if n_.ast is not None and n_.kind == "stmt" and any(c is m_ for m_ in marks for c in A.calls(n_.ast)):
                for t_, l_ in n_.succ:
                    if l_ == "exc" and (t_ is g_.excexit or Q.find_path_ef([t_], lambda x: x is g_.excexit, lambda a, b, l: True,
                                                                          skip_first=False) is not None):
                        return True
        return False
    imp_calls = {}
    for c, callees in cg_.sites.get(fl.qual, ()):
        if A.call_name(c) in IMPORTERS:
            imp_calls[id(c)] = (c, True)
        else:
            esc = [import_escapes(q2) for q2 in (callees or ())]
            if any(e is not None for e in esc):
                imp_calls[id(c)] = (c, any(esc))
    for c in A.calls(fl.node):
        if A.call_name(c) in IMPORTERS:
            imp_calls.setdefault(id(c), (c, True))
    imps = [n for n in gl.live if n.ast is not None and n.kind == "stmt" and any(id(c) in imp_calls for c in A.calls(n.ast))]
    rep.floor("R09.4", "import sites in vinegar.load", len(imps), 1)
    # a failing import (any Exception: a module may run arbitrary code at import time) never escapes load: the record then
    # falls back to the generic stand-in
    raising = [c for c, esc in imp_calls.values() if esc]

    def rs_load(node_ast, kind):
        if node_ast is None or kind in ("with_exit", "except", "with_enter", "for"):
            return set()
        if isinstance(node_ast, ast.Raise):
            return None
        if any(c is m_ for m_ in raising for c in A.calls(node_ast)):
            return {Exception}
        return set()
    gli = ctx.cfg(fl, raises=rs_load)
    esc_w = None
    for n_ in gli.live:
        if n_.ast is not None and n_.kind == "stmt" and any(c is m_ for m_ in raising for c in A.calls(n_.ast)):
            for t_, l_ in n_.succ:
                if l_ != "exc":
                    continue
                pth = [t_] if t_ is gli.excexit else Q.find_path_ef([t_], lambda x: x is gli.excexit, lambda a, b, l: True,
                                                                    skip_first=False)
                if pth is not None:
                    esc_w = [n_] + pth
    rep.ob("R09.4", "vinegar.load: a failing import of the exception's module is swallowed (the generic stand-in is used)", esc_w is None,
           "every import site is enclosed by a handler for Exception" if esc_w is None else
           "an exception raised while importing the module named in the record (anything but ImportError, e.g. a module failing at "
           "import time or an empty module name) escapes vinegar.load: the requester gets that unrelated local error - or the serving "
           "loop dies - instead of the remote exception", ctx.loc(imps[0]) if imps else fl.loc,
           witness=ctx.path(esc_w) if esc_w else None)
    for n in imps:
        c = cond_names(Q.dominating_conditions(gl, n, doml))
        ok = c.get("import_custom_exceptions") is True
        rep.ob("R09.4", "vinegar.load: a module is imported only under import_custom_exceptions", ok,
               "dominated by `import_custom_exceptions`" if ok else "an exception payload can make the receiver import a module", ctx.loc(n))
    lookups = [n for n in gl.live if n.kind == "stmt" and isinstance(n.ast, ast.Assign) and
               any(isinstance(c.func, ast.Name) and c.func.id == "getattr" and len(c.args) >= 2 and
                   not isinstance(c.args[1], ast.Constant) for c in A.calls(n.ast.value))]
    rep.floor("R09.4", "class lookups in vinegar.load", len(lookups), 2)
    for n in lookups:
        c = cond_names(Q.dominating_conditions(gl, n, doml))
        src = A.src(n.ast.value)
        if "sys.modules" in src:
            ok = c.get("instantiate_custom_exceptions") is True
            rep.ob("R09.4", "vinegar.load: classes of arbitrary loaded modules are used only under instantiate_custom_exceptions",
                   ok, "dominated by `instantiate_custom_exceptions`" if ok else
                   "a class from any loaded module is looked up without the instantiate_custom_exceptions switch", ctx.loc(n))
        else:
            target = A.src([cc for cc in A.calls(n.ast.value) if A.call_name(cc) == "getattr"][0].args[0])
            mcn = None
            for nn in A.walk(fl.node):
                if isinstance(nn, ast.Assign) and isinstance(nn.targets[0], ast.Tuple) and len(nn.targets[0].elts) == 4 and \
                        isinstance(nn.targets[0].elts[0], ast.Tuple) and len(nn.targets[0].elts[0].elts) == 2:
                    mcn = A.src(nn.targets[0].elts[0].elts[0])
            okb = target == "exceptions_module" and any(
                k.replace(" ", "") in ("%s==exceptions_module.__name__" % mcn, "exceptions_module.__name__==%s" % mcn)
                and v is True for k, v in c.items())
            rep.ob("R09.4", "vinegar.load: with custom exceptions off only the builtins module is consulted, and only for its own name",
                   okb, "getattr(exceptions_module, clsname) under `modname == exceptions_module.__name__`" if okb else
                   "the default class lookup `%s` is not restricted to the builtins module named by the payload" % src, ctx.loc(n))
    for n in lookups:
        for cc in A.calls(n.ast.value):
            if A.call_name(cc) == "getattr" and len(cc.args) >= 2 and not isinstance(cc.args[1], ast.Constant):
                tot = len(cc.args) == 3
                rep.ob("R09.4", "vinegar.load: `%s` cannot fail for an unknown name" % A.norm(cc)[:50], tot,
                       "getattr with a default" if tot else
                       "the class lookup has no default: a record naming a class that is not an attribute of the loaded module "
                       "(nested/dynamic classes, version skew) raises AttributeError out of _dispatch - the response is never "
                       "delivered to its request", ctx.loc(cc))
    gen = [n for n in gl.live if n.kind == "stmt" and n.ast is not None and any(
        len(c.args) == 3 and isinstance(c.args[1], ast.Tuple) for c in A.calls(n.ast))]
    mc = None
    for n in A.walk(fl.node):
        if isinstance(n, ast.Assign) and isinstance(n.targets[0], ast.Tuple) and len(n.targets[0].elts) == 4 and \
                isinstance(n.targets[0].elts[0], ast.Tuple) and len(n.targets[0].elts[0].elts) == 2:
            mc = [A.src(x) for x in n.targets[0].elts[0].elts]
    rdl = Q.ReachingDefs(gl)
    okn = bool(gen) and mc is not None
    for n in gen:
        for c in A.calls(n.ast):
            if len(c.args) == 3 and isinstance(c.args[1], ast.Tuple):
                nm = K.resolve_expr(rdl, n, c.args[0])
                while isinstance(nm, ast.Call) and A.call_name(nm) == "str" and len(nm.args) == 1:
                    nm = nm.args[0]
                same_ = mc is not None and A.src(nm) == "'%%s.%%s' %% (%s, %s)" % (mc[0], mc[1])
                if mc is not None and not same_:
                    # however it is spelled (%-formatting, str.format, f-string, concatenation): evaluated on sample names
                    try:
                        from .. import miniinterp as MIn
                        same_ = MIn.eval_expr(nm, {"__globals__": {mc[0]: "pkg.mod", mc[1]: "Cls"}}) == "pkg.mod.Cls"
                    except (MIn.Raised, AnalysisError):
                        same_ = False
                okn = okn and same_
    rep.ob("R09.4", "vinegar.load: the generic stand-in is named '<module>.<class>' after the original", okn and bool(gen),
           "named '%s.%s' % (module name, class name) of the payload" if okn else "the stand-in class is not named after the original", fl.loc,
           kind="site")

    # ------------------------------------------------------------------ R09.5
    K.share(ctx, rep, "c07", lambda o: o.rule == "R07.5", "R09.5", floor=4)

    # ------------------------------------------------------------------ R09.6
    fg = ctx.func(V + "._get_exception_class")
    gp = A.params(fg.node)[0]
    classes = [n for n in A.walk(fg.node) if isinstance(n, ast.ClassDef)]
    okb = len(classes) == 1 and [A.src(b) for b in classes[0].bases] == [gp]
    rep.ob("R09.6", "_get_exception_class: the rebuilt class derives from the original (except-clauses match)", okb,
           "class Derived(%s)" % gp if okb else "the wrapper class does not derive from the original class", fg.loc)
    if classes:
        dn = classes[0].name
        sets = {}
        for n in A.walk(fg.node):
            if isinstance(n, ast.Assign) and isinstance(n.targets[0], ast.Attribute) and A.src(n.targets[0].value) == dn:
                sets[n.targets[0].attr] = A.src(n.value)
        for attr in ("__name__", "__module__"):
            ok = sets.get(attr) == "%s.%s" % (gp, attr)
            rep.ob("R09.6", "_get_exception_class: the rebuilt class carries the original %s" % attr, ok,
                   "%s.%s = %s.%s" % (dn, attr, gp, attr) if ok else
                   "%s.%s is %s: when the exception travels a second hop it is described under the wrong %s and arrives as "
                   "a different class" % (dn, attr, sets.get(attr, "not set"), attr.strip("_")), fg.loc, kind="site")
        rets = [n for n in A.walk(fg.node) if isinstance(n, ast.Return) and n.value is not None]
        okr = any(A.src(r.value) == dn for r in rets)
        rep.ob("R09.6", "_get_exception_class: returns the derived class", okr, "return %s" % dn if okr else "does not return "
               "the derived class", fg.loc, kind="site")
        strm = [m for m in classes[0].body if isinstance(m, ast.FunctionDef) and m.name == "__str__"]
        oks = bool(strm) and "_remote_tb" in A.src(strm[0]) and any(
            isinstance(n, ast.If) and "hasattr" in A.src(n.test) and "_remote_tb" in A.src(n.test) for n in A.walk(strm[0]))
        rep.ob("R09.6", "Derived.__str__: the remote traceback is appended only when present", oks,
               "guarded by hasattr(self, '_remote_tb')" if oks else "__str__ no longer guards the remote traceback", fg.loc,
               kind="site")
    # load(): args and attributes restored on the instance
    src_l = A.src(fl.node)
    un = [n for n in A.walk(fl.node) if isinstance(n, ast.Assign) and isinstance(n.targets[0], ast.Tuple)
          and len(n.targets[0].elts) == 4]
    oku = bool(un)
    names = None
    if oku:
        e = un[0].targets[0].elts
        names = (A.src(e[1]), A.src(e[2]), A.src(e[3]))
    argset = [n for n in A.walk(fl.node) if isinstance(n, ast.Assign) and isinstance(n.targets[0], ast.Attribute)
              and n.targets[0].attr == "args"]
    oka = oku and len(argset) == 1 and A.src(argset[0].value) == names[0]
    rep.ob("R09.6", "vinegar.load: the instance gets the transmitted args", bool(oka),
           "exc.args = args" if oka else "the transmitted argument tuple is not assigned to .args", fl.loc, kind="site")
    loops = [n for n in A.walk(fl.node) if isinstance(n, ast.For) and names and A.src(n.iter) == names[1]]
    okl = False
    if loops:
        lp = loops[0]
        sa = [c for c in A.find_calls(lp, "setattr")]
        tr = [n for n in A.walk(lp) if isinstance(n, ast.Try)]
        okl = len(sa) == 1 and isinstance(lp.target, ast.Tuple) and \
            [A.src(x) for x in sa[0].args[1:]] == [A.src(x) for x in lp.target.elts] and bool(tr) and \
            any(A.src(h.type) == "AttributeError" for h in tr[0].handlers if h.type is not None)
    rep.ob("R09.6", "vinegar.load: every transmitted attribute is set on the instance (read-only ones tolerated)", okl,
           "for name, attrval in attrs: setattr(exc, name, attrval) inside try/except AttributeError" if okl else
           "the transmitted attributes are not restored one by one", fl.loc, kind="site")
    tbset = [n for n in A.walk(fl.node) if isinstance(n, ast.Assign) and isinstance(n.targets[0], ast.Attribute)
             and n.targets[0].attr == "_remote_tb"]
    okt = len(tbset) == 1 and names and A.src(tbset[0].value) == names[2]
    deferred_tb = None
    if okt:
        rep.ob("R09.6", "vinegar.load: the remote traceback text is attached", True, "exc._remote_tb = tbtext", fl.loc, kind="site")
    else:
        # not in the plain form: decided by the load model below (R09.11 compares the restored traceback text)
        deferred_tb = fl.loc

    # ------------------------------------------------------------------ R09.7
    STOP = ctx.const("rpyc.core.consts", "EXC_STOP_ITERATION")
    okd = False
    for n in g.live:
        if n.kind == "stmt" and isinstance(n.ast, ast.Return) and ctx.try_fold(n.ast.value) == STOP and \
                not isinstance(n.ast.value, ast.Tuple):
            c = cond_names(Q.dominating_conditions(g, n, dom))
            okd = c.get("%s is StopIteration" % prm[0]) is True
    rep.ob("R09.7", "vinegar.dump: the fast-path constant is sent exactly for StopIteration", okd,
           "`if typ is StopIteration: return EXC_STOP_ITERATION`" if okd else "the fast path is not guarded by `typ is StopIteration`",
           fd.loc)
    okl = False
    lp = A.params(fl.node)[0]
    for n in gl.live:
        if n.kind == "stmt" and isinstance(n.ast, ast.Return) and A.src(n.ast.value) == "StopIteration":
            for t, pol in Q.dominating_conditions(gl, n, doml):
                if pol and isinstance(t.ast, ast.Compare) and A.src(t.ast.left) == lp and ctx.try_fold(t.ast.comparators[0]) == STOP:
                    okl = True
    rep.ob("R09.7", "vinegar.load: the fast-path constant maps back to StopIteration", okl,
           "`if val == EXC_STOP_ITERATION: return StopIteration`" if okl else "the constant is not mapped back to StopIteration",
           fl.loc)

    K.share(ctx, rep, "c08", lambda o: o.rule == "R08.1" and (o.key.startswith("_dispatch_request: failure of") or
                                                              "configured local propagation" in o.key), "R09.8", floor=4)
    K.share(ctx, rep, "c16", lambda o: o.rule == "R16.3" and "rpyc.core.vinegar" in o.key, "R09.9", floor=1)
    # the exception object the caller gets is the one rebuilt from the reply, every time it is asked for, and the reply describes
    # the exception just caught (not connection-wide state another thread may have replaced)
    K.share(ctx, rep, "c01", lambda o: o.rule == "R01.4" and ("AsyncResult.value" in o.key or "exception reply describes" in o.key or
                                                             "exception object the reply carries" in o.key), "R09.8", floor=2)
    K.share(ctx, rep, "c13", lambda o: o.rule == "R13.5" and "written only by" in o.key, "R09.8", floor=1)
    _dump_record_model(ctx, rep)
    if deferred_tb is not None:
        m_ok = [o for o in rep.obs if o.rule == "R09.11"]
        decided = bool(m_ok) and all(o.ok for o in m_ok)
        rep.ob("R09.6", "vinegar.load: the remote traceback text is attached", decided,
               "restored on the model records (R09.11)" if decided else "_remote_tb is not set from the transmitted text", deferred_tb,
               kind="model" if decided else "site")


def _dump_record_model(ctx, rep):
    """R09.10: vinegar.dump evaluated (sa/miniinterp.py) on a model exception whose public attributes cover the value corners:
    None / False / 0 / '' (falsy but transmitted), an unencodable object (repr), a listed name whose getattr fails (skipped),
    private and ignored names (skipped)."""
    from .. import miniinterp as MI
    rep.rule("R09.10", "the record carries the arguments and every readable public attribute with its value (None and other falsy "
                       "values included), unencodable ones as repr; only unreadable, private and ignored names are left out")
    fd = ctx.func(V + ".dump")
    rep.analysed(fd)
    OBJ = MI.ModelObj("unencodable object")
    ECLS = MI.ModelObj("class AppError", {"__module__": "app.errors", "__name__": "AppError"})
    table = {"args": (1, "x", OBJ, None), "code": 5, "detail": None, "empty": "", "flag": False, "obj": OBJ, "zero": 0,
             "trace": "t", "back": 7, "it": 1, "w": 2, "tb": "user text", "remote": 3,   # (pieces of the ignored names)
             "_private": 1, "__dunder__": 2, "with_traceback": "bound method", "_remote_tb": "old text"}
    listing = sorted(list(table) + ["ghost"])

    class _Exc:
        mi_native = True
        args = table["args"]
    val = _Exc()

    def g_getattr(o, name, *dflt):
        if o is val:
            if name in table:
                return table[name]
            if dflt:
                return dflt[0]
            raise MI.Raised("AttributeError")
        if isinstance(o, MI.ModelObj):
            if name in o.attrs:
                return o.attrs[name]
            if dflt:
                return dflt[0]
            raise MI.Raised("AttributeError")
        raise AnalysisError("getattr on an unexpected object")

    def dumpable(x):
        return x is None or (type(x) in (int, str, bool, float, bytes)) or (type(x) is tuple and all(dumpable(i) for i in x))

    class _NS:
        mi_native = True

        def __init__(self, **kw):
            self.__dict__.update(kw)
    STOP = MI.ModelObj("class StopIteration")
    glob = {"StopIteration": STOP, "str": str, "consts": _NS(EXC_STOP_ITERATION="EXC_STOP_ITERATION"),
            "version": _NS(version_string="VERSION"), "brine": _NS(dumpable=dumpable),
            "traceback": _NS(format_exception=lambda *a: ["TB-", "TEXT"])}
    hooks = {"dir": lambda o: list(listing), "getattr": g_getattr, "repr": lambda o: "repr:%s" % getattr(o, "name", o),
             "brine.dumpable": dumpable, "type": lambda o: "type-of-%s" % getattr(o, "name", o),
             "hasattr": lambda o, n: n in table}
    bad = []
    rows = 0
    hooks["str"] = lambda o=None: "TEXT FROM __str__ (may quote a relayed traceback)" if o is val else str(o)
    hooks["format"] = lambda o, *a: "TEXT FROM __format__" if o is val else format(o, *a)
    try:
        for tbflag, verflag, the_args in ((True, True, table["args"]), (True, False, table["args"]), (False, True, table["args"]),
                                          (False, False, table["args"]), (False, False, ())):
            if True:
                rows += 1
                table["args"] = the_args
                _Exc.args = the_args
                extra = {"__calls__": hooks, "__globals__": glob, "__max_iter__": 200}
                extra["__global_lookup__"] = K.module_function_lookup(ctx, fd.module, extra)
                got = MI.call_function(fd.node, [ECLS, val, "TRACEBACK", tbflag, verflag], extra)
                want_attrs = [(n, ("repr:unencodable object" if table[n] is OBJ else table[n]))
                              for n in listing if n in table and n != "args" and not n.startswith("_") and n != "with_traceback"]
                want_attrs.append(("_remote_version", "VERSION" if verflag else "<version denied>"))
                want = (("app.errors", "AppError"), tuple("repr:unencodable object" if a_ is OBJ else a_ for a_ in the_args), tuple(want_attrs),
                        "TB-TEXT" if tbflag else "<traceback denied>")
                if got != want:
                    if isinstance(got, tuple) and len(got) == 4:
                        ga = dict(got[2]) if all(isinstance(x, tuple) and len(x) == 2 for x in got[2]) else {}
                        lost = [n for n, _ in want_attrs if n not in ga]
                        extra_ = [n for n in ga if n not in dict(want_attrs)]
                        diff = [n for n, v in want_attrs if n in ga and ga[n] != v]
                        bad.append("traceback=%s version=%s: %s" % (tbflag, verflag, "; ".join(x for x in (
                            "attribute(s) %s are not transmitted" % lost if lost else "",
                            "name(s) %s are transmitted although private/ignored/unreadable" % extra_ if extra_ else "",
                            "attribute(s) %s carry another value" % diff if diff else "",
                            "args are %r" % (got[1],) if got[1] != want[1] else "",
                            "class id is %r" % (got[0],) if got[0] != want[0] else "",
                            "traceback text is %r" % (got[3],) if got[3] != want[3] else "") if x) or "order of attributes differs"))
                    else:
                        bad.append("traceback=%s version=%s: the record is %r" % (tbflag, verflag, got))
    except MI.Raised as r_:
        bad.append("vinegar.dump raises %s on the model exception" % r_.name)
    except AnalysisError as e_:
        rep.undecided("R09.10", "vinegar.dump model", str(e_))
        return
    rep.ob("R09.10", "vinegar.dump: record of the model exception (args, public attributes incl. None/False/0/'', repr of unencodable "
           "values; unreadable/private/ignored names skipped)", not bad,
           "%d switch combinations give the expected record" % rows if not bad else "; ".join(bad[:2]), fd.loc, kind="table")
    _load_record_model(ctx, rep)


def _load_record_model(ctx, rep):
    """R09.11: vinegar.load evaluated (sa/miniinterp.py) on model records and model classes: which class the instance gets under
    each combination of switches, that the arguments and EVERY transmitted attribute are restored (also those the class already
    defines at class level - errno, filename, code ... are class-level descriptors of the built-ins), that read-only ones are
    tolerated, and that nothing is imported unless import_custom_exceptions is set."""
    from .. import miniinterp as MI
    rep.rule("R09.11", "the rebuilt exception: class by the switches, args and every transmitted attribute restored, remote traceback "
                       "attached, no import without the switch")
    fl = ctx.func(V + ".load")
    rep.analysed(fl)

    class _Cls:
        mi_native = True

        def __new__(klass, *a, **k):
            if isinstance(klass, _Cls):            # the model's `cls.__new__(cls)`
                return _Inst(klass)
            return object.__new__(klass)

        def __init__(self, name, module, base=None, is_exc=True, class_attrs=(), readonly=()):
            self.__dict__.update(name=name, module=module, base=base, is_exc=is_exc, class_attrs=set(class_attrs),
                                 readonly=set(readonly))

        def root(self):
            c = self
            while c.base is not None:
                c = c.base
            return c

        def has(self, n):
            c = self
            while c is not None:
                if n in c.class_attrs:
                    return True
                c = c.base
            return n in ("args", "with_traceback", "__str__", "__name__", "__module__")

    class _Inst:
        mi_native = True

        def __init__(self, cls):
            self.__dict__["cls"] = cls
            self.__dict__["attrs"] = {}

        def mi_setattr(self, n, v):
            c = self.cls
            while c is not None:
                if n in c.readonly:
                    raise MI.Raised("AttributeError")
                c = c.base
            self.attrs[n] = v
    GENERIC = _Cls("GenericException", "rpyc.core.vinegar")
    OSE = _Cls("OSError", "builtins", class_attrs=("errno", "filename", "strerror", "characters_written"), readonly=("characters_written",))
    NOTEXC = _Cls("int", "builtins", is_exc=False)
    APP = _Cls("AppError", "app.errors", class_attrs=("retry_after",))
    BUILTINS = MI.ModelObj("module builtins", {"__name__": "builtins", "OSError": OSE, "int": NOTEXC})
    APPMOD = MI.ModelObj("module app.errors", {"__name__": "app.errors", "AppError": APP})

    class _NS:
        mi_native = True

        def __init__(self, **kw):
            self.__dict__.update(kw)
    TYPE = MI.ModelObj("type")
    ATTRS = (("errno", 2), ("filename", "/x"), ("strerror", None), ("characters_written", 9), ("detail", 0), ("_remote_version", "5.0.1"))
    bad = []
    rows = 0
    try:
        for modname, clsname, loaded, imp_sw, inst_sw, import_fails in (
                ("builtins", "OSError", True, False, False, False), ("builtins", "OSError", True, True, True, False),
                ("app.errors", "AppError", True, False, False, False), ("app.errors", "AppError", True, False, True, False),
                ("app.errors", "AppError", False, False, True, False), ("app.errors", "AppError", False, True, True, False),
                ("app.errors", "AppError", False, True, True, True), ("builtins", "int", True, False, True, False),
                ("builtins", "NoSuchThing", True, False, False, False)):
            rows += 1
            modules = {"builtins": BUILTINS}
            if loaded:
                modules["app.errors"] = APPMOD
            imports = []
            derived = {}

            def do_import(name, *a, modules=modules, imports=imports, import_fails=import_fails, **_kw):
                imports.append(name)
                if import_fails:
                    raise MI.Raised("RuntimeError")
                if name == "app.errors":
                    modules[name] = APPMOD

            def g_getattr(o, n, *d):
                if isinstance(o, MI.ModelObj):
                    if n in o.attrs:
                        return o.attrs[n]
                elif isinstance(o, _Inst):
                    if n in o.attrs:
                        return o.attrs[n]
                elif isinstance(o, _Cls):
                    if n == "__name__":
                        return o.name
                    if n == "__module__":
                        return o.module
                if d:
                    return d[0]
                raise MI.Raised("AttributeError")

            def g_type(*a):
                if len(a) == 1:
                    return a[0].cls if isinstance(a[0], _Inst) else TYPE if isinstance(a[0], _Cls) else type(a[0])
                name, bases, ns = a
                return _Cls(name, ns.get("__module__"), base=bases[0] if bases else None)
            hooks = {"__import__": do_import, "importlib.import_module": do_import, "getattr": g_getattr, "type": g_type,
                     "importlib.util.find_spec": do_import, "find_spec": do_import, "importlib.find_loader": do_import,
                     "pkgutil.find_loader": do_import, "import_module": do_import,
                     "issubclass": lambda c, b: isinstance(c, _Cls) and c.root().is_exc,
                     "setattr": lambda o, n, v: o.mi_setattr(n, v),
                     "hasattr": lambda o, n: (o.has(n) if isinstance(o, _Cls) else (n in o.attrs or o.cls.has(n)) if isinstance(o, _Inst)
                                              else n in getattr(o, "attrs", {})),
                     "_get_exception_class": lambda c: derived.setdefault(c.name, _Cls("Derived", c.module, base=c)),
                     "ClassType": g_type, "InstanceType": lambda c: _Inst(c), "str": str}
            glob = {"sys": _NS(modules=modules), "exceptions_module": BUILTINS, "_generic_exceptions_cache": {},
                    "GenericException": GENERIC, "consts": _NS(EXC_STOP_ITERATION="EXC_STOP_ITERATION"), "ClassType": g_type, "type": g_type,
                    "StopIteration": MI.ModelObj("class StopIteration"), "str": str, "BaseException": MI.ModelObj("BaseException"),
                    "version": _NS(version=(5, 0, 1), version_string="5.0.1"), "__name__": "rpyc.core.vinegar"}
            extra = {"__calls__": hooks, "__globals__": glob, "__max_iter__": 300,
                     "__isinstance__": lambda v, tn: isinstance(v, _Cls) if tn.strip() == "type" else False}
            extra["__global_lookup__"] = K.module_function_lookup(ctx, fl.module, extra)
            rec = ((modname, clsname), (2, "msg"), ATTRS, "REMOTE-TB")
            try:
                got = MI.call_function(fl.node, [rec, imp_sw, inst_sw, False], extra)
            except MI.Raised as r_:
                bad.append("%s.%s (import=%s, instantiate=%s%s): load raises %s" % (
                    modname, clsname, imp_sw, inst_sw, ", the import fails" if import_fails else "", r_.name))
                continue
            label = "%s.%s (module %s, import=%s, instantiate=%s%s)" % (modname, clsname, "loaded" if loaded else "not loaded", imp_sw,
                                                                       inst_sw, ", the import fails" if import_fails else "")
            if not isinstance(got, _Inst):
                bad.append("%s: load returns %r" % (label, got))
                continue
            # expected class
            avail = loaded or (imp_sw and not import_fails)
            if clsname == "OSError":
                want_root = OSE
            elif clsname == "AppError" and inst_sw and avail:
                want_root = APP
            else:
                want_root = GENERIC
            chain = []
            c = got.cls
            while c is not None:
                chain.append(c)
                c = c.base
            if chain[-1] is not want_root or chain[0].name != "Derived":
                bad.append("%s: the instance is a %s, expected the wrapper of %s" % (label, " <- ".join(x.name for x in chain), want_root.name))
            if want_root is GENERIC and len(chain) >= 2 and chain[-2].name != "%s.%s" % (modname, clsname):
                bad.append("%s: the stand-in is named %r" % (label, chain[-2].name))
            want_attrs = {n: v for n, v in ATTRS if not (n == "characters_written" and want_root is OSE)}
            ga = {k: v for k, v in got.attrs.items() if k not in ("args", "_remote_tb")}
            if ga != want_attrs:
                lost = sorted(set(want_attrs) - set(ga))
                bad.append("%s: attributes restored %s%s" % (label, sorted(ga), " - %s transmitted but not restored" % lost if lost else ""))
            if got.attrs.get("args") != (2, "msg"):
                bad.append("%s: args are %r" % (label, got.attrs.get("args")))
            if not str(got.attrs.get("_remote_tb", "")).startswith("REMOTE-TB"):
                bad.append("%s: the remote traceback text is %r" % (label, got.attrs.get("_remote_tb")))
            want_imp = [modname] if (imp_sw and not loaded) else []
            if imports != want_imp:
                bad.append("%s: imports %s, expected %s" % (label, imports, want_imp))
    except AnalysisError as e_:
        rep.undecided("R09.11", "vinegar.load model", str(e_))
        return
    rep.ob("R09.11", "vinegar.load: class by the switches; args, every transmitted attribute and the remote traceback restored; imports "
           "only under the switch", not bad, "%d records x switch combinations agree with the reference" % rows if not bad else
           "; ".join(bad[:3]), fl.loc, kind="table")

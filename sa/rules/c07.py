"""C07 - a hostile peer cannot step outside what the service exposes.

Effect/capability analysis of everything reachable from Connection._dispatch under the default configuration
(R07.1-R07.7). What exposed service code itself does is out of scope."""
import ast

from .. import astutil as A
from .. import callgraph
from .. import cfgq as Q
from ..loader import AnalysisError
from ..report import Report
from . import c06
from . import common as K

DANGEROUS = {"pickle.dumps", "pickle.loads", "pickle.load", "pickle.dump", "__import__", "eval", "exec", "compile",
             "execute", "os.system", "os.popen", "marshal.loads", "importlib.import_module",
             # import by name, in disguise: these import every module on the dotted path they are given
             "pkgutil.resolve_name", "pkgutil.find_loader", "pkgutil.get_loader", "pydoc.locate", "runpy.run_module",
             "runpy.run_path", "imp.load_module", "imp.find_module", "zipimport.zipimporter"}
DANGEROUS_PREFIX = ("subprocess.", "importlib.", "ctypes.", "runpy.")
FRESH_FIELDS = ["_local_objects", "_proxy_cache", "_netref_classes_cache", "_request_callbacks", "_send_queue", "_config"]


def is_dangerous(d):
    if d is None:
        return False
    return d in DANGEROUS or d.startswith(DANGEROUS_PREFIX) or d.split(".")[-1] in ("__import__",)


def run(ctx, rep):
    rep.rule("R07.1", "dispatch table integrity: one handler per published id, every emitter id exists, malformed requests and "
                      "unknown kinds/labels raise inside the replying try")
    rep.rule("R07.2", "capability discipline: identifiers become objects only through this connection's own tables, which are "
                      "fresh instance fields; no introspective back doors in handler-reachable code")
    rep.rule("R07.3", "mediated attribute access (= R06.1 + R06.2)")
    rep.rule("R07.4", "dangerous sinks (pickle, import, eval/exec, subprocess) reachable from _dispatch are dominated by a "
                      "configuration guard whose default is False")
    rep.rule("R07.5", "the exception loader never runs a constructor and only instantiates vetted BaseException subclasses")
    rep.rule("R07.6", "no lookup of a peer-chosen name on a module/class outside the policy or the vetted exception path")
    rep.rule("R07.7", "the wire decoder is effect-free (= R04.7)")
    rep.rule("R07.8", "exception replies disclose only what the policy would: public attributes, gated traceback/version (= R09.1, R09.2); a forged exception reply is answered, never re-raised out of serve() (= R08.1)")
    rep.assume("calls on peer-supplied objects (obj(*args)) are external by design: what exposed service code does is out of scope",
               "resource exhaustion is out of scope", "the default configuration is the DEFAULT_CONFIG literal (folded)")
    cg = callgraph.get(ctx)
    defaults = ctx.const(K.PROTO, "DEFAULT_CONFIG")
    table, rows = c06.handler_table(ctx)

    # ------------------------------------------------------------------ R07.1
    consts_mod = ctx.module("rpyc.core.consts")
    handle_consts = {n: ctx.const("rpyc.core.consts", n) for n in consts_mod.toplevel if n.startswith("HANDLE_")}
    rep.floor("R07.1", "HANDLE_* constants", len(handle_consts), 20)
    ids = [hid for hid, _, _, _ in rows]
    dup = sorted({i for i in ids if ids.count(i) > 1})
    rep.ob("R07.1", "dispatch table: handler ids are pairwise distinct", not dup and None not in ids,
           "%d entries, distinct ids" % len(ids) if not dup else "id(s) %s appear twice in the table: the later entry silently "
           "replaces the earlier" % dup, ctx.loc(table), kind="table")
    vals = sorted(handle_consts.values())
    dupc = sorted({v for v in vals if vals.count(v) > 1})
    rep.ob("R07.1", "consts: HANDLE_* values are pairwise distinct", not dupc,
           "%d constants" % len(vals) if not dupc else "two handler constants share the value(s) %s" % dupc,
           "rpyc/core/consts.py", kind="table")
    missing = sorted(n for n, v in handle_consts.items() if v not in ids)
    rep.ob("R07.1", "dispatch table: every HANDLE_* constant has an entry", not missing,
           "all %d constants are served" % len(handle_consts) if not missing else "no handler registered for %s" % missing,
           ctx.loc(table), kind="table")
    conn = ctx.cls(K.CONN)
    registered = {name for _, name, _, _ in rows}
    unreg = sorted(n for n in conn.methods if n.startswith("_handle_") and n not in registered)
    rep.ob("R07.1", "dispatch table: every _handle_* method is registered", not unreg,
           "%d handler methods" % len(registered) if not unreg else "handler method(s) %s are not in the table" % unreg,
           ctx.loc(table), kind="table")
    unresolved = [name for _, name, f, _ in rows if f is None]
    rep.ob("R07.1", "dispatch table: every entry names an existing method", not unresolved,
           "all entries resolve" if not unresolved else "entries without a method: %s" % unresolved, ctx.loc(table), kind="table")
    from . import c19
    used = set()
    n_em = 0
    for f in ctx.repo.funcs.values():
        for c, v, rest in c19.request_ids(ctx, f.node):
            if v is not None:
                n_em += 1
                used.add(v)
                if v not in ids:
                    rep.ob("R07.1", "emitter `%s` uses a served handler id" % A.norm(c)[:50], False,
                           "handler id %r is sent but not in the dispatch table" % v, ctx.loc(c), kind="table")
    rep.floor("R07.1", "request-emitting call sites with a constant handler id", n_em, 25)
    sub = Report("C08", rep.tier)
    from . import c08
    c08.run(ctx, sub)
    n = 0
    for o in sub.obs:
        if o.rule == "R08.1" and o.key.startswith("_dispatch_request: failure of"):
            n += 1
            rep.ob("R07.1", o.key, o.ok, o.msg, o.loc, o.witness)
        if o.rule == "R08.3" and "unknown message kinds" in o.key:
            rep.ob("R07.1", o.key, o.ok, o.msg, o.loc, o.witness, kind="site")
    rep.floor("R07.1", "peer-data statements covered by the replying try", n, 3)
    um = K.unbox_model(ctx)
    fu, gu = um.f, um.g
    okl = not um.returns("<other>") and bool(um.raises("<other>"))
    rep.ob("R07.1", "_unbox: unknown labels raise", okl, "for a label outside the four published ones only a raise is reachable"
           if okl else "_unbox returns normally for an unknown boxing label", fu.loc)

    # ------------------------------------------------------------------ R07.2
    init = ctx.func(K.CONN + ".__init__")
    for fld in FRESH_FIELDS:
        ctor = K.init_field_ctor(ctx, K.CONN, fld)
        fresh = ctor is not None and (isinstance(ctor, (ast.Dict, ast.List, ast.Set)) or (
            isinstance(ctor, ast.Call) and not isinstance(ctor.func, ast.Subscript)))
        if fld == "_config" and fresh:
            # the configuration must be a *copy*: a view layered over the caller's dict or over the defaults (ChainMap, proxy types)
            # writes through to an object other connections are built from
            fresh = isinstance(ctor, ast.Call) and ((isinstance(ctor.func, ast.Attribute) and ctor.func.attr in ("copy",)) or
                                                    A.call_name(ctor) in ("dict", "copy.copy", "copy.deepcopy"))
        shared_cls = fld in conn.attrs
        rep.ob("R07.2", "Connection.%s is a fresh per-connection object" % fld, fresh and not shared_cls,
               "bound in __init__ to `%s`" % A.src(ctor) if fresh and not shared_cls else
               "self.%s is %s: identifiers/objects of one connection become usable on another" % (
                   fld, "a class attribute" if shared_cls else "bound to `%s`" % (A.src(ctor) if ctor is not None else None)),
               ctx.loc(ctor) if ctor is not None else init.loc, kind="site")
    # module-level mutable tables in protocol.py other than DEFAULT_CONFIG / id generator
    pm = ctx.module(K.PROTO)
    glob_tables = [n for n, exprs in pm.toplevel.items() if any(
        isinstance(e, (ast.Dict, ast.List, ast.Set)) or (isinstance(e, ast.Call) and A.call_name(e) in
                                                        ("dict", "list", "set", "WeakValueDict", "RefCountingColl"))
        for e in exprs)]
    # constant keyword tables (string keys, plain names/constants as values, nothing in the package stores into them) hold no
    # per-connection objects
    from .. import callforms as _CF
    glob_tables = [n for n in glob_tables if n not in _CF.constant_tables(ctx.repo).get(K.PROTO, set())]
    okg = set(glob_tables) <= {"DEFAULT_CONFIG"}
    rep.ob("R07.2", "protocol module: no module-level object table", okg,
           "module-level mutable objects: %s" % sorted(glob_tables) if okg else
           "protocol.py defines module-level mutable table(s) %s shared by all connections" % sorted(set(glob_tables) - {"DEFAULT_CONFIG"}),
           pm.relpath, kind="site")
    # only _unbox / _handle_inspect / _handle_del resolve identifiers, and only through self._local_objects
    closure = cg.closure([K.CONN + "._dispatch"], nested=False)
    rep.floor("R07.2", "functions reachable from _dispatch", len(closure), 60)
    backdoors = []
    for q in sorted(closure):
        f = ctx.repo.funcs[q]
        for c in A.calls(f.node):
            d = A.call_name(c) or ""
            if d in ("globals", "locals", "vars") or d.startswith(("gc.", "ctypes.")) or d == "id" and False:
                if d == "vars" or d in ("globals", "locals"):
                    backdoors.append((c, d))
                elif d.startswith(("gc.get_objects", "gc.get_referrers", "gc.get_referents", "ctypes.")):
                    backdoors.append((c, d))
    rep.ob("R07.2", "handler-reachable code has no introspective back door", not backdoors,
           "no globals()/locals()/vars()/gc.get_objects/ctypes in the %d functions reachable from _dispatch" % len(closure)
           if not backdoors else "; ".join("%s at %s" % (d, ctx.loc(c)) for c, d in backdoors),
           ctx.loc(backdoors[0][0]) if backdoors else ctx.func(K.CONN + "._dispatch").loc, kind="site")
    # LOCAL_REF resolves through the per-connection table only
    okref = False
    rl = um.returns("LABEL_LOCAL_REF")
    if len(rl) == 1:
        v = rl[0].ast.value
        okref = isinstance(v, ast.Subscript) and K.self_attr(v.value, "_local_objects") is not None and \
            A.src(v.slice) == um.names[1]
    rep.ob("R07.2", "_unbox: a local-reference label resolves only through this connection's own object table", okref,
           "returns self._local_objects[value]" if okref else
           "a LABEL_LOCAL_REF is not resolved by a plain lookup in self._local_objects", fu.loc)

    # ------------------------------------------------------------------ R07.3
    c06.check_mediation(ctx, rep, "R07.3", "R07.3")
    K.share(ctx, rep, "c06", lambda o: o.rule == "R06.3", "R07.3", floor=1)
    K.share(ctx, rep, "c06", lambda o: o.rule == "R06.7" and ("Server" in o.key) or (o.rule == "R06.6" and "default to the readable" in o.key),
            "R07.3", floor=1)
    K.share(ctx, rep, "c02", lambda o: o.rule in ("R02.1", "R02.2") and "through the policy" in o.key, "R07.3", floor=2)
    K.share(ctx, rep, "c03", lambda o: o.rule == "R03.3" and "resolves only through" in o.key, "R07.2", floor=1)

    # ------------------------------------------------------------------ R07.4
    n_sinks = 0
    for q in sorted(closure):
        f = ctx.repo.funcs[q]
        sinks = [c for c in A.calls(f.node) if is_dangerous(A.call_name(c))]
        if not sinks:
            continue
        g = ctx.cfg(f, raises="default")
        rep.analysed(f, g)
        domf = Q.dominators(g)
        prm = A.params(f.node)
        for c in sinks:
            n_sinks += 1
            node = [x for x in g.live if x.ast is not None and x.kind in ("stmt", "test") and A.contains(x.ast, c)]
            if not node:
                raise AnalysisError("sink %s not found in the CFG of %s" % (A.src(c), q))
            node = node[0]
            conds = Q.dominating_conditions(g, node, domf)
            guard_keys = []
            for t, pol in conds:
                key = None
                if isinstance(t.ast, ast.Subscript) and K.self_attr(t.ast.value, "_config") is not None:
                    key = A.const_str(t.ast.slice)
                elif isinstance(t.ast, ast.Name) and t.ast.id in prm:
                    # plumbed parameter: must be fed from self._config[<same name>] at every call site (R09.3)
                    key = plumbed_key(ctx, f, t.ast.id)
                if key is not None and pol is True:
                    guard_keys.append(key)
            off = [k for k in guard_keys if k in defaults and defaults[k] is False]
            ok = bool(off)
            rep.ob("R07.4", "%s: `%s` is off by default" % (q.split(".", 2)[-1], A.call_name(c)), ok,
                   "dominated by configuration switch %s whose default folds to False" % off if ok else
                   "`%s` is reachable from a peer message without a dominating configuration guard that defaults to False "
                   "(guards seen: %s)" % (A.call_name(c), guard_keys), ctx.loc(c))
    rep.floor("R07.4", "dangerous sinks reachable from _dispatch", n_sinks, 2)
    # proxy-side sinks: the method a proxy class generates for a name the peer advertises must be a plain forwarder for every
    # name the *default* policy lets the peer invoke on such a proxy; `_make_method` builds an unpickling stub for one name
    from .. import miniinterp as MIs
    fmm = ctx.func("rpyc.core.netref._make_method")
    safe = defaults.get("safe_attrs") or set()
    risky = []
    probed = 0
    try:
        for nm in sorted(safe) + ["__array__", "__call__", "plain_name"]:
            ex_mm = {}
            ex_mm["__global_lookup__"] = K.module_function_lookup(ctx, fmm.module, ex_mm)
            fo = MIs.call_function(fmm.node, [nm, "<doc>"], ex_mm)
            if not isinstance(fo, MIs.FuncObj):
                continue
            probed += 1
            sinks_ = [A.call_name(c) for c in ast.walk(fo.node) if isinstance(c, ast.Call) and is_dangerous(A.call_name(c))]
            if sinks_ and nm in safe:
                risky.append((nm, sinks_))
        rep.floor("R07.4", "generated proxy methods inspected", probed, 20)
        rep.ob("R07.4", "no name on the default safe list makes a proxy run a dangerous sink on data fetched from the peer", not risky,
               "%d generated methods are plain forwarders; the unpickling stub exists only for a name outside safe_attrs" % probed
               if not risky else
               "DEFAULT_CONFIG['safe_attrs'] contains %r, for which netref._make_method generates a stub calling %s on bytes obtained from "
               "the peer: a hostile peer that advertises the method and gets the victim to call it (HANDLE_CALLATTR on a proxy of the "
               "peer's own object) makes a default-configured process unpickle attacker-chosen data although allow_pickle is False"
               % (risky[0][0], risky[0][1]), pm.relpath, kind="table")
    except (AnalysisError, MIs.Raised) as e_:
        rep.undecided("R07.4", "the methods netref._make_method generates", str(e_))
    for k in ("allow_pickle", "import_custom_exceptions", "instantiate_custom_exceptions", "allow_all_attrs",
              "allow_public_attrs", "allow_setattr", "allow_delattr"):
        rep.ob("R07.4", "DEFAULT_CONFIG[%r] is False" % k, defaults.get(k) is False,
               "default folds to %r" % (defaults.get(k),), pm.relpath, kind="table")

    # ------------------------------------------------------------------ R07.5
    fl = ctx.func("rpyc.core.vinegar.load")
    gl = ctx.cfg(fl, raises="default")
    rep.analysed(fl, gl)
    doml = Q.dominators(gl)
    clsvars = set()
    for n in A.walk(fl.node):
        if isinstance(n, ast.Assign) and isinstance(n.value, ast.Call) and A.call_name(n.value) in ("getattr",) \
                and isinstance(n.targets[0], ast.Name) and len(n.value.args) >= 2 \
                and not isinstance(n.value.args[1], ast.Constant):
            clsvars.add(n.targets[0].id)
    rep.floor("R07.5", "class variables resolved in vinegar.load", len(clsvars), 1)
    ctor_calls = [c for c in A.calls(fl.node) if isinstance(c.func, ast.Name) and c.func.id in clsvars]
    rep.ob("R07.5", "vinegar.load never calls the resolved class", not ctor_calls,
           "no call of %s(...)" % sorted(clsvars) if not ctor_calls else
           "the peer-named exception class is called (`%s`): its __init__ runs with peer-supplied arguments" % A.src(ctor_calls[0]),
           ctx.loc(ctor_calls[0]) if ctor_calls else fl.loc, kind="site")
    news = [n for n in gl.live if n.kind == "stmt" and n.ast is not None and any(
        isinstance(c.func, ast.Attribute) and c.func.attr == "__new__" for c in A.calls(n.ast))]
    rep.floor("R07.5", "instantiation sites (cls.__new__) in vinegar.load", len(news), 1)
    # what is instantiated is always the derived wrapper class: the dispatcher decides whether to re-raise locally by class
    # IDENTITY (`t is KeyboardInterrupt`), which is safe only because a forged built-in never arrives as the exact class
    rdl = Q.ReachingDefs(gl)
    inst_sites = [n for n in gl.live if n.kind == "stmt" and n.ast is not None and any(
        (isinstance(c.func, ast.Attribute) and c.func.attr == "__new__") or A.call_name(c) == "InstanceType" for c in A.calls(n.ast))]
    unwrapped = []
    for n in inst_sites:
        for c in A.calls(n.ast):
            if (isinstance(c.func, ast.Attribute) and c.func.attr == "__new__") or A.call_name(c) == "InstanceType":
                ops_ = [a_ for a_ in ([c.func.value] if isinstance(c.func, ast.Attribute) else []) + list(c.args) if isinstance(a_, ast.Name)]
                for a_ in ops_:
                    for d_ in rdl.at(n, a_.id):
                        okd_ = d_ != "param" and d_.kind == "stmt" and isinstance(d_.ast, ast.Assign) and \
                            isinstance(d_.ast.value, ast.Call) and (A.call_name(d_.ast.value) or "").endswith("_get_exception_class")
                        if not okd_:
                            unwrapped.append((n, a_.id, d_))
    rep.ob("R07.5", "vinegar.load: the instantiated class is on every path the derived wrapper from _get_exception_class", not unwrapped,
           "%d instantiation site(s), each class operand defined by _get_exception_class(...) only" % len(inst_sites) if not unwrapped else
           "at %s the class `%s` can still be the looked-up class itself (defined at %s): a record naming KeyboardInterrupt / "
           "SystemExit with such a payload yields an instance whose type IS the built-in, which the dispatcher's identity test "
           "re-raises locally - a peer can interrupt or terminate this process" % (
               ctx.loc(unwrapped[0][0].ast), unwrapped[0][1],
               "the parameter" if unwrapped[0][2] == "param" else ctx.loc(unwrapped[0][2].ast)),
           ctx.loc(unwrapped[0][0].ast) if unwrapped else fl.loc)
    # taint: the object found under a peer-chosen name reaches a real use only through BOTH vetting tests
    lookups = [n for n in gl.live if n.kind == "stmt" and isinstance(n.ast, ast.Assign) and
               isinstance(n.ast.targets[0], ast.Name) and n.ast.targets[0].id in clsvars and
               any(isinstance(c.func, ast.Name) and c.func.id == "getattr" and len(c.args) >= 2 and
                   not isinstance(c.args[1], ast.Constant) for c in A.calls(n.ast.value))]
    rep.floor("R07.5", "peer-named class lookups in vinegar.load", len(lookups), 1)
    for lk in lookups:
        cv = lk.ast.targets[0].id

        def harmless(n):
            if n.kind == "test":
                a = n.ast
                if isinstance(a, ast.Compare) and all(isinstance(o, (ast.Is, ast.IsNot)) for o in a.ops):
                    return True
                if isinstance(a, ast.Call) and A.call_name(a) in ("isinstance", "issubclass"):
                    return True
            return False
        redefs = [n for n in gl.live if n is not lk and cv in Q.node_defs(n) and not (
            n.ast is not None and cv in A.names_loaded(n.ast))]
        uses = [n for n in gl.live if n.ast is not None and n.kind in ("stmt", "test") and n is not lk
                and cv in A.names_loaded(n.ast) and not harmless(n)]
        vet_inst = [n for n in gl.live if n.kind == "test" and any(
            len(c.args) == 2 and A.src(c.args[0]) == cv and A.src(c.args[1]) == "type" for c in A.find_calls(n.ast, "isinstance"))]
        vet_sub = [n for n in gl.live if n.kind == "test" and any(
            len(c.args) == 2 and A.src(c.args[0]) == cv and A.src(c.args[1]) in ("BaseException", "Exception")
            for c in A.find_calls(n.ast, "issubclass"))]
        for what, vets in (("isinstance(cls, type)", vet_inst), ("issubclass(cls, BaseException)", vet_sub)):
            vid = {v.id for v in vets}
            rid = {r.id for r in redefs}
            p = Q.find_path_ef(lk, lambda x: x in uses,
                               lambda a, b, l: l != "exc" and not (a.id in vid and l == "true") and a.id not in rid)
            ok = bool(vets) and p is None
            rep.ob("R07.5", "vinegar.load: `%s` reaches a use only after %s" % (A.norm(lk.ast)[:50], what), ok,
                   "every path from the lookup to a use of the class passes the positive edge of the test or replaces the "
                   "value by the generic stand-in" if ok else
                   "an object found under a peer-chosen name can be used (%s) without having passed %s"
                   % (p[-1].text()[:50] if p else "no vetting test found", what), ctx.loc(lk),
                   witness=ctx.path(p) if p else None)
    gen = [c for c in A.calls(fl.node) if len(c.args) == 3 and isinstance(c.args[1], ast.Tuple)]
    okgen = bool(gen) and all(isinstance(c.args[1], ast.Tuple) and [A.src(e) for e in c.args[1].elts] == ["GenericException"]
                              for c in gen)
    rep.ob("R07.5", "vinegar.load: stand-in classes derive from GenericException only", okgen,
           "type(fullname, (GenericException,), ...)" if okgen else "the generic stand-in is built with other base classes", fl.loc, kind="site")

    # ------------------------------------------------------------------ R07.6
    reply_roots = [K.CONN + "._unbox", K.CONN + "._unbox_exc", K.CONN + "._netref_factory",
                   K.CONN + "._handle_instancecheck", K.CONN + "._handle_inspect"]
    rclosure = cg.closure(reply_roots, nested=False)
    allowed = {
        ("rpyc.core.vinegar.load", "getattr"): "class lookup on sys.modules[...] (guarded by instantiate_custom_exceptions, default off) "
                                               "or on the builtins module; result vetted by issubclass before use (R07.5)",
        (K.CONN + "._access_attr", "getattr"): "policy gate (R06.1)",
        (K.CONN + "._check_attr", "hasattr"): "policy probes (R06.1)",
    }
    n_l = 0
    for q in sorted(rclosure):
        f = ctx.repo.funcs[q]
        if not q.startswith(("rpyc.core.",)):
            continue
        for c, kind, nm in c06.name_sinks(f.node):
            if kind in ("setattr",) and q == "rpyc.core.vinegar.load":
                continue      # attribute *values* set on the freshly created exception object (R09.6)
            n_l += 1
            ok = (q, kind) in allowed
            rep.ob("R07.6", "%s: `%s`" % (q.split(".", 2)[-1], A.norm(c)[:60]), ok,
                   allowed.get((q, kind), "") if ok else
                   "a name chosen by the peer is looked up with %s on a local module/class outside the policy gate: attribute "
                   "access on modules can run module-level __getattr__ hooks (lazy importers) - e.g. a LABEL_REMOTE_REF named "
                   "`concurrent.futures.ProcessPoolExecutor` makes a default-configured server import concurrent.futures.process"
                   % kind, ctx.loc(c))
    rep.floor("R07.6", "computed-name lookups in the reply-side closure", n_l, 2)

    # ------------------------------------------------------------------ R07.7
    from . import c04
    sub4 = Report("C04", rep.tier)
    try:
        c04.run(ctx, sub4)
    except AnalysisError:
        pass
    n7 = 0
    for o in sub4.obs:
        if o.rule == "R04.7":
            n7 += 1
            rep.ob("R07.7", o.key, o.ok, o.msg, o.loc, o.witness, o.nontrivial, o.kind)
    rep.floor("R07.7", "decoder effect obligations shared with C04", n7, 2)
    K.share(ctx, rep, "c08", lambda o: o.rule == "R08.1" and "local propagation" in o.key, "R07.8", floor=1)
    K.share(ctx, rep, "c09", lambda o: o.rule in ("R09.1", "R09.10", "R09.11") or (o.rule == "R09.2" and "public attributes" in o.key), "R07.8", floor=3)


def plumbed_key(ctx, f, param):
    """if every call site of f in the package passes `self._config["<key>"]` for `param`, return key"""
    cg = callgraph.get(ctx)
    keys = set()
    n = 0
    for q, sites in cg.sites.items():
        for c, callees in sites:
            if callees and f.qual in callees:
                n += 1
                prm = A.params(f.node)
                val = None
                caller = ctx.repo.funcs.get(q)
                for kwname, kwval in K.call_keywords(ctx, c, caller.module if caller is not None else None):
                    if kwname == param:
                        val = kwval
                if val is None and param in prm:
                    i = prm.index(param)
                    if i < len(c.args):
                        val = c.args[i]
                if isinstance(val, ast.Subscript) and K.self_attr(val.value, "_config") is not None:
                    keys.add(A.const_str(val.slice))
                else:
                    keys.add(None)
    if n and len(keys) == 1 and None not in keys:
        return keys.pop()
    return None

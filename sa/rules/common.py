"""Slot discovery shared by the protocol-level rules (fail closed: AnalysisError when a slot is missing)."""
import ast

from .. import astutil as A
from ..loader import AnalysisError

CONN = "rpyc.core.protocol.Connection"
PROTO = "rpyc.core.protocol"


def self_attr(node, name=None):
    """is `node` the expression self.<name> (any name when None)? returns the attribute name or None"""
    if isinstance(node, ast.Attribute) and isinstance(node.value, ast.Name) and node.value.id == "self":
        if name is None or node.attr == name:
            return node.attr
    return None


def method_calls_on_self_field(func_node, method):
    """[(field, Call)] for calls self.<field>.<method>(...) in func (not nested scopes)"""
    out = []
    for c in A.calls(func_node):
        f = c.func
        if isinstance(f, ast.Attribute) and f.attr == method:
            fld = self_attr(f.value)
            if fld:
                out.append((fld, c))
    return out


def init_field_ctor(ctx, cls_qual, field):
    """the value expression assigned to self.<field> in cls.__init__ (last assignment), or None"""
    init = ctx.repo.method(ctx.cls(cls_qual), "__init__")
    if init is None:
        return None
    val = None
    for n in A.walk(init.node):
        if isinstance(n, ast.Assign):
            for t in n.targets:
                if self_attr(t, field):
                    val = n.value
    # through a local that is bound once in __init__ (`cfg = DEFAULT_CONFIG.copy(); self._config = cfg`)
    hops = 0
    while isinstance(val, ast.Name) and hops < 3:
        defs = [n for n in A.walk(init.node) if isinstance(n, ast.Assign) and any(
            isinstance(t, ast.Name) and t.id == val.id for t in n.targets)]
        if len(defs) != 1 or val.id in A.params(init.node):
            break
        val = defs[0].value
        hops += 1
    return val


def fields_constructed_with(ctx, cls_qual, ctor_names):
    """fields of cls bound in __init__ to a call of one of ctor_names"""
    init = ctx.repo.method(ctx.cls(cls_qual), "__init__")
    out = []
    for n in A.walk(init.node):
        if isinstance(n, ast.Assign) and isinstance(n.value, ast.Call):
            d = A.call_name(n.value)
            if d and d.split(".")[-1] in ctor_names:
                for t in n.targets:
                    a = self_attr(t)
                    if a:
                        out.append(a)
    return out


def one(items, what):
    items = list(dict.fromkeys(items))
    if len(items) != 1:
        raise AnalysisError("expected exactly one %s, found %r" % (what, items))
    return items[0]


def queue_test_polarity(test_ast, qfield):
    """for an atomic branch condition about the emptiness of self.<qfield>: returns the edge label
    ('true'/'false') on which the queue was observed EMPTY, or None if the test is not about the queue"""
    def is_q(e):
        return self_attr(e, qfield) is not None

    def is_len_q(e):
        return (isinstance(e, ast.Call) and A.call_name(e) == "len" and len(e.args) == 1 and is_q(e.args[0]))
    e = test_ast
    if is_q(e) or is_len_q(e):
        return "false"
    if isinstance(e, ast.Compare) and len(e.ops) == 1:
        l, r, op = e.left, e.comparators[0], e.ops[0]
        if is_len_q(l) and isinstance(r, ast.Constant) and isinstance(r.value, int):
            k = r.value
            if isinstance(op, ast.Eq) and k == 0:
                return "true"
            if isinstance(op, (ast.NotEq, ast.Gt)) and k == 0:
                return "false"
            if isinstance(op, ast.GtE) and k == 1:
                return "false"
            if isinstance(op, ast.Lt) and k == 1:
                return "true"
            if isinstance(op, ast.LtE) and k == 0:
                return "true"
        if is_q(l) and isinstance(r, ast.List) and not r.elts:
            if isinstance(op, ast.Eq):
                return "true"
            if isinstance(op, ast.NotEq):
                return "false"
    return None


def nonblocking_acquire(call):
    """is this lock.acquire(...) call non-blocking (acquire(False) / acquire(0) / blocking=False)?"""
    if call.args:
        a = call.args[0]
        return isinstance(a, ast.Constant) and a.value in (False, 0) and a.value is not None
    for k in call.keywords:
        if k.arg == "blocking":
            return isinstance(k.value, ast.Constant) and k.value.value in (False, 0)
    return False


def share(ctx, rep, modname, take, as_rule, floor=None):
    """Re-report obligations of another property's rule module under `as_rule` (the clause is a necessary
    condition of both properties). The other module runs once per analysis context (cached)."""
    import importlib
    from ..report import Report
    cache = getattr(ctx, "_subreports", None)
    if cache is None:
        cache = ctx._subreports = {}
    if modname not in cache:
        sub = Report(modname.upper(), rep.tier)
        cache[modname] = sub          # registered first: cyclic sharing sees the partial report
        mod = importlib.import_module("sa.rules." + modname)
        try:
            mod.run(ctx, sub)
        except AnalysisError as e:
            sub.infos.append("analysis of %s incomplete: %s" % (modname, e))
        except Exception as e:      # an internal error while deciding another property must not take this one down
            import traceback
            sub.infos.append("analysis of %s incomplete: internal error %s: %s" % (
                modname, type(e).__name__, traceback.format_exc().strip().splitlines()[-2].strip()[:120]))
    sub = cache[modname]
    n = 0
    for o in list(sub.obs):
        if take(o):
            n += 1
            rep.ob(as_rule, "[%s] %s" % (o.rule, o.key), o.ok, o.msg, o.loc, o.witness, o.nontrivial, o.kind)
    for fn in sub.functions:
        rep.functions.add(fn)
    incomplete = any(i.startswith("analysis of %s incomplete" % modname) for i in sub.infos)
    if floor is not None and not (incomplete and n < floor):
        rep.floor(as_rule, "obligations shared from %s" % modname.upper(), n, floor)
    elif incomplete:
        rep.info("shared clause %s from %s could not be fully evaluated there (%s); it is decided by that property's own check"
                 % (as_rule, modname.upper(), [i for i in sub.infos if i.startswith("analysis of")][0][:120]))
    return n


class LabelModel:
    """partial evaluation of a dispatch-on-constant function (Connection._unbox by label, Connection._dispatch by message
    kind): for every constant of interest and for an unknown value, the sub-CFG that can execute."""
    def __init__(self, ctx, qual, source_param_index, slot, values):
        from .. import cfgq as Q
        self.ctx = ctx
        self.f = ctx.func(qual)
        self.g = ctx.cfg(self.f)
        prm = A.params(self.f.node)
        self.src = prm[source_param_index]
        # the local bound to element `slot` of the destructured source
        self.var = None
        self.unpack = None
        self.names = None
        for n in A.walk(self.f.node):
            if isinstance(n, ast.Assign) and isinstance(n.targets[0], ast.Tuple) and all(
                    isinstance(e, ast.Name) for e in n.targets[0].elts) and (
                    (isinstance(n.value, ast.Name) and n.value.id == self.src) or self.src in A.names_loaded(n.value)):
                self.names = [e.id for e in n.targets[0].elts]
                if slot < len(self.names):
                    self.var = self.names[slot]
                    self.unpack = n
                break
        if self.var is None:
            raise AnalysisError("%s no longer destructures its input into locals" % qual)
        self.values = dict(values)
        self.values["<other>"] = object()
        self.sub = {}
        for name, v in self.values.items():
            dec = Q.var_const_decider(lambda e: ctx.try_fold(e), self.var, v)
            ok = Q.valuation_edges(dec)
            nodes = Q.reach_ef([self.g.entry], lambda a, b, l, ok=ok: l != "exc" and ok(a, b, l))
            self.sub[name] = (ok, nodes)

    def edge_ok(self, name):
        ok = self.sub[name][0]
        return lambda a, b, l: l != "exc" and ok(a, b, l)

    def nodes(self, name):
        return self.sub[name][1]

    def returns(self, name):
        return [n for n in self.nodes(name) if n.kind == "stmt" and isinstance(n.ast, ast.Return)]

    def raises(self, name):
        return [n for n in self.nodes(name) if n.kind == "stmt" and isinstance(n.ast, ast.Raise)]


def unbox_model(ctx):
    m = getattr(ctx, "_unbox_model", None)
    if m is None:
        vals = {n: ctx.const("rpyc.core.consts", n) for n in ("LABEL_VALUE", "LABEL_TUPLE", "LABEL_LOCAL_REF", "LABEL_REMOTE_REF")}
        m = ctx._unbox_model = LabelModel(ctx, CONN + "._unbox", 1, 0, vals)
    return m


def dispatch_model(ctx):
    m = getattr(ctx, "_dispatch_model", None)
    if m is None:
        vals = {n: ctx.const("rpyc.core.consts", n) for n in ("MSG_REQUEST", "MSG_REPLY", "MSG_EXCEPTION")}
        m = ctx._dispatch_model = LabelModel(ctx, CONN + "._dispatch", 1, 0, vals)
    return m


def exact_type_decider(ctx, cfg, varname, tp):
    """decide(test) for tests on the exact type of local `varname`: `type(v) is/==/in ...`, also through a local alias
    bound to type(v). isinstance/issubclass tests are left undecided (they are not exact-type tests)."""
    aliases = set()
    for n in cfg.live:
        if n.kind == "stmt" and isinstance(n.ast, ast.Assign) and isinstance(n.ast.targets[0], ast.Name) and \
                A.src(n.ast.value) == "type(%s)" % varname:
            aliases.add(n.ast.targets[0].id)

    def is_type_of(x):
        return A.src(x) == "type(%s)" % varname or (isinstance(x, ast.Name) and x.id in aliases)

    def decide(node):
        e = node.ast
        if not (isinstance(e, ast.Compare) and len(e.ops) == 1):
            return None
        l, r, op = e.left, e.comparators[0], e.ops[0]
        if is_type_of(l):
            other = ctx.try_fold(r)
        elif is_type_of(r) and isinstance(op, (ast.Is, ast.IsNot, ast.Eq, ast.NotEq)):
            other = ctx.try_fold(l)
        else:
            return None
        if other is None:
            return None
        try:
            if isinstance(op, (ast.Is, ast.Eq)):
                return tp is other
            if isinstance(op, (ast.IsNot, ast.NotEq)):
                return tp is not other
            if isinstance(op, ast.In):
                return tp in other
            if isinstance(op, ast.NotIn):
                return tp not in other
        except TypeError:
            return None
        return None
    return decide


def expiry_field(ctx):
    """the AsyncResult field holding the deadline: the one __init__ binds to a Timeout(...)"""
    f = ctx.func("rpyc.core.async_.AsyncResult.__init__")
    out = []
    for n in A.walk(f.node):
        if isinstance(n, ast.Assign) and isinstance(n.value, ast.Call) and A.call_name(n.value) == "Timeout":
            a = self_attr(n.targets[0])
            if a:
                out.append(a)
    return out[0] if len(out) == 1 else "_ttl"


def exc_instance_decider(cfg, exc_class):
    """decide(test) for `isinstance(<handler variable>, T)` tests when the exception in flight is exactly `exc_class`"""
    from ..cfg import X
    hvars = {n.ast.name for n in cfg.live if n.kind == "except" and getattr(n.ast, "name", None)}

    def decide(node):
        e = node.ast
        if isinstance(e, ast.Call) and A.dotted(e.func) == "isinstance" and len(e.args) == 2 and \
                isinstance(e.args[0], ast.Name) and e.args[0].id in hvars:
            classes = X.get(e.args[1])
            if classes is None:
                return None
            if any(issubclass(exc_class, c) for c in classes):
                return True
            if not any(issubclass(c, exc_class) for c in classes):
                return False
        return None
    return decide


def resolve_expr(rd, node, expr, depth=6):
    """`expr` as evaluated at CFG node `node`, with local names that have exactly one reaching definition (a plain
    assignment) replaced by the defining expression, recursively"""
    class Sub(ast.NodeTransformer):
        def visit_Name(self, n):
            if not isinstance(n.ctx, ast.Load) or depth <= 0:
                return n
            ds = rd.at(node, n.id)
            if len(ds) != 1:
                return n
            d = list(ds)[0]
            if d == "param" or not (d.kind == "stmt" and isinstance(d.ast, ast.Assign) and len(d.ast.targets) == 1 and
                                    isinstance(d.ast.targets[0], ast.Name)):
                return n
            return resolve_expr(rd, d, d.ast.value, depth - 1)
    return Sub().visit(A.clone(expr))


# ---------------------------------------------------------------------------------- connection state: constructor table
# confirmed by reading Connection.__init__ on the reference tree; one line of reason per field
STATE_CTORS = {
    "_request_callbacks": ("dict", "strong references: the table is the only thing that keeps an AsyncResult nobody else holds "
                                   "alive until its reply arrives (a weak table drops the reply and the callbacks never run)"),
    "_proxy_cache": ("WeakValueDict", "weak values: a strong cache keeps every proxy - and through it the remote object - alive "
                                      "for the life of the connection (no release notice is ever sent)"),
    "_local_objects": ("RefCountingColl", "counted exports: a plain dict forgets an object on the first release although the "
                                          "peer still holds other references"),
    "_netref_classes_cache": ("dict", "per-connection cache of proxy classes"),
    "_send_queue": ("list", "FIFO hand-off of encoded messages (append / pop(0))"),
    "_seqcounter": ("itertools.count", "monotonic sequence numbers, never reused while the connection lives"),
    "_sendlock": ("Lock", "plain non-reentrant lock: the failed try-acquire is the re-entrancy hand-off"),
    "_recvlock": ("Lock", "plain lock: exactly one receiver at a time"),
    "_recv_event": ("Condition", "waiters sleep on it while another thread receives"),
}


def _ctor_kind(v):
    if isinstance(v, ast.Dict) and not v.keys:
        return "dict"
    if isinstance(v, ast.List) and not v.elts:
        return "list"
    if isinstance(v, ast.Call) and not v.args and not v.keywords:
        d = A.call_name(v) or ""
        if d in ("dict", "list"):
            return d
        if d.split(".")[-1] in ("Lock", "Condition", "WeakValueDict", "RefCountingColl"):
            return d.split(".")[-1]
        if d in ("itertools.count", "count"):
            return "itertools.count"
    return A.src(v)


def connection_state(ctx, rep, rule, fields):
    """the listed Connection fields are created by the constructor the protocol relies on"""
    cq = CONN
    for fld in fields:
        want, why = STATE_CTORS[fld]
        v = init_field_ctor(ctx, cq, fld)
        got = _ctor_kind(v) if v is not None else "<not assigned in __init__>"
        if fld == "_send_queue" and got != want and isinstance(v, ast.Call):
            # any unbounded FIFO container serves (the discipline rules then judge how it is used); a bounded one blocks or
            # drops in put(), a LIFO/priority one reorders
            d_ = (A.call_name(v) or "").split(".")[-1]
            bounded = [k.arg for k in v.keywords if k.arg in ("maxsize", "maxlen")] or \
                (d_ in ("Queue", "LifoQueue", "PriorityQueue") and v.args) or (d_ == "deque" and len(v.args) >= 2)
            if d_ in ("deque", "Queue", "SimpleQueue") and not bounded:
                got = want
            elif bounded:
                why = "the queue is bounded: its only consumer is the thread holding the send lock, so a send re-entered on that " \
                      "thread (a proxy finalizer during the write) blocks in put() for ever once the bound is reached, and every " \
                      "other sender behind it"
        init = ctx.repo.method(ctx.cls(cq), "__init__")
        rep.ob(rule, "Connection.__init__: %s is a %s" % (fld, want), got == want,
               "%s()" % want if got == want else "self.%s is created as `%s`, not %s - %s" % (fld, got, want, why),
               ctx.loc(v) if v is not None else init.loc, kind="table")
        # no other method rebinds the field
        others = []
        for m in ctx.cls(cq).methods.values():
            if m.name == "__init__":
                continue
            for n in A.walk(m.node):
                if isinstance(n, (ast.Assign, ast.AugAssign)):
                    tg = n.targets if isinstance(n, ast.Assign) else [n.target]
                    if any(self_attr(t, fld) for t in tg):
                        others.append((m, n))
        rep.ob(rule, "Connection: %s is bound once, in __init__" % fld, not others,
               "no other method rebinds it" if not others else
               "%s rebinds self.%s (`%s`): %s" % (others[0][0].name, fld, A.norm(others[0][1])[:60], why),
               ctx.loc(others[0][1]) if others else init.loc, kind="site")


def fork_regions(ctx, g):
    """(fork node, nodes the child can execute after os.fork(), nodes the parent can execute, child edge filter) by partial
    evaluation of the tests on the fork result - bound to a local or tested directly (`if os.fork() == 0:`)"""
    from .. import cfgq as Q
    forks = [n for n in g.live if n.ast is not None and n.kind in ("stmt", "test") and A.find_calls(n.ast, "os.fork")]
    if not forks:
        return None
    fk = forks[0]
    pv = None
    if fk.kind == "stmt" and isinstance(fk.ast, ast.Assign) and isinstance(fk.ast.targets[0], ast.Name):
        pv = fk.ast.targets[0].id

    def decider(value):
        base = Q.var_const_decider(ctx.try_fold, pv, value) if pv else (lambda node: None)

        def decide(node):
            e = node.ast
            if isinstance(e, ast.Call) and A.call_name(e) == "os.fork":
                return bool(value)
            if isinstance(e, ast.Compare) and len(e.ops) == 1:
                l, r, op = e.left, e.comparators[0], e.ops[0]
                other = None
                if isinstance(l, ast.Call) and A.call_name(l) == "os.fork":
                    other = ctx.try_fold(r)
                elif isinstance(r, ast.Call) and A.call_name(r) == "os.fork":
                    other = ctx.try_fold(l)
                    op = {ast.Lt: ast.Gt, ast.Gt: ast.Lt, ast.LtE: ast.GtE, ast.GtE: ast.LtE}.get(type(op), type(op))()
                if other is not None or (isinstance(l, ast.Call) and A.call_name(l) == "os.fork" and isinstance(r, ast.Constant)):
                    try:
                        return {ast.Eq: value == other, ast.NotEq: value != other, ast.Is: value == other, ast.IsNot: value != other,
                                ast.Lt: value < other, ast.LtE: value <= other, ast.Gt: value > other, ast.GtE: value >= other}[type(op)]
                    except (KeyError, TypeError):
                        return None
            return base(node)
        return decide
    regions = []
    for value in (0, 4711):
        ok = Q.valuation_edges(decider(value))
        starts = [fk] if fk.kind == "test" else [t for t, l in fk.succ if l != "exc"]
        regions.append(set(x.id for x in Q.reach_ef(starts, lambda a, b, l, ok=ok: l != "exc" and ok(a, b, l))))
    child, parent = regions
    by_id = {n.id: n for n in g.live}
    return fk, [by_id[i] for i in child], [by_id[i] for i in parent], Q.valuation_edges(decider(0))


def call_keywords(ctx, call, module=None):
    """[(name, value expr)] of the keyword arguments of a call, with `**{...}` displays and `**{k: f(k) for k in <constant
    sequence>}` comprehensions expanded (the comprehension variable is substituted by each constant)"""
    out = []
    for kw in call.keywords:
        if kw.arg is not None:
            out.append((kw.arg, kw.value))
            continue
        v = kw.value
        if isinstance(v, ast.Dict) and all(isinstance(k, ast.Constant) and isinstance(k.value, str) for k in v.keys):
            out.extend((k.value, x) for k, x in zip(v.keys, v.values))
        elif isinstance(v, ast.DictComp) and len(v.generators) == 1 and isinstance(v.generators[0].target, ast.Name) \
                and not v.generators[0].ifs and isinstance(v.key, ast.Name) and v.key.id == v.generators[0].target.id:
            seq = ctx.try_fold(v.generators[0].iter, module) if module is not None else ctx.try_fold(v.generators[0].iter)
            if isinstance(seq, (tuple, list)) and all(isinstance(x, str) for x in seq):
                var = v.generators[0].target.id

                class Sub(ast.NodeTransformer):
                    def __init__(self, val):
                        self.val = val

                    def visit_Name(self, n):
                        if n.id == var and isinstance(n.ctx, ast.Load):
                            return ast.copy_location(ast.Constant(value=self.val), n)
                        return n
                for x in seq:
                    out.append((x, ast.fix_missing_locations(Sub(x).visit(A.clone(v.value)))))
            else:
                out.append((None, v))
        else:
            out.append((None, v))
    return out


def module_function_lookup(ctx, mod, extra, skip=()):
    """__global_lookup__ for sa/miniinterp.py: module-level functions of `mod` are interpreted (same hooks), module-level
    constants are folded"""
    from .. import miniinterp as MI
    fnodes = {f.name: f for q, f in ctx.repo.funcs.items() if f.module is mod and f.parent is None and f.cls is None}

    def look(name):
        if name in skip:
            return False, None
        f = fnodes.get(name)
        if f is not None:
            return True, (lambda *a, **k: MI.call_function(f.node, list(a), extra, k))
        v = ctx.try_fold(ast.Name(id=name, ctx=ast.Load()), mod)
        if v is not None:
            if type(v).__name__ == "_Helper":
                # a helper of the constant folder (BYTES_LITERAL, Struct, dict, ...): callable with ordinary arguments here
                return True, (lambda *a, _h=v, **k: _h(list(a), k))
            return True, v
        # a module-level value that is not a foldable constant (`_BY_TIMESTAMP = itemgetter(1)`, a sentinel `object()`):
        # evaluated once by the interpreter itself
        if name in memo:
            return True, memo[name]
        exprs = mod.toplevel.get(name) if hasattr(mod.toplevel, "get") else None
        if exprs:
            try:
                e_ = exprs[-1] if isinstance(exprs, (list, tuple)) else exprs
                if isinstance(e_, ast.Call) and A.call_name(e_) == "object" and not e_.args:
                    memo[name] = MI.ModelObj("sentinel " + name)
                else:
                    memo[name] = MI.eval_expr(e_, extra)
                return True, memo[name]
            except (AnalysisError, MI.Raised, TypeError, AttributeError):
                return False, None
        return False, None
    memo = {}
    return look


def request_api_model(ctx):
    """Model evaluation (sa/miniinterp.py) of Connection.sync_request / async_request with a model AsyncResult class and a
    recording `_async_request`: what is registered as the callback of which request, which expiry the result object gets, and
    what the call returns. Returns a dict of findings (memoised per context), or {'error': text} when not evaluable."""
    memo = getattr(ctx, "_request_api_model", None)
    if memo is not None:
        return memo
    from .. import miniinterp as MI
    out = {}
    try:
        conn = ctx.cls(CONN)
        meths = {n: m.node for n, m in conn.methods.items() if n not in ("_async_request",)}
        fsync, fasync = conn.methods["sync_request"], conn.methods["async_request"]

        def scenario(entry, args, kwargs, cfg_timeout):
            results, issued = [], []

            class _Res:
                mi_native = True

                def __init__(self, c):
                    self.conn = c
                    self.expiry = []
                    self.no = len(results)
                    results.append(self)

                def set_expiry(self, t):
                    self.expiry.append(t)

                @property
                def value(self):
                    return ("VALUE-OF", self.no)

                def wait(self):
                    return None
            hooks = {"AsyncResult": _Res, "self._async_request": lambda h, a=(), cb=None: issued.append((h, a, cb))}
            state = {"_config": {"sync_request_timeout": cfg_timeout}, "_closed": False}
            extra = {"__calls__": hooks, "__methods__": meths, "__max_iter__": 100}
            extra["__global_lookup__"] = module_function_lookup(ctx, entry.module, extra)
            try:
                got = MI.call_method(entry.node, state, list(args), dict(extra, __kwargs__=kwargs)) if not kwargs else \
                    MI.call_method_kw(entry.node, state, list(args), kwargs, extra)
            except MI.Raised as r_:
                got = ("raises", r_.name)
            return got, results, issued
        # sync_request("H", 1, 2) under a configured timeout of 30
        got, results, issued = scenario(fsync, ["H", 1, 2], {}, 30)
        out["sync"] = {"returned": got, "n_results": len(results), "issued": [(h, a, getattr(cb, "no", None)) for h, a, cb in issued],
                       "expiry": [r.expiry for r in results]}
        for tmo in (None, 0, 5):
            got, results, issued = scenario(fasync, ["H", 1, 2], {"timeout": tmo} if tmo is not None else {}, 30)
            out["async", tmo] = {"returned_no": getattr(got, "no", got), "n_results": len(results),
                                 "issued": [(h, a, getattr(cb, "no", None)) for h, a, cb in issued],
                                 "expiry": [r.expiry for r in results]}
        got, results, issued = scenario(fasync, ["H"], {"bogus": 1}, 30)
        out["async", "bogus"] = {"returned": got, "issued": len(issued)}
    except (AnalysisError, KeyError, AttributeError) as e_:
        out = {"error": "%s: %s" % (type(e_).__name__, e_)}
    ctx._request_api_model = out
    return out

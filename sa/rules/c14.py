"""C14 - a waiter returns as soon as its reply has been processed by any thread.

The stall is a statement-order fact of Connection.serve (R14.1); R14.2/R14.3 pin the wait loop."""
import ast

from .. import astutil as A
from .. import cfgq as Q
from ..loader import AnalysisError
from . import common as K
from .c13 import serve_slots

KEY_D4 = "Connection.serve: wake-up precedes dispatch of consumed packet"


def run(ctx, rep):
    rep.rule("R14.1", "in serve(), on the path on which a packet was consumed, waiters are not woken between the receive "
                      "and the dispatch unless the receive lock is still held (a waiter woken early re-enters poll() and "
                      "sleeps until its timeout although its reply is being processed)")
    rep.rule("R14.2", "AsyncResult.wait re-checks readiness between serve() calls, blocks on nothing else, and passes its own expiry")
    rep.rule("R14.4", "a waiter cannot sleep through the hand-off: try-acquire and wait() are atomic under the condition, all waiters "
                      "are woken after the release on every exit (= R13.1, R13.4)")
    rep.rule("R14.3", "a thread that loses the try-lock sleeps on the condition (with the remaining time), not on the channel")
    rep.rule("R14.5", "the reply can be routed the moment it arrives: the requester is registered before its request is transmitted (= R08.4)")
    K.share(ctx, rep, "c08", lambda o: o.rule == "R08.4", "R14.5", floor=2)
    rep.rule("R14.6", "a reply that arrives in time is accepted by the result object: its own notion of 'expired' follows the live "
                      "deadline and the ready flag (= R15.1, R15.4)")
    K.share(ctx, rep, "c15", lambda o: o.rule == "R15.1" or (o.rule == "R15.4" and "expired" in o.key), "R14.6", floor=3)
    rep.assume("the actual latency is not decided, only the ordering that causes the stall")

    # the objects the hand-off relies on exist before the first serve(): one lock and one condition per connection, created by
    # the constructor (a condition created lazily on first use can be created twice by two threads entering serve() together:
    # the receiver then notifies one object while the waiter sleeps on the other)
    K.connection_state(ctx, rep, "R14.4", ["_recvlock", "_recv_event"])
    from .c13 import blocking_lock_escape
    esc = blocking_lock_escape(ctx, rep, "R14.3")
    if not esc:
        rep.ob("R14.3", "Connection.serve: the receive lock is only ever try-acquired (a waiter sleeps on the condition, never on "
               "the lock)", True, "no helper is handed the lock with a blocking flag", ctx.func(K.CONN + ".serve").loc, kind="site")
    try:
        from .c13 import condition_released
        condition_released(ctx, rep, "R14.3")
        f, g, lock, cond, acq, acq_nodes, acq_edges, fail_edges, rel_nodes, held = serve_slots(ctx)
    except AnalysisError as e_:
        if esc:
            return          # the violation stands; the rest of serve()'s discipline cannot be located
        raise
    rep.analysed(f, g)
    rx = [n for n in g.live if n.ast is not None and n.kind in ("stmt", "test") and A.find_calls(n.ast, "self._channel.recv")]
    disp = [n for n in g.live if n.ast is not None and n.kind in ("stmt", "test") and A.find_calls(n.ast, "self._dispatch")]
    notif = [n for n in g.live if n.ast is not None and n.kind == "stmt" and (
        A.find_calls(n.ast, "self.%s.notify_all" % cond) or A.find_calls(n.ast, "self.%s.notify" % cond))]
    rep.floor("R14.1", "receive sites in serve()", len(rx), 1)
    rep.floor("R14.1", "dispatch sites in serve()", len(disp), 1)
    rep.floor("R14.1", "wake-up sites in serve()", len(notif), 1)
    normal = ("next", "true", "false")
    after_rx = Q.reach(rx, labels=normal, include_starts=False)
    for d in disp:
        early = []
        for w in notif:
            if w in after_rx and w not in held and d in Q.reach([w], labels=normal, include_starts=False):
                early.append(w)
        ok = not early or d in held
        wit = None
        if not ok:
            p1 = Q.find_path(rx[0], [early[0]], labels=normal)
            p2 = Q.find_path(early[0], [d], labels=normal)
            wit = ctx.path((p1 or []) + (p2 or [])[1:])
        rep.ob("R14.1", KEY_D4, ok,
               "no wake-up is issued between consuming the packet and dispatching it" if ok else
               "notify_all() is issued (lock already released) before _dispatch(data) publishes the result: a waiter woken "
               "in that window finds its result not ready, re-enters serve(), takes the free receive lock and blocks in "
               "poll() for up to its whole timeout although its reply has already been consumed by this thread",
               ctx.loc(d), witness=wit)

    # ---- R14.2
    fw = ctx.func("rpyc.core.async_.AsyncResult.wait")
    gw = ctx.cfg(fw)
    rep.analysed(fw, gw)
    whiles = [n for n in A.walk(fw.node) if isinstance(n, ast.While)]
    rep.floor("R14.2", "wait loops in AsyncResult.wait", len(whiles), 1)
    for w in whiles:
        reads_flag = any(K.self_attr(x, "_is_ready") for x in A.walk(w.test))
        rep.ob("R14.2", "AsyncResult.wait: the loop condition reads the ready flag on every iteration", reads_flag,
               "`%s`" % A.src(w.test) if reads_flag else
               "the wait loop does not re-check readiness between serve() calls", ctx.loc(w), kind="site")
        blocking = []
        serve_calls = []
        for st in w.body:
            for c in A.calls(st):
                d = A.call_name(c) or ""
                if d == "self._conn.serve":
                    serve_calls.append(c)
                elif d.split(".")[-1] in ("sleep", "wait", "join", "acquire", "poll", "poll_all", "select", "recv"):
                    blocking.append(c)
        rep.ob("R14.2", "AsyncResult.wait: serve() is the only blocking call in the loop", bool(serve_calls) and not blocking,
               "loop body blocks only in self._conn.serve(...)" if serve_calls and not blocking else
               "the wait loop blocks in %s besides/instead of serve()" % [A.src(c) for c in blocking], ctx.loc(w), kind="site")
        for c in serve_calls:
            okt = len(c.args) >= 1 and K.self_attr(c.args[0], K.expiry_field(ctx)) is not None
            rep.ob("R14.2", "AsyncResult.wait: serve() is given the result's own expiry", okt,
                   "serve(self.<expiry>): an absolute deadline shared by all iterations" if okt else
                   "serve() is called with `%s`, not the result's own Timeout object (the clock restarts or the waiter "
                   "oversleeps)" % (A.src(c.args[0]) if c.args else "<default>"), ctx.loc(c), kind="site")

    # ---- R14.3
    wf = A.find_calls(f.node, "self.%s.wait_for" % cond)
    rep.ob("R14.3", "serve(): the loser of the try-lock waits unconditionally for the next hand-off (no predicate)", not wf,
           "Condition.wait(), re-checking its own result after every wake-up" if not wf else
           "the loser waits with wait_for(<predicate>): Condition.wait_for goes back to sleep whenever the predicate is false at "
           "the moment of the wake-up (e.g. another waiter has re-taken the receive lock), although this thread's reply may "
           "already have been processed - it then sleeps until further traffic or its timeout", ctx.loc(wf[0]) if wf else f.loc,
           kind="site")
    rd = Q.ReachingDefs(g)
    waits = [n for n in g.live if n.ast is not None and n.kind in ("stmt", "test") and A.find_calls(n.ast, "self.%s.wait" % cond)]
    rep.floor("R14.3", "condition waits in serve()", len(waits), 1)
    fail_starts = [t for n, lab in fail_edges for t, l in n.succ if l == lab]
    after_fail = Q.reach(fail_starts, labels=normal) if fail_starts else set()
    for wn in waits:
        onfail = wn in after_fail
        c = A.find_calls(wn.ast, "self.%s.wait" % cond)[0]
        arg_ok = False
        if c.args and isinstance(c.args[0], ast.Call) and isinstance(c.args[0].func, ast.Attribute) \
                and c.args[0].func.attr == "timeleft" and isinstance(c.args[0].func.value, ast.Name):
            v = c.args[0].func.value.id
            defs = rd.at(wn, v)
            arg_ok = bool(defs) and all(x != "param" and A.find_calls(x.ast, "Timeout") for x in defs)
        rep.ob("R14.3", "serve(): the loser of the try-lock waits on the condition with the remaining time", onfail and arg_ok,
               "wait(timeout.timeleft()) on the failed-try-lock branch" if onfail and arg_ok else
               "the failed-try-lock branch does not wait on the condition for the remaining time of this call", ctx.loc(wn))
    touches = [n for n in after_fail if n.ast is not None and n.kind in ("stmt", "test") and
               (A.find_calls(n.ast, "self._channel.poll") or A.find_calls(n.ast, "self._channel.recv"))]
    rep.ob("R14.3", "serve(): the loser of the try-lock never touches the channel", not touches,
           "no channel access is reachable from the failed-try-lock edge" if not touches else
           "a thread that failed the try-lock goes on to poll/read the channel", ctx.loc(touches[0]) if touches else f.loc)

    K.share(ctx, rep, "c13", lambda o: o.rule in ("R13.1", "R13.4") or (o.rule == "R13.3" and "condition" in o.key), "R14.4", floor=6)

"""State-discipline rules shared by several properties: how instance state may be created, shared, cached and touched.
Each is a structural necessary condition (a violation breaks behaviour for some history) phrased over resolved classes."""
import ast

from .. import astutil as A
from . import common as K

MUTATORS = {"append", "extend", "insert", "add", "update", "setdefault", "pop", "popitem", "remove", "discard", "clear", "sort",
            "appendleft", "popleft"}


def _mutable_literal(v):
    if isinstance(v, (ast.List, ast.Dict, ast.Set, ast.ListComp, ast.DictComp, ast.SetComp)):
        return True
    if isinstance(v, ast.Call) and (A.call_name(v) or "").split(".")[-1] in (
            "list", "dict", "set", "bytearray", "deque", "defaultdict", "OrderedDict", "WeakValueDict", "RefCountingColl"):
        return True
    return False


def private_state(ctx, rep, rule, class_qual):
    """instances do not share mutable state by accident: no mutable default argument is stored as a field, and no mutable
    class-level attribute is mutated through `self` without having been re-bound per instance in __init__"""
    c = ctx.cls(class_qual)
    short = class_qual.split(".")[-1]
    init = c.methods.get("__init__")
    bad = []
    if init is not None:
        a = init.node.args
        pos = a.posonlyargs + a.args
        defaults = dict(zip([x.arg for x in pos[len(pos) - len(a.defaults):]], a.defaults))
        defaults.update({x.arg: d for x, d in zip(a.kwonlyargs, a.kw_defaults) if d is not None})
        for n in A.walk(init.node):
            if isinstance(n, ast.Assign) and isinstance(n.value, ast.Name) and n.value.id in defaults and \
                    _mutable_literal(defaults[n.value.id]) and any(K.self_attr(t) for t in n.targets):
                stored_elsewhere = [x for x in A.walk(init.node) if isinstance(x, (ast.Assign, ast.AugAssign)) and
                                    n.value.id in A.names_stored(x)]
                if not stored_elsewhere:
                    bad.append((n, "the mutable default of parameter `%s` (`%s`) is stored as self.%s: every instance created without "
                                   "that argument shares one object" % (n.value.id, A.src(defaults[n.value.id]),
                                                                        [K.self_attr(t) for t in n.targets if K.self_attr(t)][0])))
    rebound = set()
    if init is not None:
        for n in A.walk(init.node):
            if isinstance(n, (ast.Assign, ast.AugAssign, ast.AnnAssign)):
                for t in (n.targets if isinstance(n, ast.Assign) else [n.target]):
                    if K.self_attr(t):
                        rebound.add(K.self_attr(t))
    for k in ctx.repo.mro(c):
        if k.module.name.split(".")[0] != "rpyc":
            continue
        for nm, v in k.attrs.items():
            if nm.startswith("__") or not _mutable_literal(v) or nm in rebound:
                continue
            muts = []
            for m in c.methods.values():
                for x in A.walk(m.node):
                    if isinstance(x, ast.Call) and isinstance(x.func, ast.Attribute) and x.func.attr in MUTATORS and \
                            K.self_attr(x.func.value, nm):
                        muts.append(x)
                    elif isinstance(x, ast.Subscript) and isinstance(x.ctx, (ast.Store, ast.Del)) and K.self_attr(x.value, nm):
                        muts.append(x)
            if muts:
                bad.append((muts[0], "the class attribute %s.%s = %s is mutated through self (`%s`) but never re-bound in __init__: "
                                     "all instances in the process share one table" % (k.name, nm, A.src(v)[:30], A.src(muts[0])[:50])))
    rep.ob(rule, "%s: instances do not share mutable state (mutable defaults, class-level tables)" % short, not bad,
           "every mutable field is created per instance" if not bad else "; ".join(w for _, w in bad)[:500],
           ctx.loc(bad[0][0]) if bad else ctx.loc(c.node), kind="site")


def bound_once(ctx, rep, rule, class_qual, fields, why):
    """the listed fields are bound in __init__ only"""
    c = ctx.cls(class_qual)
    short = class_qual.split(".")[-1]
    for fld in fields:
        others = []
        for m in c.methods.values():
            if m.name == "__init__":
                continue
            for n in A.walk(m.node):
                if isinstance(n, (ast.Assign, ast.AugAssign, ast.Delete)):
                    tg = n.targets if isinstance(n, (ast.Assign, ast.Delete)) else [n.target]
                    if any(K.self_attr(t, fld) for t in tg):
                        others.append((m, n))
        rep.ob(rule, "%s: %s is bound once, in __init__" % (short, fld), not others,
               "no other method rebinds it" if not others else
               "%s rebinds self.%s (`%s`): %s" % (others[0][0].name, fld, A.norm(others[0][1])[:60], why),
               ctx.loc(others[0][1]) if others else ctx.loc(c.node), kind="site")


def who_may_touch(ctx, rep, rule, class_qual, field, allowed, why):
    """only the listed methods of the class mention self.<field> (and nobody outside the class reaches into it)"""
    c = ctx.cls(class_qual)
    short = class_qual.split(".")[-1]
    users = {}
    for q, f in ctx.repo.funcs.items():
        for n in A.walk(f.node):
            if isinstance(n, ast.Attribute) and n.attr == field and isinstance(n.value, ast.Name):
                top = f
                while top.parent is not None:
                    top = top.parent
                users.setdefault(top.qual, []).append(n)
    bad = {q: ns for q, ns in users.items() if q not in {class_qual + "." + a for a in allowed}}
    rep.floor(rule, "methods using %s.%s" % (short, field), len(users), 2)
    rep.ob(rule, "%s.%s is used only by %s" % (short, field, sorted(allowed)), not bad,
           "users: %s" % sorted(q.split(".")[-1] for q in users) if not bad else
           "%s also uses %s: %s" % (sorted(q.split(".", 3)[-1] for q in bad), field, why),
           ctx.loc(list(bad.values())[0][0]) if bad else ctx.loc(c.node), kind="site")


def no_lock_across_send(ctx, rep, rule, class_qual, send_names, exempt_methods=()):
    """no blocking lock of the object is held while the send layer is entered (a send re-entered on the same thread - a proxy
    finalizer during the write - would wait for that lock for ever)"""
    c = ctx.cls(class_qual)
    short = class_qual.split(".")[-1]
    lock_fields = set(K.fields_constructed_with(ctx, class_qual, {"Lock", "RLock", "Condition", "Semaphore", "BoundedSemaphore"}))
    bad = []
    n_sites = 0
    for m in c.methods.values():
        if m.name in exempt_methods:
            continue
        for call in A.calls(m.node):
            d = A.call_name(call) or ""
            if not (d.startswith("self.") and d[5:] in send_names):
                continue
            n_sites += 1
            for anc in A.ancestors(call):
                if isinstance(anc, ast.With):
                    for it in anc.items:
                        fld = K.self_attr(it.context_expr)
                        if fld in lock_fields:
                            bad.append((call, m, fld))
    rep.floor(rule, "%s: call sites entering the send layer" % short, n_sites, 3)
    rep.ob(rule, "%s: no lock of the connection is held while the send layer is entered" % short, not bad,
           "%d call sites of %s, none inside a `with self.<lock>`" % (n_sites, sorted(send_names)) if not bad else
           "%s calls `%s` while holding self.%s: a request started on the same thread during that write (a proxy finalizer) blocks on "
           "the lock it already holds - the sender deadlocks against itself and every later request hangs"
           % (bad[0][1].name, A.src(bad[0][0])[:50], bad[0][2]), ctx.loc(bad[0][0]) if bad else ctx.loc(c.node), kind="site")


def no_cached_descriptor(ctx, rep, rule, class_quals):
    """stream objects never remember a descriptor number or a poll object: every operation re-derives the descriptor from the live
    file object, so that a closed stream (whose file object was replaced by ClosedFile) fails with EOFError instead of touching
    whatever now owns the recycled descriptor number"""
    for cq in class_quals:
        c = ctx.cls(cq)
        short = cq.split(".")[-1]
        bad = []
        for k in ctx.repo.mro(c):
            if k.module.name.split(".")[0] != "rpyc":
                continue
            for m in k.methods.values():
                for n in A.walk(m.node):
                    if isinstance(n, ast.Assign) and any(K.self_attr(t) for t in n.targets):
                        v = n.value
                        if isinstance(v, ast.Name):
                            # through a local of the same method
                            for d_ in A.walk(m.node):
                                if isinstance(d_, ast.Assign) and any(isinstance(t, ast.Name) and t.id == v.id for t in d_.targets) \
                                        and isinstance(d_.value, ast.Call):
                                    v = d_.value
                                    break
                        cached = [x for x in ast.walk(v) if isinstance(x, ast.Call) and isinstance(x.func, ast.Attribute)
                                  and x.func.attr == "fileno"] or (
                            isinstance(v, ast.Call) and (A.call_name(v) or "").split(".")[-1] in ("poll", "epoll", "select", "DefaultSelector"))
                        if cached:
                            bad.append((n, m))
        rep.ob(rule, "%s: no descriptor number or poll object is cached on the stream" % short, not bad,
               "descriptors are looked up per operation" if not bad else
               "%s stores `%s`: after close() the cached number outlives the file object - later I/O no longer raises EOFError but "
               "reads/writes/polls whichever file has since been given that descriptor number" % (bad[0][1].name, A.norm(bad[0][0])[:60]),
               ctx.loc(bad[0][0]) if bad else ctx.loc(c.node), kind="site")

"""State-discipline rules shared by several properties: how instance state may be created, shared, cached and touched.
Each is a structural necessary condition (a violation breaks behaviour for some history) phrased over resolved classes."""
import ast

from .. import astutil as A
from .. import cfgq as Q
from . import common as K

MUTATORS = {"append", "extend", "insert", "add", "update", "setdefault", "pop", "popitem", "remove", "discard", "clear", "sort",
            "appendleft", "popleft"}


def _mutable_literal(v):
    if isinstance(v, (ast.List, ast.Dict, ast.Set, ast.ListComp, ast.DictComp, ast.SetComp)):
        return True
    if isinstance(v, ast.Call) and (A.call_name(v) or "").split(".")[-1] in (
            "list", "dict", "set", "bytearray", "deque", "defaultdict", "OrderedDict", "WeakValueDict", "RefCountingColl"):
        return True
    return False


def private_state(ctx, rep, rule, class_qual):
    """instances do not share mutable state by accident: no mutable default argument is stored as a field, and no mutable
    class-level attribute is mutated through `self` without having been re-bound per instance in __init__"""
    c = ctx.cls(class_qual)
    short = class_qual.split(".")[-1]
    init = c.methods.get("__init__")
    bad = []
    if init is not None:
        a = init.node.args
        pos = a.posonlyargs + a.args
        defaults = dict(zip([x.arg for x in pos[len(pos) - len(a.defaults):]], a.defaults))
        defaults.update({x.arg: d for x, d in zip(a.kwonlyargs, a.kw_defaults) if d is not None})
        for n in A.walk(init.node):
            if isinstance(n, ast.Assign) and isinstance(n.value, ast.Name) and n.value.id in defaults and \
                    _mutable_literal(defaults[n.value.id]) and any(K.self_attr(t) for t in n.targets):
                stored_elsewhere = [x for x in A.walk(init.node) if isinstance(x, (ast.Assign, ast.AugAssign)) and
                                    n.value.id in A.names_stored(x)]
                if not stored_elsewhere:
                    bad.append((n, "the mutable default of parameter `%s` (`%s`) is stored as self.%s: every instance created without "
                                   "that argument shares one object" % (n.value.id, A.src(defaults[n.value.id]),
                                                                        [K.self_attr(t) for t in n.targets if K.self_attr(t)][0])))
    rebound = set()
    if init is not None:
        for n in A.walk(init.node):
            if isinstance(n, (ast.Assign, ast.AugAssign, ast.AnnAssign)):
                for t in (n.targets if isinstance(n, ast.Assign) else [n.target]):
                    if K.self_attr(t):
                        rebound.add(K.self_attr(t))
    for k in ctx.repo.mro(c):
        if k.module.name.split(".")[0] != "rpyc":
            continue
        for nm, v in k.attrs.items():
            if nm.startswith("__") or not _mutable_literal(v) or nm in rebound:
                continue
            muts = []
            for m in c.methods.values():
                for x in A.walk(m.node):
                    if isinstance(x, ast.Call) and isinstance(x.func, ast.Attribute) and x.func.attr in MUTATORS and \
                            K.self_attr(x.func.value, nm):
                        muts.append(x)
                    elif isinstance(x, ast.Subscript) and isinstance(x.ctx, (ast.Store, ast.Del)) and K.self_attr(x.value, nm):
                        muts.append(x)
            if not muts and isinstance(v, ast.Call) and (A.call_name(v) or "").split(".")[-1] in ("bytearray", "memoryview", "array"):
                # a class-level byte buffer exists to be written into: any use through an instance shares it
                uses = [x for m in c.methods.values() for x in A.walk(m.node) if K.self_attr(x, nm)]
                if uses:
                    bad.append((uses[0], "the class attribute %s.%s = %s is a writable buffer used through self (`%s`): all instances "
                                         "in the process - every connection - fill and read the same bytes" % (
                                             k.name, nm, A.src(v)[:30], A.src(getattr(uses[0], "_parent", uses[0]))[:50])))
            if muts:
                bad.append((muts[0], "the class attribute %s.%s = %s is mutated through self (`%s`) but never re-bound in __init__: "
                                     "all instances in the process share one table" % (k.name, nm, A.src(v)[:30], A.src(muts[0])[:50])))
    rep.ob(rule, "%s: instances do not share mutable state (mutable defaults, class-level tables)" % short, not bad,
           "every mutable field is created per instance" if not bad else "; ".join(w for _, w in bad)[:500],
           ctx.loc(bad[0][0]) if bad else ctx.loc(c.node), kind="site")


def bound_once(ctx, rep, rule, class_qual, fields, why):
    """the listed fields are bound in __init__ only"""
    c = ctx.cls(class_qual)
    short = class_qual.split(".")[-1]
    for fld in fields:
        others = []
        for m in c.methods.values():
            if m.name == "__init__":
                continue
            for n in A.walk(m.node):
                if isinstance(n, (ast.Assign, ast.AugAssign, ast.Delete)):
                    tg = n.targets if isinstance(n, (ast.Assign, ast.Delete)) else [n.target]
                    if any(K.self_attr(t, fld) for t in tg):
                        others.append((m, n))
        rep.ob(rule, "%s: %s is bound once, in __init__" % (short, fld), not others,
               "no other method rebinds it" if not others else
               "%s rebinds self.%s (`%s`): %s" % (others[0][0].name, fld, A.norm(others[0][1])[:60], why),
               ctx.loc(others[0][1]) if others else ctx.loc(c.node), kind="site")


def who_may_touch(ctx, rep, rule, class_qual, field, allowed, why):
    """only the listed methods of the class mention self.<field> (and nobody outside the class reaches into it)"""
    c = ctx.cls(class_qual)
    short = class_qual.split(".")[-1]
    users = {}
    for q, f in ctx.repo.funcs.items():
        for n in A.walk(f.node):
            if isinstance(n, ast.Attribute) and n.attr == field:      # (through `self`, an alias or `x.____conn__.<field>`)
                top = f
                while top.parent is not None:
                    top = top.parent
                users.setdefault(top.qual, []).append(n)
    bad = {q: ns for q, ns in users.items() if q not in {class_qual + "." + a for a in allowed}}
    rep.floor(rule, "methods using %s.%s" % (short, field), len(users), 2)
    rep.ob(rule, "%s.%s is used only by %s" % (short, field, sorted(allowed)), not bad,
           "users: %s" % sorted(q.split(".")[-1] for q in users) if not bad else
           "%s also uses %s: %s" % (sorted(q.split(".", 3)[-1] for q in bad), field, why),
           ctx.loc(list(bad.values())[0][0]) if bad else ctx.loc(c.node), kind="site")


def no_lock_across_send(ctx, rep, rule, class_qual, send_names, exempt_methods=()):
    """no blocking lock of the object is held while the send layer is entered (a send re-entered on the same thread - a proxy
    finalizer during the write - would wait for that lock for ever)"""
    c = ctx.cls(class_qual)
    short = class_qual.split(".")[-1]
    lock_fields = set(K.fields_constructed_with(ctx, class_qual, {"Lock", "RLock", "Condition", "Semaphore", "BoundedSemaphore"}))
    bad = []
    n_sites = 0
    for m in c.methods.values():
        if m.name in exempt_methods:
            continue
        for call in A.calls(m.node):
            d = A.call_name(call) or ""
            if not (d.startswith("self.") and d[5:] in send_names):
                continue
            n_sites += 1
            for anc in A.ancestors(call):
                if isinstance(anc, ast.With):
                    for it in anc.items:
                        fld = K.self_attr(it.context_expr)
                        if fld in lock_fields:
                            bad.append((call, m, fld))
    rep.floor(rule, "%s: call sites entering the send layer" % short, n_sites, 3)
    rep.ob(rule, "%s: no lock of the connection is held while the send layer is entered" % short, not bad,
           "%d call sites of %s, none inside a `with self.<lock>`" % (n_sites, sorted(send_names)) if not bad else
           "%s calls `%s` while holding self.%s: a request started on the same thread during that write (a proxy finalizer) blocks on "
           "the lock it already holds - the sender deadlocks against itself and every later request hangs"
           % (bad[0][1].name, A.src(bad[0][0])[:50], bad[0][2]), ctx.loc(bad[0][0]) if bad else ctx.loc(c.node), kind="site")


def no_cached_descriptor(ctx, rep, rule, class_quals):
    """stream objects never remember a descriptor number or a poll object: every operation re-derives the descriptor from the live
    file object, so that a closed stream (whose file object was replaced by ClosedFile) fails with EOFError instead of touching
    whatever now owns the recycled descriptor number"""
    for cq in class_quals:
        c = ctx.cls(cq)
        short = cq.split(".")[-1]
        bad = []
        for k in ctx.repo.mro(c):
            if k.module.name.split(".")[0] != "rpyc":
                continue
            for m in k.methods.values():
                for n in A.walk(m.node):
                    if isinstance(n, ast.Assign) and any(K.self_attr(t) for t in n.targets):
                        v = n.value
                        if isinstance(v, ast.Name):
                            # through a local of the same method
                            for d_ in A.walk(m.node):
                                if isinstance(d_, ast.Assign) and any(isinstance(t, ast.Name) and t.id == v.id for t in d_.targets) \
                                        and isinstance(d_.value, ast.Call):
                                    v = d_.value
                                    break
                        cached = [x for x in ast.walk(v) if isinstance(x, ast.Call) and isinstance(x.func, ast.Attribute)
                                  and x.func.attr == "fileno"] or (
                            isinstance(v, ast.Call) and (A.call_name(v) or "").split(".")[-1] in ("poll", "epoll", "select", "DefaultSelector"))
                        if cached:
                            bad.append((n, m))
        rep.ob(rule, "%s: no descriptor number or poll object is cached on the stream" % short, not bad,
               "descriptors are looked up per operation" if not bad else
               "%s stores `%s`: after close() the cached number outlives the file object - later I/O no longer raises EOFError but "
               "reads/writes/polls whichever file has since been given that descriptor number" % (bad[0][1].name, A.norm(bad[0][0])[:60]),
               ctx.loc(bad[0][0]) if bad else ctx.loc(c.node), kind="site")


def lock_state(ctx, func, lock_field, raises="default"):
    """forward dataflow over func's CFG for the blocking lock self.<lock_field>: returns (g, must_in, may_in) with, per node id,
    whether the lock is held on EVERY / on SOME path reaching the node. Acquisition forms: `with self.L:` (enter/exit nodes) and
    an unconditional statement `self.L.acquire()`; release: leaving the with, `self.L.release()`. An exception edge out of the
    acquiring node itself carries the state before it (the acquisition did not happen)."""
    g = ctx.cfg(func, raises=raises)

    def effect(n):
        if n.ast is None:
            return None
        if n.kind == "with_enter" and K.self_attr(n.ast, lock_field):
            return True
        if n.kind == "with_exit" and K.self_attr(n.ast, lock_field):
            return False
        if n.kind == "stmt" and isinstance(n.ast, ast.Expr) and isinstance(n.ast.value, ast.Call):
            c = n.ast.value
            if isinstance(c.func, ast.Attribute) and K.self_attr(c.func.value, lock_field):
                if c.func.attr == "acquire" and not c.args and not c.keywords:
                    return True
                if c.func.attr == "release":
                    return False
        return None
    must = {n.id: None for n in g.live}     # None = unreached (top)
    may = {n.id: False for n in g.live}
    must[g.entry.id] = False
    work = [g.entry]
    while work:
        n = work.pop()
        eff = effect(n)
        for t, l in n.succ:
            if t.id not in must:
                continue
            o_must = must[n.id] if eff is None or (l == "exc" and eff is True) else eff
            o_may = may[n.id] if eff is None or (l == "exc" and eff is True) else eff
            nm = o_must if must[t.id] is None else (must[t.id] and o_must)
            ny = may[t.id] or bool(o_may)
            if nm != must[t.id] or ny != may[t.id]:
                must[t.id], may[t.id] = nm, ny
                work.append(t)
    return g, must, may, effect


def lock_discipline(ctx, rep, rule, class_qual, lock_field, table_field, skip=("__init__", "__repr__")):
    """every access to self.<table_field> happens with self.<lock_field> held on every path, and the lock is never left held when a
    method ends - normally or by an exception (whatever the syntactic form: `with`, or acquire()/release() with try/finally)"""
    c = ctx.cls(class_qual)
    short = class_qual.split(".")[-1]
    for mname, m in sorted(c.methods.items()):
        if mname in skip:
            continue
        uses = [n for n in A.walk(m.node) if isinstance(n, ast.Attribute) and n.attr == table_field and K.self_attr(n)]
        g, must, may, effect = lock_state(ctx, m, lock_field)
        unlocked = []
        for u in uses:
            for n in g.live:
                if n.ast is not None and n.kind in ("stmt", "test", "for") and A.contains(n.ast, u) and not must.get(n.id):
                    unlocked.append(n)
        rep.ob(rule, "%s.%s: the table is touched only under the collection's lock" % (short, mname), bool(uses) and not unlocked,
               "%d access(es), the lock is held on every path reaching them" % len(uses) if uses and not unlocked else
               "self.%s is accessed without self.%s held at %s" % (table_field, lock_field, ctx.loc(unlocked[0].ast) if unlocked else m.loc),
               m.loc, kind="site")
        leaks = [x for x in (g.exit, g.excexit) if may.get(x.id)]
        wit = None
        if leaks:
            acq = [n for n in g.live if effect(n) is True]
            rel = {n.id for n in g.live if effect(n) is False}
            for a_ in acq:
                for t, l in a_.succ:
                    if l == "exc":
                        continue
                    p = Q.find_path_ef([t], lambda x: x in leaks, lambda a, b, l2: b.id not in rel, skip_first=False)
                    if p is not None and t.id not in rel:
                        wit = [a_] + p
                        break
                if wit:
                    break
        rep.ob(rule, "%s.%s: the lock is released on every exit, exceptional ones included" % (short, mname), not leaks,
               "no path leaves the method with the lock held" if not leaks else
               "a path leaves %s with self.%s still held (%s): the next operation on this collection - from any thread, e.g. "
               "clear() when the connection closes - blocks for ever" % (
                   mname, lock_field, "an exception between acquire() and release()" if g.excexit in leaks else "a normal exit"),
               m.loc, witness=ctx.path(wit) if wit else None)


def no_memo(ctx, rep, rule, module_names, why):
    """no function of the given modules is memoised by argument equality (functools.lru_cache / cache / cached_property or a
    hand-rolled memoize decorator): what such a function computes depends on process state that changes (sys.modules, the
    objects behind equal-looking keys), so a remembered answer goes stale or is shared between callers that must not share it"""
    memo = []
    n = 0
    for q, f in sorted(ctx.repo.funcs.items()):
        if f.module.name not in module_names:
            continue
        n += 1
        for d in f.node.decorator_list:
            dn = A.dotted(d.func) if isinstance(d, ast.Call) else A.dotted(d)
            if dn and dn.split(".")[-1] in ("lru_cache", "cache", "memoize", "memoized", "cached", "cached_property", "memo"):
                memo.append((f, dn))
    rep.floor(rule, "functions scanned for memoising decorators", n, 10)
    rep.ob(rule, "%s: no function is memoised by argument equality" % ", ".join(sorted(m.split(".")[-1] for m in module_names)),
           not memo, "no lru_cache / cache decorator" if not memo else
           "%s is decorated with @%s: %s" % (memo[0][0].qual.split(".", 2)[-1], memo[0][1], why),
           memo[0][0].loc if memo else None, kind="model")


_PURE_CALLS = {"isinstance", "issubclass", "len", "type", "hasattr", "callable", "all", "any", "str", "repr", "bool", "int", "id",
               "getattr", "tuple", "list", "set", "frozenset", "dict", "sorted", "min", "max", "abs", "sum"}


def no_effects_in_assert(ctx, rep, rule, modules, pure_extra=()):
    """`assert` statements are removed by `python -O` / PYTHONOPTIMIZE: whatever they evaluate must be free of effects. A read
    from the stream, a send, a pop, a next() inside an assert happens in one interpreter mode and not in the other - the protocol
    state of the two modes diverges. Calls of pure builtins and of the package's own predicates listed in `pure_extra` are fine."""
    n_assert = 0
    bad = []
    for mn in modules:
        m = ctx.repo.modules.get(mn)
        if m is None:
            continue
        for n in ast.walk(m.tree):
            if isinstance(n, ast.Assert):
                n_assert += 1
                for c in [x for x in ast.walk(n) if isinstance(x, ast.Call)]:
                    d = A.call_name(c) or A.src(c.func)
                    if d in _PURE_CALLS or d in pure_extra:
                        continue
                    bad.append((mn, n, c))
    rep.ob(rule, "package: assert statements evaluate nothing with an effect (they vanish under python -O)", not bad,
           "%d assert statement(s) in %d modules, pure tests only" % (n_assert, len(modules)) if not bad else
           "%s: `%s` inside an assert is not executed when the interpreter runs with -O / PYTHONOPTIMIZE: the two modes consume "
           "different amounts of the stream / leave different state behind" % (bad[0][0], A.src(bad[0][2])[:60]),
           ctx.loc(bad[0][1]) if bad else None, kind="site")
    return n_assert

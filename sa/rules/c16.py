"""C16 - a server keeps serving good clients correctly whatever bad clients do.

Exception containment per server class, pool-thread survival, and "nothing shared between connections" (R16.1-R16.5)."""
import ast

from .. import astutil as A
from .. import callgraph
from .. import cfgq as Q
from ..loader import AnalysisError
from . import common as K

SRV = "rpyc.utils.server"
PER_CLIENT = {"_authenticate_and_serve_client", "_serve_client", "_authenticate_and_build_connection", "_handle_connection"}
REVIEWED_GLOBALS = {
    ("rpyc.core.vinegar", "_generic_exceptions_cache"): "stateless stand-in classes keyed by name; identical for every connection",
    ("rpyc.core.vinegar", "_exception_classes_cache"): "stateless wrapper classes keyed by the exception class",
    ("rpyc.core.netref", "builtin_classes_cache"): "filled at import time only",
    ("rpyc.core.netref", "_normalized_builtin_types"): "filled at import time only",
    ("rpyc.core.netref", "builtin_id_pack_cache"): "unused legacy table",
    ("rpyc.core.brine", "_dump_registry"): "filled at import time only",
    ("rpyc.core.brine", "_load_registry"): "filled at import time only",
}
MUTATORS = {"update", "setdefault", "pop", "popitem", "clear", "add", "discard", "remove", "append", "extend", "insert"}


def accept_raises(sock_names):
    """in _accept_method: the per-client routines fail with any Exception, and so does any operation on the accepted socket
    or on the connection built from it (getpeername/fileno/register on a client that has already reset) - close() excepted"""
    def raises(node_ast, kind):
        r = per_client_raises(node_ast, kind)
        if r is None or r:
            return r
        if node_ast is None or kind in ("with_exit", "except", "with_enter", "for"):
            return set()
        for c in A.calls(node_ast):
            fn = c.func
            if isinstance(fn, ast.Attribute) and isinstance(fn.value, ast.Name) and fn.value.id in sock_names \
                    and fn.attr not in ("close",):
                return {Exception}
            d = A.call_name(c) or ""
            if d.startswith("self.") and d.count(".") == 1 and d[5:].startswith("_") and any(
                    isinstance(a, ast.Name) and a.id in sock_names for a in c.args) and d[5:] not in ("_authenticate_and_serve_client",):
                # helper given the client's descriptor / connection (poll registration etc.)
                return {Exception}
        return set()
    return raises


def per_client_raises(node_ast, kind):
    """only the per-client routines (and the authenticator) fail, with any Exception"""
    if node_ast is None or kind in ("with_exit", "except", "with_enter", "for"):
        return set()
    if isinstance(node_ast, ast.Raise):
        return None
    for c in A.calls(node_ast):
        d = A.call_name(c) or ""
        if d.startswith("self.") and d[5:] in (PER_CLIENT | {"authenticator"}):
            return {Exception}
        if d.endswith(".serve_all") or d.endswith("._connect"):
            return {Exception}
    return set()


def check_sigchld(ctx, rep, fsig, rule):
    """the SIGCHLD handler reaps every exited child in a loop that ends as soon as no (more) child has exited"""
    rep.analysed(fsig)
    g = ctx.cfg(fsig, raises="default")
    wp = [n for n in g.live if n.ast is not None and n.kind in ("stmt", "test") and A.find_calls(n.ast, "os.waitpid")]
    loops = [n for n in A.walk(fsig.node) if isinstance(n, ast.While)]
    in_loop = bool(wp) and all(A.enclosing(w.ast, ast.While) is not None or (w.kind == "test" and isinstance(w.owner, ast.While))
                               for w in wp)
    rep.ob(rule, "ForkingServer._handle_sigchld: reaps in a loop (several children may exit for one signal)", in_loop,
           "os.waitpid(-1, WNOHANG) is called repeatedly" if in_loop else
           "a single waitpid per signal: when two children exit close together only one is reaped, the other stays a zombie",
           fsig.loc)
    # the loop ends when waitpid reports no exited child: an exit condition comparing the returned pid with 0
    pidvars = set()
    for w in wp:
        if isinstance(w.ast, ast.Assign) and isinstance(w.ast.targets[0], (ast.Tuple, ast.List)) and w.ast.targets[0].elts \
                and isinstance(w.ast.targets[0].elts[0], ast.Name):
            pidvars.add(w.ast.targets[0].elts[0].id)
        # `pid = os.waitpid(...)[0]`
        if isinstance(w.ast, ast.Assign) and isinstance(w.ast.targets[0], ast.Name) and isinstance(w.ast.value, ast.Subscript) and \
                ctx.try_fold(w.ast.value.slice) == 0 and A.find_calls(w.ast.value.value, "os.waitpid"):
            pidvars.add(w.ast.targets[0].id)
    exits_on_pid = False
    for n in g.live:
        direct = n.kind == "test" and isinstance(n.ast, ast.Compare) and isinstance(n.ast.left, ast.Subscript) and \
            ctx.try_fold(n.ast.left.slice) == 0 and bool(A.find_calls(n.ast.left.value, "os.waitpid"))
        if n.kind == "test" and isinstance(n.ast, ast.Compare) and (direct or (isinstance(n.ast.left, ast.Name) and n.ast.left.id in pidvars)) \
                and ctx.try_fold(n.ast.comparators[0]) in (0, 1):
            for t, l in n.succ:
                if l in ("true", "false"):
                    r = Q.reach([t], labels=("next", "true", "false"))
                    if not (set(wp) & r) or (direct and g.exit in r and not (set(wp) - {n}) & r):
                        exits_on_pid = True
    rep.ob(rule, "ForkingServer._handle_sigchld: the reaping loop ends when no child has exited (pid <= 0)", exits_on_pid,
           "the loop is left on a comparison of the returned pid with 0" if exits_on_pid else
           "the loop does not end on `pid <= 0`: with children alive but none exited waitpid returns (0, 0) and the handler "
           "spins forever inside the signal handler - the server never returns to accept()", fsig.loc)
    hs = [n for n in g.live if n.kind == "except" and n.ast.type is not None and A.src(n.ast.type) in ("OSError", "Exception",
                                                                                                     "ChildProcessError")]
    rep.ob(rule, "ForkingServer._handle_sigchld: ECHILD is absorbed", bool(hs), "except OSError" if hs else
           "waitpid's OSError (no children) escapes the signal handler", fsig.loc, kind="site")


def run(ctx, rep):
    rep.rule("R16.1", "per-client failures cannot reach the accept loop: per-client work runs in another thread/process (child always "
                      "ends in os._exit) or inside a handler that catches Exception without re-raising")
    rep.rule("R16.2", "pool threads survive anything a client causes; an EOFError drops only that client's descriptor")
    rep.rule("R16.3", "nothing is shared between connections: a service instance, a protocol object, a channel and a config per "
                      "accepted socket; no unreviewed module-level table written from handler-reachable code")
    rep.rule("R16.4", "authentication failure is confined: no serving, socket released and untracked")
    rep.rule("R16.5", "hostile bytes only raise: effect-free decoder, default-off sinks, failures become replies or end only that connection")
    rep.assume("resource exhaustion, slow clients and real socket semantics are out of scope",
               "OneShotServer serves its single client inline by design")
    cg = callgraph.get(ctx)

    # ------------------------------------------------------------------ R16.1
    base = ctx.cls(SRV + ".Server")
    concrete = [c for c in ctx.repo.subclasses(base) if "_accept_method" in c.methods]
    rep.floor("R16.1", "concrete server classes", len(concrete), 4)
    for c in sorted(concrete, key=lambda x: x.name):
        f = c.methods["_accept_method"]
        # names bound to the client: the socket parameter and everything derived from it in this method
        derived = {A.params(f.node)[1]}
        changed = True
        while changed:
            changed = False
            for n in A.walk(f.node):
                if isinstance(n, ast.Assign) and (A.names_loaded(n.value) & derived):
                    for nm in A.names_stored(n):
                        if nm not in derived:
                            derived.add(nm)
                            changed = True
        derived -= {"pid"}
        g = ctx.cfg(f, raises=accept_raises(derived))
        rep.analysed(f, g)
        inline = [n for n in g.live if n.ast is not None and n.kind in ("stmt", "test") and n.raises]
        if c.name == "OneShotServer":
            rep.ob("R16.1", "OneShotServer._accept_method serves inline (terminates by design)", bool(inline),
                   "listed exception: the one-shot server handles a single client and shuts down", f.loc, nontrivial=False, kind="site")
            continue
        esc = [n for n in inline if any(t is g.excexit or t.kind == "reraise" for t, l in n.succ if l == "exc")]
        forks = [n for n in g.live if n.ast is not None and A.find_calls(n.ast, "os.fork")]
        if not inline:
            # the work is handed to spawn()/gevent.spawn(): the routine is passed as a value, not called
            handed = [x for x in A.calls(f.node) if (A.call_name(x) or "").split(".")[-1] == "spawn" and x.args and
                      (A.dotted(x.args[0]) or "").startswith("self.") and (A.dotted(x.args[0]) or "")[5:] in PER_CLIENT]
            rep.ob("R16.1", "%s._accept_method hands the client to another thread" % c.name, bool(handed),
                   "`%s`" % A.src(handed[0]) if handed else "_accept_method neither serves nor hands off the client", f.loc)
            continue
        rep.ob("R16.1", "%s._accept_method: a failing client cannot raise into the accept loop" % c.name, not esc,
               "every exception of the per-client routine is caught inside _accept_method" if not esc else
               "`%s` runs inline in the accept loop's thread and its exceptions propagate to Server.start(): one misbehaving "
               "client stops the server for everybody" % esc[0].text()[:60], ctx.loc(esc[0]) if esc else f.loc,
               witness=ctx.path([esc[0], g.excexit]) if esc else None)
        if forks:
            # child branch: every path ends in os._exit
            # partial evaluation with the fork() result equal to 0 (the child)
            exits = [n for n in g.live if n.ast is not None and n.kind == "stmt" and A.find_calls(n.ast, "os._exit")]
            fr_ = K.fork_regions(ctx, g)
            okc = fr_ is not None and bool(exits)
            bad = None
            if okc:
                fk, _, _, vok = fr_
                ex_ids = {x.id for x in exits}
                bad = Q.find_path_ef([fk], lambda x: x is g.exit or x is g.excexit,
                                     lambda a, b, l: vok(a, b, l) and b.id not in ex_ids and not (a is fk and l == "exc"))
                okc = bad is None
            rep.ob("R16.1", "%s: the forked child never returns into the accept loop" % c.name, okc,
                   "every path of the child branch ends in os._exit()" if okc else
                   "the child process can fall back into the parent's accept loop (two servers on one listener)",
                   ctx.loc(forks[0]), witness=ctx.path(bad) if bad else None)
        else:
            # inline work is only acceptable under a handler catching Exception that does not re-raise
            handlers = [n for n in g.live if n.kind == "except"]
            okh = bool(handlers)
            for h in handlers:
                r = Q.reach([h], labels=("next", "true", "false"))
                if any(isinstance(x.ast, ast.Raise) and A.contains(h.ast, x.ast) for x in r):
                    okh = False
            rep.ob("R16.1", "%s._accept_method: the catch-all handler does not re-raise" % c.name, okh,
                   "except Exception: log and close the socket" if okh else "the handler re-raises into the accept loop", f.loc)
    from ..engine import quiet_logging_raises
    fs = ctx.func(SRV + ".Server.start")
    gs = ctx.cfg(fs, raises=quiet_logging_raises)
    rep.analysed(fs, gs)
    hs = sorted(A.src(n.ast.type) for n in gs.live if n.kind == "except" and n.ast.type is not None)
    closes = [n for n in gs.live if n.kind == "stmt" and n.ast is not None and A.find_calls(n.ast, "self.close")]
    accs = [n for n in gs.live if n.kind == "stmt" and n.ast is not None and A.find_calls(n.ast, "self.accept")]
    rep.floor("R16.1", "accept call in Server.start", len(accs), 1)
    p = Q.find_path(accs[0], [gs.exit, gs.excexit], avoid=closes) if accs else None
    rep.ob("R16.1", "Server.start: the accept loop ends only by EOFError/KeyboardInterrupt/inactive and always closes", p is None
           and "EOFError" in hs, "handlers %s; close() in finally" % hs if p is None else "start() can leave without close()",
           fs.loc, witness=ctx.path(p) if p else None)
    fa = ctx.func(SRV + ".Server.accept")
    ga = ctx.cfg(fa, raises="default")
    acc = [n for n in ga.live if n.ast is not None and n.kind == "stmt" and A.find_calls(n.ast, "self.listener.accept")]
    okacc = bool(acc) and all(any(t.kind == "except" for t, l in n.succ if l == "exc") for n in acc)
    hnames = sorted(A.src(n.ast.type) for n in ga.live if n.kind == "except" and n.ast.type is not None)
    rep.ob("R16.1", "Server.accept: listener timeouts and transient socket errors are absorbed", okacc and "socket.timeout" in hnames,
           "handlers %s around listener.accept()" % hnames if okacc else "listener.accept() failures propagate", fa.loc)

    fsig = ctx.func(SRV + ".ForkingServer._handle_sigchld")
    check_sigchld(ctx, rep, fsig, "R16.1")

    # ------------------------------------------------------------------ R16.2
    for meth in ("_serve_clients", "_poll_inactive_clients"):
        f = ctx.func(SRV + ".ThreadPoolServer." + meth)
        rep.analysed(f)
        loops = [n for n in A.walk(f.node) if isinstance(n, ast.While)]
        ok = len(loops) == 1
        why = "no single worker loop"
        if ok:
            body = [s for s in loops[0].body if not (isinstance(s, ast.Expr) and isinstance(s.value, ast.Constant))]
            ok = len(body) == 1 and isinstance(body[0], ast.Try)
            why = "the loop body is not a single try statement"
            if ok:
                tr = body[0]
                catchall = [h for h in tr.handlers if h.type is not None and A.src(h.type) in ("Exception", "BaseException")]
                catchall += [h for h in tr.handlers if h.type is None]
                ok = bool(catchall)
                why = "no handler catches Exception (handlers: %s)" % [A.src(h.type) if h.type else "bare" for h in tr.handlers]
                if ok:
                    for h in tr.handlers:
                        for n in A.walk(h):
                            if isinstance(n, (ast.Raise, ast.Return, ast.Break)):
                                ok = False
                                why = "a handler leaves the loop (`%s`)" % A.norm(n)
                    if tr.finalbody:
                        for n in tr.finalbody:
                            for x in A.walk(n):
                                if isinstance(x, (ast.Raise, ast.Return, ast.Break)):
                                    ok = False
        rep.ob("R16.2", "ThreadPoolServer.%s: the thread's loop body is one try with a catch-all that stays in the loop" % meth, ok,
               "while self.active: try: ... except Exception: log" if ok else
               "a failure caused by one client can end this pool thread (%s): the remaining clients are served by fewer threads, "
               "eventually by none" % why, f.loc)
    fr = ctx.func(SRV + ".ThreadPoolServer._serve_requests")
    gr = ctx.cfg(fr, raises="default")
    rep.analysed(fr, gr)
    hp = A.params(fr.node)[1]
    okd = False
    for h in [n for n in gr.live if n.kind == "except" and n.ast.type is not None and A.src(n.ast.type) == "EOFError"]:
        drops = [c for c in A.find_calls(h.ast, "self._drop_connection")]
        okd = len(drops) == 1 and [A.src(a) for a in drops[0].args] == [hp] and \
            any(isinstance(n, ast.Return) for n in A.walk(h.ast))
    rep.ob("R16.2", "ThreadPoolServer._serve_requests: EOFError drops exactly this client's descriptor", okd,
           "except EOFError: self._drop_connection(fd); return" if okd else
           "a disconnected client is not dropped (or another descriptor is)", fr.loc)
    fdc = ctx.func(SRV + ".ThreadPoolServer._drop_connection")
    dp = A.params(fdc.node)[1]
    cvars = [n.targets[0].id for n in A.walk(fdc.node) if isinstance(n, ast.Assign) and isinstance(n.targets[0], ast.Name)
             and isinstance(n.value, ast.Subscript) and "self.fd_to_conn" in A.src(n.value.value)]
    okdd = "del self.fd_to_conn[%s]" % dp in A.src(fdc.node) and any(A.find_calls(fdc.node, "%s.close" % v) for v in cvars)
    rep.ob("R16.2", "ThreadPoolServer._drop_connection: untracks the descriptor and closes that connection", okdd,
           "del self.fd_to_conn[fd]; conn.close()" if okdd else "_drop_connection no longer (untracks fd, closes conn)", fdc.loc)

    # poll results: an event reporting readable data and no error condition goes to a worker, one reporting an error/hang-up
    # condition is dropped - for every combination of flag letters the poll wrapper can produce for the registered mask
    from .. import miniinterp as MIp
    fhp = ctx.func(SRV + ".ThreadPoolServer._handle_poll_result")
    rep.analysed(fhp)
    # the poll wrapper is interpreted on one flag bit at a time: which letter it reports for which bit, and which bits it requests
    # for the mode the server registers its clients with
    pp = ctx.repo.classes.get("rpyc.lib.compat.PollingPoll")
    BITS = {"POLLIN": 1, "POLLPRI": 2, "POLLOUT": 4, "POLLERR": 8, "POLLHUP": 16, "POLLNVAL": 32, "POLLRDHUP": 0x2000}
    letters = {}      # letter -> set of bit names that produce it
    reg = {}          # mode letter -> set of bit names requested
    modes = set()
    for m_ in ctx.cls(SRV + ".ThreadPoolServer").methods.values():
        for c_ in A.calls(m_.node):
            if isinstance(c_.func, ast.Attribute) and c_.func.attr in ("register", "modify") and len(c_.args) == 2:
                mv = ctx.try_fold(c_.args[1])
                if isinstance(mv, str):
                    modes.add(mv)
    if pp is not None and "poll" in pp.methods and "register" in pp.methods:
        cmod = pp.module
        vals_ = {"select_module." + k_: v_ for k_, v_ in BITS.items() if k_ != "POLLRDHUP"}
        vals_.update({"select." + k_: v_ for k_, v_ in BITS.items() if k_ != "POLLRDHUP"})
        meths_ = {n_: m_.node for n_, m_ in pp.methods.items()}
        extra_p = {"__values__": vals_, "__methods__": meths_, "__max_iter__": 200}

        def glook(name, extra_p=extra_p, cmod=cmod):
            # class-level and module-level tables/constants of the wrapper, evaluated with the model's flag values
            for scope in (pp.attrs, ):
                if name in scope:
                    return True, MIp.eval_expr(scope[name], extra_p)
            if name in cmod.toplevel:
                return True, MIp.eval_expr(cmod.toplevel[name][-1], extra_p)
            return False, None
        extra_p["__global_lookup__"] = glook
        cls_state = {}
        for an_, av_ in pp.attrs.items():
            try:
                cls_state[an_] = MIp.eval_expr(av_, extra_p)
            except (AnalysisError, MIp.Raised):
                pass
        try:
            for bname, bit in BITS.items():
                evs = [(7, bit)]
                st_ = dict(cls_state)
                got = MIp.call_method(meths_["poll"], st_, [None], dict(extra_p, __calls__={"self._poll.poll": lambda t=None, evs=evs: evs}))
                mask = dict(got).get(7, "") if isinstance(got, list) else ""
                for ch in mask:
                    letters.setdefault(ch, set()).add(bname)
            for mode_ in sorted(modes) + ["r", "w", "e", "h"]:
                for ch in mode_:
                    if ch in reg:
                        continue
                    asked = []
                    MIp.call_method(meths_["register"], dict(cls_state), [7, ch], dict(extra_p, __calls__={"self._poll.register": lambda fd, fl, asked=asked: asked.append(fl)}))
                    reg[ch] = {bn for bn, bv in BITS.items() if asked and asked[0] & bv}
        except (AnalysisError, MIp.Raised) as e_:
            rep.undecided("R16.2", "the poll wrapper (PollingPoll)", str(e_))
    rep.floor("R16.2", "flag letters the poll wrapper can report", len(letters), 4)
    rep.floor("R16.2", "poll registrations of client descriptors", len(modes), 1)
    always = {"POLLERR", "POLLHUP", "POLLNVAL"}
    requested = set(always)
    for mode_ in modes:
        for ch in mode_:
            requested |= reg.get(ch, set())
    producible = sorted(ch for ch, fl in letters.items() if fl & requested)
    bad_p = []
    bad_t = []
    n_ev = 0
    try:
        import itertools as _it
        for k_ in range(1, len(producible) + 1):
            for combo in _it.combinations(producible, k_):
                evt = "".join(combo)
                err = any(ch in evt for ch in "ehn")
                if not err and "r" not in evt:
                    continue          # nothing to read and no error: either treatment is harmless
                n_ev += 1
                dropped, queued = [], []

                class _Obj:
                    mi_native = True

                    def __init__(self, **kw):
                        self.__dict__.update(kw)
                noop = lambda *a, **k: None
                registered = {7}

                def unreg(fd):
                    if fd not in registered:
                        raise MIp.Raised("KeyError")
                    registered.discard(fd)
                st_ = {"poll_object": _Obj(unregister=unreg, register=lambda fd, *a: registered.add(fd), modify=noop, poll=lambda *a: []),
                       "_active_connection_queue": _Obj(put=queued.append, get=noop),
                       "fd_to_conn": {7: _Obj(close=lambda: dropped.append(7), fileno=lambda: 7)},
                       "logger": _Obj(debug=noop, info=noop, warning=noop, warn=noop, error=noop, exception=noop)}
                tp_meths = {n_: m_.node for n_, m_ in ctx.cls(SRV + ".ThreadPoolServer").methods.items()
                            if n_ not in ("_handle_poll_result",)}
                MIp.call_method(fhp.node, st_, [[(7, evt)]], {"__methods__": tp_meths, "__max_iter__": 100})
                if err and (dropped != [7] or queued):
                    bad_p.append("event %r (error/hang-up condition): dropped %s, queued %s" % (evt, dropped, queued))
                if not err and (queued != [7] or dropped):
                    bad_p.append("event %r (readable, no error): dropped %s, queued %s - requests already delivered by a client "
                                 "that then closed are discarded" % (evt, dropped, queued))
                if err and (7 in registered or 7 in st_["fd_to_conn"]):
                    bad_t.append("event %r (error/hang-up): afterwards the descriptor is %s" % (evt, " and ".join(x for x in (
                        "still registered with the poll object" if 7 in registered else "",
                        "still in fd_to_conn" if 7 in st_["fd_to_conn"] else "") if x)))
                if not err and 7 in registered:
                    bad_t.append("event %r (readable): the descriptor stays registered with the poll object while a worker serves "
                                 "it - the polling thread reports it again and a second worker reads the same connection" % evt)
        # a batch: one client's event handling fails (its close() raises / it was dropped meanwhile), the next one has data
        bad_b = []
        for first_kind in ("close raises", "already dropped"):
            dropped, queued = [], []

            class _Obj2:
                mi_native = True

                def __init__(self, **kw):
                    self.__dict__.update(kw)
            noop = lambda *a, **k: None
            registered = {5, 7} if first_kind == "close raises" else {7}

            def unreg2(fd, registered=registered):
                if fd not in registered:
                    raise MIp.Raised("KeyError")
                registered.discard(fd)

            def close5():
                raise MIp.Raised("OSError")
            conns = {7: _Obj2(close=lambda: dropped.append(7), fileno=lambda: 7)}
            if first_kind == "close raises":
                conns[5] = _Obj2(close=close5, fileno=lambda: 5)
            st_ = {"poll_object": _Obj2(unregister=unreg2, register=lambda fd, *a: registered.add(fd), modify=noop, poll=lambda *a: []),
                   "_active_connection_queue": _Obj2(put=queued.append, get=noop), "fd_to_conn": conns,
                   "logger": _Obj2(debug=noop, info=noop, warning=noop, warn=noop, error=noop, exception=noop)}
            tp_meths = {n_: m_.node for n_, m_ in ctx.cls(SRV + ".ThreadPoolServer").methods.items() if n_ not in ("_handle_poll_result",)}
            err_evt = next((e_ for e_ in ("h", "e", "n") if e_ in producible), "h")
            try:
                MIp.call_method(fhp.node, st_, [[(5, err_evt), (7, "r")]], {"__methods__": tp_meths, "__max_iter__": 100})
                outcome = "returns"
            except MIp.Raised as r_:
                outcome = "raises %s" % r_.name
            if not (7 in registered or 7 in queued or 7 in dropped):
                bad_b.append("batch [(5, error: %s), (7, readable)]: the call %s and descriptor 7 is neither polled any more nor "
                             "queued for a worker - its request is never served" % (first_kind, outcome))
            if first_kind == "already dropped" and queued != [7]:
                bad_b.append("batch [(5, already dropped), (7, readable)]: queued %s, expected [7]" % queued)
        rep.ob("R16.2", "ThreadPoolServer._handle_poll_result: a failure while handling one descriptor of a batch loses no other", not bad_b,
               "2 batches: the other descriptor stays polled or is queued" if not bad_b else "; ".join(bad_b[:2]), fhp.loc, kind="table")
        rep.ob("R16.2", "ThreadPoolServer._handle_poll_result: a handled descriptor is no longer polled; a dropped one leaves no table "
               "entry", not bad_t, "%d producible events: unregistered from the poll object%s" % (n_ev, ", removed from fd_to_conn when dropped")
               if not bad_t else "; ".join(bad_t[:3]) + " (a closed descriptor left in the poll set is reported as invalid on every "
               "poll: the polling thread spins dropping the departed client again and again)", fhp.loc, kind="table")
        rep.ob("R16.2", "ThreadPoolServer._handle_poll_result: readable events are served, error events dropped", not bad_p,
               "%d producible events over the letters %s" % (n_ev, producible) if not bad_p else "; ".join(bad_p[:3]), fhp.loc, kind="table")
    except (AnalysisError, MIp.Raised) as e_:
        rep.undecided("R16.2", "_handle_poll_result", str(e_))

    # the hand-off queue between the polling thread and the workers is unbounded: the workers are its only consumers and they
    # also put() into it (re-queueing a descriptor), so a bounded queue blocks every worker in put() once enough clients are busy
    qv = K.init_field_ctor(ctx, SRV + ".ThreadPoolServer", "_active_connection_queue")
    okq = isinstance(qv, ast.Call) and (A.call_name(qv) or "").split(".")[-1] in ("Queue", "SimpleQueue", "LifoQueue", "PriorityQueue") \
        and not qv.args and not [k for k in qv.keywords if k.arg == "maxsize"]
    qkind = (A.call_name(qv) or "").split(".")[-1] if isinstance(qv, ast.Call) else None
    rep.ob("R16.2", "ThreadPoolServer: connections with pending data are served first come, first served (a FIFO hand-off queue)",
           qkind in ("Queue", "SimpleQueue", "deque"), "%s()" % qkind if qkind in ("Queue", "SimpleQueue", "deque") else
           "the hand-off queue is a `%s`: a connection a worker re-queues (more data after its batch) goes back on top and is popped "
           "again at once, so with as many busy clients as workers every other client's descriptor stays at the bottom and is never "
           "served" % (A.src(qv) if qv is not None else None), ctx.loc(qv) if qv is not None else fr.loc, kind="site")
    puts = [c for m in ctx.cls(SRV + ".ThreadPoolServer").methods.values() for c in A.find_calls(m.node, "self._active_connection_queue.put")]
    rep.floor("R16.2", "put() sites on the active-connection queue", len(puts), 3)
    rep.ob("R16.2", "ThreadPoolServer: the active-connection queue is unbounded (workers re-queue into it and must never block)",
           okq, "Queue() without maxsize" if okq else
           "the queue the workers both consume and put() into is created as `%s`: once more connections are busy than it holds, "
           "every worker (and the polling thread) blocks in put() and the pool is wedged for all clients" % (
               A.src(qv) if qv is not None else None), ctx.loc(qv) if qv is not None else fr.loc, kind="site")

    # a worker that took a descriptor from the queue gives it back on every exit: to the poll set (idle), to the queue (more
    # work / doubt) or to _drop_connection (dead) - a path that simply returns orphans the connection: nobody polls it, nobody
    # serves it, its disconnect is never noticed and its descriptor stays open
    fsr = ctx.cls(SRV + ".ThreadPoolServer").methods.get("_serve_requests")
    if fsr is not None:
        gsr = ctx.cfg(fsr, raises="std")
        rep.analysed(fsr, gsr)
        disp = {n.id for n in gsr.live if n.ast is not None and n.kind in ("stmt", "test") and (
            A.find_calls(n.ast, "self._add_inactive_connection") or A.find_calls(n.ast, "self._active_connection_queue.put") or
            A.find_calls(n.ast, "self._drop_connection"))}
        rep.floor("R16.2", "descriptor hand-back sites in _serve_requests", len(disp), 3)
        lost = Q.find_path_ef([gsr.entry], lambda x: x is gsr.exit or x is gsr.excexit,
                              lambda a, b, l: b.id not in disp and not (l == "exc" and a.kind in ("for", "iter")))   # range() does not fail
        rep.ob("R16.2", "ThreadPoolServer._serve_requests: the descriptor is handed back (poll set, queue or drop) on every exit",
               lost is None, "every normal and exceptional exit passes one of the three hand-backs" if lost is None else
               "a path leaves _serve_requests without re-registering, re-queueing or dropping the descriptor: the connection is "
               "orphaned (never polled or served again, its socket and service instance leak)", fsr.loc,
               witness=ctx.path(lost) if lost else None)
    # a new connection is in the descriptor table before the polling thread can hear about it (model evaluation of
    # ThreadPoolServer._accept_method: the model poll object notes, at registration time, whether the table has the entry)
    tpc = ctx.cls(SRV + ".ThreadPoolServer")
    fam = tpc.methods.get("_accept_method")
    if fam is not None:
        rep.analysed(fam)
        seen_at_register = []

        class _Obj2:
            mi_native = True

            def __init__(self, **kw):
                self.__dict__.update(kw)
        noop2 = lambda *a, **k: None
        st_a = {"fd_to_conn": {}, "clients": set(), "_active_connection_queue": _Obj2(put=noop2),
                "logger": _Obj2(debug=noop2, info=noop2, warning=noop2, warn=noop2, error=noop2, exception=noop2)}
        st_a["poll_object"] = _Obj2(register=lambda fd, *a: seen_at_register.append((fd, fd in st_a["fd_to_conn"])),
                                    unregister=noop2, modify=noop2)
        conn_m = _Obj2(fileno=lambda: 7, close=noop2)
        sock_m = _Obj2(getpeername=lambda: ("10.0.0.9", 4444), close=noop2, fileno=lambda: 7)
        all_m = {n_: m_.node for k_ in reversed(ctx.repo.mro(tpc)) for n_, m_ in k_.methods.items()}
        try:
            extra_a = {
                "__calls__": {"self._authenticate_and_build_connection": lambda s_: (sock_m, conn_m)},
                "__methods__": {k_: v_ for k_, v_ in all_m.items() if k_ not in ("_accept_method", "_authenticate_and_build_connection")},
                "__max_iter__": 100}
            extra_a["__global_lookup__"] = K.module_function_lookup(ctx, fam.module, extra_a)
            MIp.call_method(fam.node, st_a, [sock_m], extra_a)
            okreg = seen_at_register == [(7, True)] and st_a["fd_to_conn"].get(7) is conn_m
            rep.ob("R16.2", "ThreadPoolServer._accept_method: a new connection is in fd_to_conn before its descriptor is polled", okreg,
                   "table entry first, poll registration second" if okreg else
                   "registrations seen by the poll object: %s (descriptor, already in fd_to_conn?) - a hang-up reported between the "
                   "registration and the table insert finds no entry to drop; the entry inserted afterwards belongs to a descriptor "
                   "nobody polls any more and stays, with its socket, until the server closes" % seen_at_register, fam.loc, kind="model")
        except (AnalysisError, MIp.Raised) as e_:
            rep.undecided("R16.2", "ThreadPoolServer._accept_method", str(e_))

    # ------------------------------------------------------------------ R16.3
    # Service._connect: model evaluation - through a class, every connection gets its own service instance; through an instance,
    # that instance; the protocol object is built afresh from (instance, channel, config) and handed to on_connect
    from .. import miniinterp as MIs
    fc = ctx.func("rpyc.core.service.Service._connect")
    rep.analysed(fc)

    class _Svc:
        mi_native = True

        def __init__(self, is_class, log):
            self.is_class, self.log = is_class, log

        def __call__(self):
            inst = _Svc(False, self.log)
            self.log.append(("instantiate", inst))
            return inst

        def _protocol(self, root, channel, config):
            conn = ("conn", len(self.log))
            self.log.append(("protocol", self, root, channel, config, conn))
            return conn

        def on_connect(self, conn):
            self.log.append(("on_connect", self, conn))
    bad_c = []
    try:
        for is_class in (True, False):
            log = []
            svc = _Svc(is_class, log)
            cfg_in = {"k": 1}
            outs = []
            for _ in range(2):
                outs.append(MIs.call_function(fc.node, [svc, "CHANNEL", cfg_in], {
                    "__isinstance__": lambda v, t: t == "type" and isinstance(v, _Svc) and v.is_class}))
            insts = [x[1] for x in log if x[0] == "instantiate"]
            protos = [x for x in log if x[0] == "protocol"]
            hooks = [x for x in log if x[0] == "on_connect"]
            roots = [x[2] for x in protos]
            if len(protos) != 2 or len(hooks) != 2 or outs != [x[5] for x in protos] or any(x[3] != "CHANNEL" or x[4] is not cfg_in for x in protos):
                bad_c.append("%s: %d protocol objects, %d on_connect calls, returns %s" % (
                    "service class" if is_class else "service instance", len(protos), len(hooks), outs))
            elif is_class and (len(insts) != 2 or roots != insts or insts[0] is insts[1] or any(h[1] is not r or h[2] != p[5]
                                                                                                for h, r, p in zip(hooks, roots, protos))):
                bad_c.append("through a service class the two connections get roots %s (%d instantiations): per-client state is shared "
                             "between clients" % (["class" if r is svc else "instance" for r in roots], len(insts)))
            elif not is_class and (insts or any(r is not svc for r in roots)):
                bad_c.append("through a service instance the root is not that instance")
    except (AnalysisError, MIs.Raised) as e_:
        rep.undecided("R16.3", "Service._connect", str(e_))
    rep.ob("R16.3", "Service._connect: a registered service class is instantiated for each connection", not [b_ for b_ in bad_c if "class" in b_],
           "two connections through a class give two instances, each the root of its own protocol object" if not bad_c else "; ".join(bad_c),
           fc.loc, kind="table")
    rep.ob("R16.3", "Service._connect: builds a new protocol object from (service instance, channel, config) on every call", not bad_c,
           "protocol(root, channel, config) -> on_connect(conn) -> conn, once per call" if not bad_c else "; ".join(bad_c), fc.loc, kind="table")
    memo = [n for n in A.walk(fc.node) if isinstance(n, ast.Assign) and any(
        isinstance(t, ast.Attribute) and not K.self_attr(t) or (isinstance(t, ast.Attribute) and "cache" in t.attr.lower())
        for t in n.targets)]
    for q in (SRV + ".Server._serve_client", SRV + ".ThreadPoolServer._authenticate_and_build_connection"):
        f = ctx.func(q)
        cons = [c for c in A.calls(f.node) if (A.call_name(c) or "").endswith("._connect")]
        rep.floor("R16.3", "%s: connection construction sites" % q.split(".")[-1], len(cons), 1)
        for c in cons:
            ch = c.args[0] if c.args else None
            ok = isinstance(ch, ast.Call) and A.call_name(ch) == "Channel" and ch.args and isinstance(ch.args[0], ast.Call) \
                and A.call_name(ch.args[0]) == "SocketStream" and A.src(ch.args[0].args[0]) in A.params(f.node)[1:] \
                and not A.in_loop(c, f.node)
            rep.ob("R16.3", "%s: one fresh channel over the accepted socket per connection" % q.split(".")[-1], ok,
                   "self.service._connect(Channel(SocketStream(sock)), config)" if ok else
                   "the connection is not built on a fresh Channel(SocketStream(sock)) of the accepted socket", ctx.loc(c))
            oks = A.src(c.func) == "self.service._connect"
            rep.ob("R16.3", "%s: the connection is made through the registered service" % q.split(".")[-1], oks,
                   "self.service._connect(...)" if oks else "`%s`" % A.src(c.func), ctx.loc(c), kind="site")
    K.share(ctx, rep, "c06", lambda o: o.rule == "R06.7" and "fresh configuration" in o.key, "R16.3", floor=2)
    K.share(ctx, rep, "c07", lambda o: o.rule == "R07.2" and ("fresh per-connection" in o.key or "module-level" in o.key),
            "R16.3", floor=6)
    # (c) global tables written from handler-reachable code
    closure = cg.closure([K.CONN + "._dispatch", K.CONN + ".__init__", "rpyc.core.service.Service._connect"])
    globs = {}
    for m in ctx.repo.modules.values():
        if not m.name.startswith(("rpyc.core", "rpyc.lib")):
            continue
        for name, exprs in m.toplevel.items():
            if any(isinstance(e, (ast.Dict, ast.List, ast.Set)) or (isinstance(e, ast.Call) and (A.call_name(e) or "").split(".")[-1]
                   in ("dict", "list", "set", "WeakValueDict", "RefCountingColl", "WeakValueDictionary", "defaultdict"))
                   for e in exprs):
                globs[(m.name, name)] = m
    rep.floor("R16.3", "module-level mutable objects in rpyc.core / rpyc.lib", len(globs), 5)
    written = {}
    for q in sorted(closure):
        f = ctx.repo.funcs[q]
        locals_ = set(A.params(f.node)) | A.names_stored(f.node)
        for n in A.walk(f.node):
            tgt = None
            if isinstance(n, ast.Subscript) and isinstance(n.ctx, (ast.Store, ast.Del)):
                tgt = n.value
            elif isinstance(n, ast.Call) and isinstance(n.func, ast.Attribute) and n.func.attr in MUTATORS:
                tgt = n.func.value
            if tgt is None:
                continue
            d = A.dotted(tgt)
            if not d:
                continue
            head = d.split(".")[0]
            if head in locals_ or head in ("self", "cls"):
                continue
            r = ctx.repo.resolve_name(f.module, d)
            key = None
            if r and r[0] == "value":
                key = (r[1].name, r[2])
            elif (f.module.name, d) in globs:
                key = (f.module.name, d)
            if key in globs:
                written.setdefault(key, []).append((f, n))
    for key, sites in sorted(written.items()):
        ok = key in REVIEWED_GLOBALS and key != (K.PROTO, "DEFAULT_CONFIG")
        f, n = sites[0]
        rep.ob("R16.3", "module-level table %s.%s written from connection code is a reviewed, connection-independent cache" % key, ok,
               REVIEWED_GLOBALS.get(key, "") if ok else
               "%s writes the module-level object %s.%s: state (objects, ids, configuration) written while serving one "
               "client is visible to every other connection" % (f.qual.split(".", 2)[-1], key[0], key[1]), ctx.loc(n), kind="site")
    rep.extra["global_tables_seen"] = sorted("%s.%s" % k for k in globs)

    # ------------------------------------------------------------------ R16.4
    fau = ctx.func(SRV + ".Server._authenticate_and_serve_client")

    def au_raises(node_ast, kind):
        r = per_client_raises(node_ast, kind)
        if r is not None and not r and node_ast is not None and not isinstance(node_ast, ast.Raise) and \
                A.find_calls(node_ast, "sock.getpeername"):
            return {OSError}
        return r
    gau = ctx.cfg(fau, raises=au_raises)
    rep.analysed(fau, gau)
    hs = [n for n in gau.live if n.kind == "except" and n.ast.type is not None and "AuthenticationError" in A.src(n.ast.type)]
    serve = [n for n in gau.live if n.kind == "stmt" and n.ast is not None and A.find_calls(n.ast, "self._serve_client")]
    okr = bool(hs) and bool(serve)
    for h in hs:
        r = Q.none_state_reach([h])
        if {x.id for x in serve} & set(r):
            okr = False
    rep.ob("R16.4", "_authenticate_and_serve_client: a client that fails authentication is never served", okr,
           "the AuthenticationError handler returns; _serve_client is unreachable from it" if okr else
           "after an authentication failure the client can still reach _serve_client", ctx.loc(hs[0]) if hs else fau.loc)
    auth = [n for n in gau.live if n.kind == "stmt" and n.ast is not None and A.find_calls(n.ast, "self.authenticator")]
    okcred = False
    for n in serve:
        for c in A.find_calls(n.ast, "self._serve_client"):
            okcred = len(c.args) == 2
    domau = Q.dominators(gau)
    # serving is dominated by either successful authentication or the no-authenticator branch
    oka = bool(serve)
    for s in serve:
        c = {A.src(t.ast): pol for t, pol in Q.dominating_conditions(gau, s, domau)}
        pth = Q.find_path_ef(gau.entry, lambda x: x is s,
                             lambda a, b, l: l != "exc" and a not in auth and not (
                                 a.kind == "test" and A.src(a.ast) == "self.authenticator" and l == "false"))
        oka = oka and pth is None
    rep.ob("R16.4", "_authenticate_and_serve_client: with an authenticator configured, serving requires that it returned", oka,
           "every path to _serve_client passes the authenticator call or the no-authenticator branch" if oka else
           "a client can be served without having passed the configured authenticator", fau.loc)
    untrack = [n for n in gau.live if n.kind == "stmt" and n.ast is not None and (
        A.find_calls(n.ast, "self.clients.discard") or A.find_calls(n.ast, "self.clients.remove"))]
    shut = [n for n in gau.live if n.kind == "stmt" and n.ast is not None and (
        A.find_calls(n.ast, "sock.shutdown") or A.find_calls(n.ast, "sock.close"))]
    p1 = Q.find_path(gau.entry, [gau.exit, gau.excexit], avoid=untrack)
    p2 = Q.find_path(gau.entry, [gau.exit, gau.excexit], avoid=shut)
    rep.ob("R16.4", "_authenticate_and_serve_client: on every exit the socket is shut down and untracked", p1 is None and p2 is None,
           "finally: sock.shutdown(...); self.clients.discard(sock)" if p1 is None and p2 is None else
           "a per-client exit path leaves the socket open or tracked", fau.loc, witness=ctx.path(p1 or p2) if (p1 or p2) else None)

    # ------------------------------------------------------------------ R16.5
    K.share(ctx, rep, "c04", lambda o: o.rule == "R04.7", "R16.5", floor=2)
    K.share(ctx, rep, "c07", lambda o: o.rule == "R07.4" and "off by default" in o.key, "R16.5", floor=2)
    K.share(ctx, rep, "c08", lambda o: o.rule == "R08.1" and o.key.startswith("_dispatch_request: failure of"), "R16.5", floor=3)
    K.share(ctx, rep, "c08", lambda o: o.rule == "R08.1" and "local propagation" in o.key, "R16.5", floor=1)
    K.share(ctx, rep, "c11", lambda o: o.rule == "R11.3", "R16.5", floor=4)
    K.share(ctx, rep, "c05", lambda o: o.rule == "R05.3", "R16.5", floor=8)
    # a serving thread that blocks for ever on a leaked collection lock (a peer returning a reference it never got) is lost to
    # every other client; a forked child that still owns the listener can shut it down for the parent
    K.share(ctx, rep, "c10", lambda o: o.rule == "R10.4" and "lock is released on every exit" in o.key, "R16.5", floor=4)
    K.share(ctx, rep, "c17", lambda o: o.rule == "R17.2" and "ForkingServer" in o.key, "R16.5", floor=1)
    K.share(ctx, rep, "c05", lambda o: o.rule == "R05.4" and "Channel.recv" in o.key, "R16.5", floor=1)
    # per-client objects do not share mutable state by accident (mutable default arguments, class-level tables)
    from . import hygiene as H
    for cq_ in sorted(q for q, c_ in ctx.repo.classes.items() if q.startswith("rpyc.core.service.") or q in (
            K.CONN, "rpyc.core.channel.Channel", "rpyc.core.async_.AsyncResult")):
        H.private_state(ctx, rep, "R16.3", cq_)
    _signal_shared_state(ctx, rep)
    _no_select_on_client_sockets(ctx, rep)
    _accepted_sockets_blocking(ctx, rep)


def _signal_shared_state(ctx, rep):
    """R16.6: a signal handler runs between any two bytecodes of the main flow. A field of the server that is modified both by a
    registered signal handler and by the accept path (`self._children.add(pid)` after fork() vs. `discard(pid)` in the SIGCHLD
    handler) can be modified in the wrong order - a child that exits at once is reaped before it is recorded and stays recorded
    for ever - unless the main-flow writer masks the signal (signal.pthread_sigmask)."""
    rep.rule("R16.6", "no server state is modified both by a signal handler and by unmasked main-flow code")
    n_handlers = 0
    bad = []
    MUT = ("add", "discard", "remove", "append", "pop", "clear", "update", "extend", "insert", "popitem", "setdefault", "put")
    for cq, c in sorted(ctx.repo.classes.items()):
        if not cq.startswith(SRV + "."):
            continue
        handlers = set()
        for m in c.methods.values():
            for call in A.calls(m.node):
                if (A.call_name(call) or "").endswith("signal.signal") and len(call.args) == 2:
                    h = call.args[1]
                    if isinstance(h, ast.Attribute) and isinstance(h.value, ast.Name) and h.value.id in ("self", "cls"):
                        handlers.add(h.attr)
        for hn in sorted(handlers):
            hm = ctx.repo.method(c, hn)
            if hm is None:
                continue
            n_handlers += 1
            rcv = A.params(hm.node)[0]

            def writes(fn, rcv_):
                out = {}
                for n in A.walk(fn):
                    if isinstance(n, (ast.Assign, ast.AugAssign, ast.Delete)):
                        tg = n.targets if not isinstance(n, ast.AugAssign) else [n.target]
                        for t in tg:
                            b = t
                            while isinstance(b, ast.Subscript):
                                b = b.value
                            if isinstance(b, ast.Attribute) and isinstance(b.value, ast.Name) and b.value.id == rcv_:
                                out.setdefault(b.attr, n)
                    if isinstance(n, ast.Call) and isinstance(n.func, ast.Attribute) and n.func.attr in MUT:
                        b = n.func.value
                        if isinstance(b, ast.Attribute) and isinstance(b.value, ast.Name) and b.value.id == rcv_:
                            out.setdefault(b.attr, n)
                return out
            hw = writes(hm.node, rcv)
            if not hw:
                continue
            for k in ctx.repo.mro(c):
                for m in k.methods.values():
                    if m.name in ("__init__", hn):
                        continue
                    masked = any((A.call_name(x) or "").endswith("pthread_sigmask") for x in A.calls(m.node))
                    mw = writes(m.node, A.params(m.node)[0] if A.params(m.node) else "self")
                    for fld in sorted(set(hw) & set(mw)):
                        if not masked:
                            bad.append((fld, hm, m, mw[fld]))
    rep.floor("R16.6", "signal handlers registered by server classes", n_handlers, 1)
    rep.ob("R16.6", "servers: no field is modified both by a signal handler and by unmasked main-flow code", not bad,
           "%d handler(s); they share no mutable field with the accept path" % n_handlers if not bad else
           "self.%s is modified by the signal handler %s and by %s (`%s`) without masking the signal: the handler can run between "
           "fork() returning and the bookkeeping that follows, so a child that exits at once is un-recorded before it is recorded - "
           "the stale entry counts against every later client" % (
               bad[0][0], bad[0][1].name, bad[0][2].name, A.src(bad[0][3])[:50]), ctx.loc(bad[0][3]) if bad else SRV.replace(".", "/") + ".py",
           kind="site")


def _select_calls(ctx, modname):
    """call sites in a module that reach select(2): `select.select(...)`, `select_module.select(...)` or the name `select` that
    rpyc.lib.compat exports"""
    m = ctx.repo.modules.get(modname)
    out = []
    if m is None:
        return out
    for c in [x for x in ast.walk(m.tree) if isinstance(x, ast.Call)]:
        d = A.call_name(c) or ""
        head, _, last = d.rpartition(".")
        if last != "select":
            continue
        if head:
            tgt = m.imports.get(head.split(".")[0], "")
            if tgt in ("select",) or head in ("select_module",):
                out.append(c)
        else:
            tgt = m.imports.get("select", "")
            if tgt in ("select.select", "rpyc.lib.compat.select") or (modname == "rpyc.lib.compat" and "select" not in A.params(
                    A.enclosing(c, (ast.FunctionDef,)) or ast.parse("def f(): pass").body[0])):
                out.append(c)
    return out


def _no_select_on_client_sockets(ctx, rep):
    """R16.7: a server process holds one descriptor per client; select(2) cannot watch a descriptor >= FD_SETSIZE (1024) - it
    raises ValueError - so with about a thousand (idle, well-behaved or not) clients every further connection would fail. The
    stream, channel, connection and server layers wait through the poll object of rpyc.lib.compat (poll(2) where the platform has
    it); select() is called only inside compat's fallback poll object (and the standalone reactor)."""
    rep.rule("R16.7", "client sockets are waited for through compat.poll (poll(2)); select(2), limited to descriptors < 1024, is "
                      "called only by compat's fallback")
    ref = _select_calls(ctx, "rpyc.lib.compat")
    rep.floor("R16.7", "select() call sites recognised in rpyc.lib.compat (scanner self-check)", len(ref), 1)
    bad = []
    n_mod = 0
    for mn in ("rpyc.core.stream", "rpyc.core.channel", "rpyc.core.protocol", "rpyc.utils.server", "rpyc.core.async_",
               "rpyc.utils.factory", "rpyc.utils.helpers"):
        if mn in ctx.repo.modules:
            n_mod += 1
            bad += [(mn, c) for c in _select_calls(ctx, mn)]
    rep.floor("R16.7", "modules of the connection / server layers scanned", n_mod, 5)
    fp = ctx.func("rpyc.core.stream.Stream.poll")
    uses_poll = [c for c in A.calls(fp.node) if A.call_name(c) == "poll"]
    rep.ob("R16.7", "Stream.poll waits through a compat.poll() object", bool(uses_poll),
           "`%s`" % A.src(uses_poll[0]) if uses_poll else "Stream.poll no longer builds a poll object", fp.loc, kind="site")
    rep.ob("R16.7", "no select() on client descriptors in the stream / connection / server layers", not bad,
           "%d modules scanned" % n_mod if not bad else
           "%s calls `%s`: select() raises ValueError for a descriptor >= 1024, i.e. for every client accepted while about a "
           "thousand others are connected" % (bad[0][0], A.src(bad[0][1])[:60]), ctx.loc(bad[0][1]) if bad else None, kind="site")


def _accepted_sockets_blocking(ctx, rep):
    """R16.8: an accepted socket inherits the process-wide default timeout (socket.setdefaulttimeout) - and, on some platforms,
    the listener's own time-out. SocketStream treats a timed-out send as a dead connection, so a well-behaved client that is
    merely slow to drain a large reply would be disconnected in the middle of it. Server.accept therefore puts every accepted
    socket into blocking mode before it is tracked or handed to the serving mechanism."""
    rep.rule("R16.8", "every accepted client socket is put into blocking mode (no inherited OS time-out) before it is served")
    f = ctx.func(SRV + ".Server.accept")
    g = ctx.cfg(f)
    rep.analysed(f, g)
    acc = [n for n in g.live if n.ast is not None and n.kind == "stmt" and A.find_calls(n.ast, "self.listener.accept")]
    hand = [n for n in g.live if n.ast is not None and n.kind == "stmt" and A.find_calls(n.ast, "self._accept_method")]
    rep.floor("R16.8", "listener.accept() / hand-off sites in Server.accept", min(len(acc), len(hand)), 1)

    def blocking(n):
        if n.ast is None:
            return False
        for c in A.calls(n.ast):
            if isinstance(c.func, ast.Attribute) and c.func.attr == "setblocking" and c.args and ctx.try_fold(c.args[0]) in (True, 1):
                return True
            if isinstance(c.func, ast.Attribute) and c.func.attr == "settimeout" and c.args and isinstance(c.args[0], ast.Constant) \
                    and c.args[0].value is None:
                return True
        return False
    mode = {n.id for n in g.live if blocking(n)}
    wit = None
    for a in acc:
        for t, l in a.succ:
            if l == "exc":
                continue
            p = Q.find_path_ef([t], lambda x: x in hand, lambda u, v, l2: l2 != "exc" and u.id not in mode, skip_first=False)
            if p is not None and t.id not in mode:
                wit = [a] + p
    rep.ob("R16.8", "Server.accept: setblocking(True) lies on every path from accept() to the hand-off", bool(acc) and wit is None,
           "the accepted socket is made blocking before _accept_method gets it" if wit is None else
           "an accepted socket reaches _accept_method with whatever time-out it inherited (socket.setdefaulttimeout, the listener): "
           "a send to a slow but well-behaved client times out and the connection is dropped mid-reply",
           f.loc, witness=ctx.path(wit) if wit else None)

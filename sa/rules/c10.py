"""C10 - objects lent to the peer live exactly as long as the peer holds them.

Decides the counting discipline any correct history depends on (R10.1-R10.5); delivery orders are not explored."""
import ast

from .. import astutil as A
from .. import cfgq as Q
from ..loader import AnalysisError
from . import common as K

COLL = "rpyc.lib.colls.RefCountingColl"


PACKAGES = {}


def box_remote_returns(ctx, g, opaque=None):
    """return nodes of _box whose (label, value) package - written in the return or bound to a local on the way - has a label
    folding to LABEL_REMOTE_REF; returns of anything that is not such a literal package are collected in `opaque`"""
    RR = ctx.const("rpyc.core.consts", "LABEL_REMOTE_REF")
    rd = Q.ReachingDefs(g)
    out = []
    for n in g.live:
        if n.kind == "stmt" and isinstance(n.ast, ast.Return) and n.ast.value is not None:
            v = n.ast.value
            if not isinstance(v, ast.Tuple):
                v = K.resolve_expr(rd, n, v)
            if isinstance(v, ast.Tuple) and len(v.elts) == 2 and ctx.try_fold(v.elts[0]) is not None:
                if ctx.try_fold(v.elts[0]) == RR:
                    PACKAGES[(id(g), n.id)] = v
                    out.append(n)
            elif opaque is not None:
                opaque.append(n)
    return out


def run(ctx, rep):
    rep.rule("R10.1", "one send = one count at the owner: every _box path returning a remote reference performs exactly one "
                      "_local_objects.add(id, obj) with the id that is sent; tuples recurse element-wise")
    rep.rule("R10.2", "one received reference = one count at the proxy: the cached proxy's count is bumped by one, or a fresh "
                      "proxy (count 1) is created - never both, never neither")
    rep.rule("R10.3", "the finalizer returns the proxy's whole count; the owner subtracts exactly what it is told")
    rep.rule("R10.4", "the arithmetic of add/decref is consistent (removed <=> outstanding - returned <= 0) and runs under the lock")
    rep.rule("R10.5", "closing releases everything the connection held")
    rep.rule("R10.6", "exports are counted and proxies are cached weakly (constructor table of the connection state)")
    rep.rule("R10.9", "only _unbox consults the proxy cache: whoever hands out a cached proxy must also count the reference (the factory always builds a fresh one)")
    rep.rule("R10.8", "the proxy finalizer is the proxy's own: __del__ (like every method of the proxy base class) stays in the local "
             "names, so a target's own __del__ never shadows the one that sends the release (= R02.3)")
    rep.rule("R10.7", "every reference the peer lent in a message is materialised as a proxy (whose death returns it): replies and "
                      "exceptions are unboxed on every path, request arguments before anything else of the request can fail")
    rep.assume("races between a release notice and a reference in flight, GC timing and weakref callback order are not decided")

    # ------------------------------------------------------------------ R10.1
    fb = ctx.func(K.CONN + "._box")
    g = ctx.cfg(fb)
    rep.analysed(fb, g)
    prm = A.params(fb.node)
    opaque_rets = []
    rets = box_remote_returns(ctx, g, opaque_rets)
    rep.ob("R10.1", "_box: every package returned is built on the path that returns it", not opaque_rets,
           "each return is a literal (label, value) pair" if not opaque_rets else
           "`%s` hands out a package that was built earlier (a memo): the reference inside is sent again without being counted at the "
           "owner, while the peer counts every occurrence - the object is released while the peer still holds it"
           % A.norm(opaque_rets[0].ast), ctx.loc(opaque_rets[0]) if opaque_rets else fb.loc)
    rep.floor("R10.1", "_box paths returning a remote reference", len(rets), 1)
    adds = [n for n in g.live if n.kind == "stmt" and n.ast is not None and A.find_calls(n.ast, "self._local_objects.add")]
    ids = {n.id for n in adds}
    cnt = Q.count_on_paths(g, g.entry, lambda n: n.id in ids)
    rd = Q.ReachingDefs(g)
    for r in rets:
        at = cnt.get(r.id, frozenset())
        ok = at == frozenset([1])
        rep.ob("R10.1", "_box: a remote reference is counted exactly once per send", ok,
               "exactly one self._local_objects.add(...) on every path to `%s`" % A.norm(r.ast) if ok else
               "a reference is sent with %s registrations at the owner: %s" % (sorted(at), "the object can be collected while "
               "the peer holds a proxy" if 0 in at else "the object leaks (count never returns to zero)"), ctx.loc(r))
        sent = PACKAGES.get((id(g), r.id), r.ast.value).elts[1]
        for a in adds:
            c = A.find_calls(a.ast, "self._local_objects.add")[0]
            ok2 = len(c.args) == 2 and A.src(c.args[0]) == A.src(sent) and A.src(c.args[1]) == prm[1]
            if isinstance(sent, ast.Name) and ok2:
                ok2 = rd.at(a, sent.id) == rd.at(r, sent.id)
            rep.ob("R10.1", "_box: the registered key is the id that is sent, the registered object is the boxed one", ok2,
                   "add(%s, %s) / return (..., %s)" % (A.src(c.args[0]), A.src(c.args[1]), A.src(sent)) if ok2 else
                   "add(%s) does not register the boxed object under the id that is sent (%s)"
                   % (", ".join(A.src(x) for x in c.args), A.src(sent)), ctx.loc(a))
        # the id comes from get_id_pack(obj)
        if isinstance(sent, ast.Name):
            defs = rd.at(r, sent.id)
            okid = bool(defs) and all(d != "param" and any(
                A.src(c.args[0]) == prm[1] for c in A.find_calls(d.ast, "get_id_pack") if c.args) for d in defs)
            rep.ob("R10.1", "_box: the id sent is get_id_pack of the boxed object", okid,
                   "id_pack = get_id_pack(obj)" if okid else "the id sent is not derived from the boxed object", ctx.loc(r))
    # tuples recurse element-wise
    LT = ctx.const("rpyc.core.consts", "LABEL_TUPLE")
    tup = [n for n in g.live if n.kind == "stmt" and isinstance(n.ast, ast.Return) and isinstance(n.ast.value, ast.Tuple)
           and len(n.ast.value.elts) == 2 and ctx.try_fold(n.ast.value.elts[0]) == LT]
    rep.floor("R10.1", "_box tuple branch", len(tup), 1)
    for t in tup:
        v = t.ast.value.elts[1]
        ok = isinstance(v, ast.Call) and A.call_name(v) == "tuple" and len(v.args) == 1 and \
            isinstance(v.args[0], (ast.GeneratorExp, ast.ListComp)) and \
            A.call_name(v.args[0].elt) == "self._box" and A.src(v.args[0].generators[0].iter) == prm[1] and \
            A.src(v.args[0].elt.args[0]) == A.src(v.args[0].generators[0].target) and not v.args[0].generators[0].ifs
        rep.ob("R10.1", "_box: every element of a tuple is boxed (and counted) separately, in order", ok,
               "`%s`" % A.src(v) if ok else "tuple elements are not boxed one by one: `%s`" % A.src(v), ctx.loc(t))

    # ------------------------------------------------------------------ R10.2
    um = K.unbox_model(ctx)
    fu, gu = um.f, um.g
    rep.analysed(fu, gu)
    live = um.nodes("LABEL_REMOTE_REF")
    rep.floor("R10.2", "_unbox remote-reference branch", len(um.returns("LABEL_REMOTE_REF")), 1)
    incs = [n for n in gu.live if n.kind == "stmt" and isinstance(n.ast, ast.AugAssign) and
            isinstance(n.ast.target, ast.Attribute) and n.ast.target.attr == "____refcount__"]
    sets = [n for n in gu.live if n.kind == "stmt" and isinstance(n.ast, ast.Assign) and any(
        isinstance(t, ast.Attribute) and t.attr == "____refcount__" for t in n.ast.targets)]
    facts = [n for n in gu.live if n.kind == "stmt" and n.ast is not None and A.find_calls(n.ast, "self._netref_factory")]
    ev = {n.id for n in incs + facts}
    c2 = Q.count_on_paths(gu, gu.entry, lambda n: n.id in ev, edge_ok=um.edge_ok("LABEL_REMOTE_REF"))
    at = frozenset()
    for r in um.returns("LABEL_REMOTE_REF"):
        at |= c2.get(r.id, frozenset())
    ok = at == frozenset([1])
    rep.ob("R10.2", "_unbox: each received reference adds exactly one count on the proxy side", ok,
           "every path bumps the cached proxy's count once or creates one fresh proxy" if ok else
           "a received reference is accounted %s times on the proxy side (bump-or-create must be exactly one): "
           "the finalizer later returns too %s" % (sorted(at), "few (owner leaks)" if 0 in at else "many (owner drops a live object)"),
           fu.loc)
    for i in incs:
        ok = isinstance(i.ast.op, ast.Add) and ctx.try_fold(i.ast.value) == 1
        rep.ob("R10.2", "_unbox: the cached proxy's count grows by one", ok, "`%s`" % A.norm(i.ast) if ok else
               "the count is changed by `%s`" % A.norm(i.ast), ctx.loc(i))
    rep.ob("R10.2", "_unbox: a re-received reference increments (does not reset) the count", not sets and bool(incs),
           "no plain assignment to ____refcount__ in _unbox" if not sets and incs else
           "the proxy's count is assigned instead of incremented: earlier counts are forgotten and the owner leaks",
           ctx.loc(sets[0]) if sets else fu.loc)
    finit = ctx.func("rpyc.core.netref.BaseNetref.__init__")
    # model evaluation of the constructor: whichever way the three slots are stored (plain attribute stores, or
    # object.__setattr__ directly), the fresh proxy holds the connection, the id and a count of exactly 1
    from .. import miniinterp as MIn
    st_n = {}

    def _osa(o_, name_, value_):
        if o_ != "__SELF__":
            raise AnalysisError("object.__setattr__ on something else than the proxy")
        st_n[name_] = value_
    try:
        MIn.call_method(finit.node, st_n, ["CONN", ("mod.Cls", 7, 0)], {
            "__calls__": {"object.__setattr__": _osa}, "__values__": {"object.__setattr__": _osa}, "__max_iter__": 50})
        ok = st_n.get("____refcount__") == 1 and type(st_n.get("____refcount__")) is int and st_n.get("____conn__") == "CONN" and \
            st_n.get("____id_pack__") == ("mod.Cls", 7, 0)
    except MIn.Raised:
        ok = False
    except AnalysisError as e_:
        rep.undecided("R10.2", "BaseNetref.__init__", str(e_))
        ok = True
    one = [finit.node]
    rep.ob("R10.2", "BaseNetref.__init__: a fresh proxy starts with count 1", ok,
           "self.____refcount__ = 1" if ok else "a fresh proxy does not start with count 1", finit.loc, kind="site")
    # the cached proxy is looked up and stored under one key
    dl = ctx.func("rpyc.core.netref.BaseNetref.__del__")
    # ------------------------------------------------------------------ R10.3
    HD = ctx.const("rpyc.core.consts", "HANDLE_DEL")
    sends = [c for c in A.calls(dl.node) if (A.call_name(c) or "").split(".")[-1] in ("asyncreq", "syncreq")]
    ok = len(sends) == 1 and len(sends[0].args) == 3 and ctx.try_fold(sends[0].args[1]) == HD and \
        A.src(sends[0].args[2]) == "self.____refcount__" and A.src(sends[0].args[0]) == "self"
    rep.ob("R10.3", "BaseNetref.__del__: the finalizer returns the proxy's whole count", ok,
           "asyncreq(self, HANDLE_DEL, self.____refcount__)" if ok else
           "the release notice is `%s`: it does not carry the number of references this proxy stands for"
           % (A.src(sends[0]) if sends else "<missing>"), dl.loc)
    oka = bool(sends) and (A.call_name(sends[0]) or "").endswith("asyncreq")
    rep.ob("R10.3", "BaseNetref.__del__: the release notice is asynchronous", oka,
           "asyncreq (a finalizer must not wait for a reply)" if oka else "the finalizer blocks on a synchronous request",
           dl.loc, kind="site")
    gd = ctx.cfg(dl, raises="default")
    esc = any(t is gd.excexit for n in gd.live for t, l in n.succ if l == "exc")
    rep.ob("R10.3", "BaseNetref.__del__: failures are swallowed (the connection may be closed)", not esc,
           "no exception can leave the finalizer" if not esc else "an exception can escape the finalizer", dl.loc)
    # the notice is sent whenever the finalizer runs: no test decides whether the owner is told (CPython clears weak references
    # before it finalizes objects reclaimed by the cycle collector, so "am I still the cached proxy" is false exactly then)
    send_nodes = {n.id for n in gd.live if n.ast is not None and n.kind in ("stmt", "test") and any(
        (A.call_name(c) or "").endswith("asyncreq") or (A.call_name(c) or "").endswith("syncreq") for c in A.calls(n.ast))}
    skip = Q.find_path_ef([gd.entry], lambda x: x is gd.exit, lambda a, b, l: l != "exc" and b.id not in send_nodes) if send_nodes else None
    rep.ob("R10.3", "BaseNetref.__del__: the release notice is sent on every path through the finalizer", bool(send_nodes) and skip is None,
           "unconditional" if send_nodes and skip is None else
           "the finalizer can finish without telling the owner: every reference this proxy stood for stays counted at the owner "
           "until the connection closes", dl.loc, witness=ctx.path(skip) if skip else None)
    fh = ctx.func(K.CONN + "._handle_del")
    hp = A.params(fh.node)
    dec = A.find_calls(fh.node, "self._local_objects.decref")
    ok = len(dec) == 1 and len(dec[0].args) == 2 and A.src(dec[0].args[0]) == "get_id_pack(%s)" % hp[1] and \
        A.src(dec[0].args[1]) == hp[2]
    rep.ob("R10.3", "_handle_del: the owner subtracts exactly the count it is told, from the object it is told", ok,
           "self._local_objects.decref(get_id_pack(obj), count)" if ok else
           "_handle_del calls `%s`" % (A.src(dec[0]) if dec else "<no decref>"), fh.loc)

    # ------------------------------------------------------------------ R10.4
    fadd = ctx.func(COLL + ".add")
    fdec = ctx.func(COLL + ".decref")
    rep.analysed(fadd)
    rep.analysed(fdec)
    # semantic check: add/decref are interpreted (sa/miniinterp.py, no repository code is run) on every history of
    # sends and release notices up to length 6; invariant: the slot exists exactly while sends - returned > 0
    from .. import miniinterp as MI
    import itertools
    ops = ("add", "dec1", "dec2", "dec3")
    histories = 0
    bad_hist = None
    for L in range(1, 7):
        for seq in itertools.product(ops, repeat=L):
            state = {"_dict": {}, "_lock": _ModelLock()}
            out = 0
            ok_seq = True
            trace = []
            for op in seq:
                if op == "add":
                    MI.call_method(fadd.node, state, ["k", "OBJ"])
                    out += 1
                else:
                    c = int(op[3])
                    if c > out:
                        ok_seq = False
                        break           # a peer cannot return more references than it holds
                    try:
                        MI.call_method(fdec.node, state, ["k", c])
                    except MI.Raised as r:
                        bad_hist = (trace + [op], "decref raised %s while %d reference(s) were outstanding" % (r.name, out))
                        break
                    out -= c
                trace.append(op)
                present = "k" in state["_dict"]
                if present != (out > 0):
                    bad_hist = (list(trace), "after this history %d reference(s) are outstanding but the owner %s the object"
                                % (out, "still holds" if present else "has dropped"))
                    break
                if present and state["_dict"]["k"][0] != "OBJ":
                    bad_hist = (list(trace), "the stored object changed")
                    break
            if ok_seq and bad_hist is None:
                histories += 1
            if bad_hist:
                break
        if bad_hist:
            break
    rep.extra.setdefault("table_rows", {})["R10.4 add/decref histories"] = histories
    rep.ob("R10.4", "RefCountingColl: (initial count, removal test) is a consistent pair", bad_hist is None,
           "on all %d histories of sends and release notices (length <= 6) the slot exists exactly while sends - returned > 0"
           % histories if bad_hist is None else
           "history %s: %s (%s)" % (" ".join(bad_hist[0]), bad_hist[1],
                                    "an object is dropped while the peer still holds a reference" if "dropped" in bad_hist[1]
                                    else "an object is never released although every reference was returned"),
           fdec.loc, witness=bad_hist[0] if bad_hist else None, kind="table")
    dprm = A.params(fdec.node)
    cntp = dprm[2]
    tests = [n for n in A.walk(fdec.node) if isinstance(n, ast.If)]
    body_del = [n for n in A.walk(fdec.node) if isinstance(n, ast.Delete) and isinstance(n.targets[0], ast.Subscript)]
    keyp = dprm[1]
    key_ok = all(A.src(n.targets[0].slice) == keyp for n in body_del) if body_del else False
    rep.ob("R10.4", "RefCountingColl.decref: removes the slot of the key it was given", bool(key_ok),
           "del self._dict[%s]" % keyp if key_ok else "decref deletes a different key", fdec.loc, kind="site")
    from . import hygiene as H_
    H_.lock_discipline(ctx, rep, "R10.4", COLL, "_lock", "_dict")
    # add stores the slot under the key with the object
    stores = [n for n in A.walk(fadd.node) if isinstance(n, ast.Assign) and isinstance(n.targets[0], ast.Subscript)
              and K.self_attr(n.targets[0].value, "_dict")]
    aprm = A.params(fadd.node)
    okst = len(stores) == 1 and A.src(stores[0].targets[0].slice) == aprm[1]
    rep.ob("R10.4", "RefCountingColl.add: the slot is stored under the given key and holds the object", okst,
           "self._dict[key] = slot" if okst else "add does not store the slot under its key", fadd.loc, kind="site")
    fget = ctx.func(COLL + ".__getitem__")
    okg = any(isinstance(n, ast.Return) and isinstance(n.value, ast.Subscript) and ctx.try_fold(n.value.slice) == 0
              for n in A.walk(fget.node))
    rep.ob("R10.4", "RefCountingColl.__getitem__: returns the object (slot[0])", okg,
           "return self._dict[key][0]" if okg else "__getitem__ no longer returns the stored object", fget.loc, kind="site")

    # ------------------------------------------------------------------ R10.5
    K.share(ctx, rep, "c11", lambda o: (o.rule == "R11.2" and ("is cleared" in o.key or "emptied after" in o.key or "is dropped" in o.key)) or
            (o.rule == "R11.1" and ("runs _cleanup" in o.key or "_cleanup is told" in o.key)), "R10.5", floor=5)
    ctor = K.init_field_ctor(ctx, K.CONN, "_proxy_cache")
    okw = isinstance(ctor, ast.Call) and (A.call_name(ctor) or "").endswith("WeakValueDict")
    rep.ob("R10.5", "Connection._proxy_cache holds proxies weakly (dropping the last user reference finalizes the proxy)", okw,
           "WeakValueDict()" if okw else "the proxy cache keeps proxies alive: finalizers never run and the owner never releases",
           ctx.loc(ctor) if ctor is not None else "?", kind="site")

    K.share(ctx, rep, "c08", lambda o: o.rule == "R08.3" and "_seq_request_callback" in o.key, "R10.5", floor=3)
    K.connection_state(ctx, rep, "R10.6", ["_local_objects", "_proxy_cache"])

    # ------------------------------------------------------------------ R10.7
    dm = K.dispatch_model(ctx)
    gdm = dm.g
    rep.analysed(dm.f, gdm)
    for kind, fn_name in (("MSG_REPLY", "self._unbox"), ("MSG_EXCEPTION", "self._unbox_exc")):
        ok_e = dm.edge_ok(kind)
        un = {n.id for n in dm.nodes(kind) if n.ast is not None and n.kind in ("stmt", "test") and (
            A.find_calls(n.ast, fn_name) or A.find_calls(n.ast, "self._unbox"))}
        p = Q.find_path_ef([gdm.entry], lambda x: x is gdm.exit, lambda a, b, l: ok_e(a, b, l) and b.id not in un)
        rep.ob("R10.7", "_dispatch: the payload of a %s is unboxed on every path" % kind, bool(un) and p is None,
               "every path of that message kind passes %s(...)" % fn_name if un and p is None else
               "a %s can be dropped without unboxing its payload: a by-reference result the owner has already counted never "
               "becomes a proxy, so no release notice is ever sent and the object stays exported until the connection closes"
               % kind, dm.f.loc, witness=ctx.path(p) if p else None)
    fdr = ctx.func(K.CONN + "._dispatch_request")
    gdr = ctx.cfg(fdr)
    rep.analysed(fdr, gdr)
    unb = [n for n in gdr.live if n.ast is not None and n.kind in ("stmt", "test") and A.find_calls(n.ast, "self._unbox")]
    look = [n for n in gdr.live if n.ast is not None and n.kind in ("stmt", "test") and any(
        isinstance(x, ast.Subscript) and K.self_attr(x.value) and not isinstance(x.ctx, ast.Store) for x in A.walk(n.ast))
        and not any(K.self_attr(x.value, "_config") for x in A.walk(n.ast) if isinstance(x, ast.Subscript))]
    rep.floor("R10.7", "argument unboxing sites in _dispatch_request", len(unb), 1)
    rep.floor("R10.7", "dispatch-table lookups in _dispatch_request", len(look), 1)
    domr = Q.dominators(gdr)
    okd = bool(unb) and all(any(u.id in domr[l_.id] and u is not l_ for u in unb) for l_ in look)
    rep.ob("R10.7", "_dispatch_request: the arguments are unboxed before the handler is looked up", okd,
           "self._unbox(args) is a statement of its own that dominates the table lookup" if okd else
           "the handler table is consulted before (or in the same expression as, hence before) the arguments are unboxed: a request "
           "with an unknown handler id fails first and the objects lent in its arguments never get a proxy - they leak at the sender",
           ctx.loc(look[0]) if look else fdr.loc)
    K.share(ctx, rep, "c02", lambda o: o.rule == "R02.3" and ("every method defined by BaseNetref" in o.key or
                                                             "relies on" in o.key or "__slots__" in o.key), "R10.8", floor=2)
    from . import hygiene as H
    H.who_may_touch(ctx, rep, "R10.9", K.CONN, "_proxy_cache", {"__init__", "_cleanup", "_unbox"},
                    "a cached proxy returned from anywhere but _unbox's own cache branch is treated as new there and its count is not "
                    "incremented: the owner has counted two references, the peer releases one")
    fdr_ = ctx.func(K.CONN + "._dispatch_request")
    gdr_ = ctx.cfg(fdr_)
    box_nodes = [n for n in gdr_.live if n.ast is not None and n.kind in ("stmt", "test") and A.find_calls(n.ast, "self._box")]
    multi = [n for n in box_nodes if len(A.find_calls(n.ast, "self._box")) > 1]
    ids_b = {n.id for n in box_nodes}
    cnt_b = Q.count_on_paths(gdr_, gdr_.entry, lambda n: n.id in ids_b, cap=3)
    at_exit = cnt_b.get(gdr_.exit.id, frozenset())
    rep.floor("R10.1", "boxing sites of the handler result in _dispatch_request", len(box_nodes), 1)
    okb1 = not multi and at_exit <= frozenset([0, 1])
    rep.ob("R10.1", "_dispatch_request: the handler's result is boxed at most once per request (every boxing counts a reference "
           "at the owner)", okb1, "one self._box(...) on the replying path" if okb1 else
           "a path through _dispatch_request boxes the result %s times: a by-reference result is counted more often at the owner "
           "than the single proxy the peer builds will ever return - the object stays exported until the connection closes"
           % (sorted(at_exit) if not multi else "several"), ctx.loc(multi[0].ast) if multi else fdr_.loc)
    rep.rule("R10.10", "nothing that outlives the send keeps the request's operands alive (a dying proxy is not resurrected by its "
                       "own release notice)")
    rep.rule("R10.11", "the value a handler returned stays bound to a local until the reply is handed to the send layer (a proxy "
                       "handed back is not released before the reply that carries it)")
    _retention_rules(ctx, rep)
    K.share(ctx, rep, "c03", lambda o: o.rule == "R03.9", "R10.9", floor=1)
    # boxing registers the lent objects BEFORE the message is encoded: an encode failure for a value the codec claims to accept
    # leaves them registered for a message the peer never sees (no proxy, hence no release notice, ever)
    rep.rule("R10.12", "a boxed message always encodes: lengths fit their length fields and partial operations of the codec are total "
                       "(= R04.5, R04.6); otherwise the references boxed for it are never released")
    K.share(ctx, rep, "c04", lambda o: o.rule in ("R04.5", "R04.6"), "R10.12", floor=5)
    # a release notice and a message that lends (or hands back) the same object reach the peer in the order they were issued:
    # everything goes through the one FIFO send queue, nothing overtakes it
    rep.rule("R10.13", "messages leave in the order they were issued: every message is enqueued before the try-lock and the queue is "
                       "drained first-in first-out (= R12.2, R12.3, R12.5)")
    K.share(ctx, rep, "c12", lambda o: o.rule in ("R12.2", "R12.3", "R12.5"), "R10.13", floor=3)
    # a release notice whose transmission fails is not silently lost on a connection that stays open (the proxy's finalizer
    # swallows the error): a failed write closes the stream (= R05.3)
    K.share(ctx, rep, "c05", lambda o: o.rule == "R05.3" and ("write" in o.key), "R10.13")
    K.share(ctx, rep, "c03", lambda o: o.rule == "R03.2" and "is never refused" in o.key, "R10.7", floor=3)


class _ModelLock:
    """the collection's lock as the interpreted methods see it"""
    mi_native = True

    def __init__(self):
        self.held = 0

    def acquire(self, *a):
        self.held += 1
        return True

    def release(self):
        self.held -= 1

    def mi_enter(self):
        self.held += 1
        return self

    def mi_exit(self, *a):
        self.held -= 1
        return False


def _retention_rules(ctx, rep):
    """R10.10 / R10.11: object lifetimes the reference-count protocol relies on."""
    import ast as _ast
    # ---- R10.10: the pending-request bookkeeping keeps no reference to the request's operands
    bad = []
    sites = 0
    for q in ("sync_request", "async_request", "_async_request"):
        fu = ctx.func(K.CONN + "." + q)
        rep.analysed(fu)
        ps = A.params(fu.node)
        operands = set()
        if fu.node.args.vararg is not None:
            operands.add(fu.node.args.vararg.arg)
        operands |= {p for p in ps if p == "args"}
        # locals derived from the operands without passing through the boxing step
        changed = True
        while changed:
            changed = False
            for n in A.walk(fu.node):
                if isinstance(n, _ast.Assign) and len(n.targets) == 1 and isinstance(n.targets[0], _ast.Name) and \
                        n.targets[0].id not in operands:
                    if any(isinstance(x, _ast.Name) and x.id in operands and not _under_call(x, n.value) for x in A.walk(n.value)):
                        operands.add(n.targets[0].id)
                        changed = True
        if not operands:
            continue

        def mentions(e):
            return [x for x in A.walk(e, into_scopes=True) if isinstance(x, _ast.Name) and x.id in operands]
        for n in A.walk(fu.node, into_scopes=True):
            if isinstance(n, _ast.Call):
                cn = A.call_name(n) or ""
                is_ctor = bool(cn) and ctx.repo.resolve_class(fu.module, cn) is not None
                if is_ctor:
                    sites += 1
                    for a_ in list(n.args) + [k.value for k in n.keywords]:
                        if mentions(a_):
                            bad.append((n, "%s(...) is given the request's operands" % cn))
            elif isinstance(n, (_ast.Assign, _ast.AugAssign)):
                tg = n.targets if isinstance(n, _ast.Assign) else [n.target]
                for t in tg:
                    base = t
                    while isinstance(base, _ast.Subscript):
                        base = base.value
                    if isinstance(base, _ast.Attribute) and mentions(n.value):
                        bad.append((n, "`%s` stores the request's operands" % A.src(n)))
            elif isinstance(n, (_ast.Lambda, _ast.FunctionDef)) and n is not fu.node:
                body = n.body if isinstance(n.body, list) else [n.body]
                if any(mentions(b) for b in body):
                    bad.append((n, "a closure created for the request captures its operands"))
    rep.floor("R10.10", "result-object constructions on the request path", sites, 1)
    rep.ob("R10.10", "request path: nothing that outlives the send (result object, callback table, connection field) refers to the "
           "request's operands", not bad,
           "the operands flow only into boxing/sending" if not bad else
           "%s: the entry lives until the reply arrives, so a proxy sent as an operand - in particular the dying proxy in its own "
           "release notice - is kept alive (resurrected) by its own request and is handed out again from the proxy cache although its "
           "finalizer has already run; the reference it then stands for is never returned to the owner" % bad[0][1],
           ctx.loc(bad[0][0]) if bad else ctx.func(K.CONN + ".async_request").loc, kind="site")

    # ---- R10.11: the value a handler returned is held in a local until the reply has been handed to the send layer
    fdr = ctx.func(K.CONN + "._dispatch_request")
    mod = fdr.module
    try:
        raw = _ast.parse(mod.text)
    except SyntaxError:
        raw = None
    A.set_parents(raw)
    rfn = [n for n in _ast.walk(raw) if isinstance(n, _ast.FunctionDef) and n.lineno == fdr.node.lineno]
    if len(rfn) != 1:
        rep.undecided("R10.11", "the source form of _dispatch_request", "cannot locate it in the unnormalised tree")
        return
    rfn = rfn[0]
    cls = A.enclosing(rfn, _ast.ClassDef)

    def handler_calls(fn):
        out = []
        for n in _ast.walk(fn):
            if isinstance(n, _ast.Call) and isinstance(n.func, _ast.Subscript):
                b = n.func.value
                if isinstance(b, _ast.Attribute) and isinstance(b.value, _ast.Name) and b.value.id in ("self", "cls", "type"):
                    out.append(n)
                elif isinstance(b, _ast.Name):
                    out.append(n)
        return out

    def held(call, fn, depth=0):
        """None if the call's value is bound to a plain local for the rest of fn (following `return` into private helpers'
        call sites), else a description"""
        par = getattr(call, "_parent", None)
        if isinstance(par, _ast.Assign) and par.value is call and len(par.targets) == 1 and isinstance(par.targets[0], _ast.Name):
            nm = par.targets[0].id
            others = [x for x in _ast.walk(fn) if isinstance(x, _ast.Name) and x.id == nm and
                      isinstance(x.ctx, (_ast.Store, _ast.Del)) and x is not par.targets[0]]
            if others:
                return "`%s` is re-bound or deleted at line %d before the function ends" % (nm, others[0].lineno)
            return None
        if isinstance(par, _ast.Return) and depth < 3 and cls is not None:
            sites_ = [c for m in cls.body if isinstance(m, _ast.FunctionDef) for c in _ast.walk(m)
                      if isinstance(c, _ast.Call) and isinstance(c.func, _ast.Attribute) and c.func.attr == fn.name and
                      isinstance(c.func.value, _ast.Name) and c.func.value.id == "self"]
            if not sites_:
                return "its value is returned by %s, whose callers were not found" % fn.name
            for c in sites_:
                r = held(c, A.enclosing(c, _ast.FunctionDef), depth + 1)
                if r:
                    return r
            return None
        return "its value is used as a temporary inside `%s`" % (A.src(par)[:90] if par is not None else "?")
    hc = handler_calls(rfn)
    if not hc:   # moved into a helper: look through the class's private helpers called from here
        for c in _ast.walk(rfn):
            if isinstance(c, _ast.Call) and isinstance(c.func, _ast.Attribute) and isinstance(c.func.value, _ast.Name) and \
                    c.func.value.id == "self" and cls is not None:
                for m in cls.body:
                    if isinstance(m, _ast.FunctionDef) and m.name == c.func.attr:
                        hc += [(x, m) for x in handler_calls(m)]
        pairs = hc
    else:
        pairs = [(x, rfn) for x in hc]
    rep.floor("R10.11", "handler invocations found in the source form of _dispatch_request", len(pairs), 1)
    probs = [(x, held(x, f)) for x, f in pairs]
    probs = [(x, r) for x, r in probs if r]
    rep.ob("R10.11", "_dispatch_request: the handler's return value stays bound to a local until the reply is handed to the send layer",
           not probs, "bound to a local that is not re-bound before the function returns" if not probs else
           "%s: when the value is the last reference to a proxy of the peer's object (a handler popping it from a container and "
           "returning it), the proxy dies right after boxing - its release notice is sent BEFORE the reply that hands the object "
           "back, the owner drops the object and cannot resolve the reference in the reply" % probs[0][1],
           "%s:%d" % (mod.relpath, probs[0][0].lineno) if probs else fdr.loc, kind="site")


def _under_call(name_node, root):
    """is name_node (inside root) an argument of a call to self._box(...)?"""
    import ast as _ast
    for c in A.walk(root):
        if isinstance(c, _ast.Call) and (A.call_name(c) or "").endswith("_box"):
            if any(x is name_node for a_ in c.args for x in A.walk(a_)):
                return True
    return False
